pub mod child;
