pub mod child;
pub mod guard;
