//! Guard-page allocator (DESIGN.md 1.3).
//!
//! A `#[global_allocator]` wrapper that can be switched on per thread. While
//! it is on, every allocation is carved out of a private, never-reused
//! virtual arena so that the block sits flush against a `PROT_NONE` page; on
//! free the pages become `PROT_NONE` again (use-after-free faults). Hand
//! written machine code that reads or writes outside the buffers it was given
//! therefore dies with SIGSEGV, which the crash monitor attributes to the
//! case in flight.
use std::alloc::{GlobalAlloc, Layout, System};
use std::cell::Cell;
use std::sync::atomic::{AtomicUsize, Ordering};

pub const PAGE: usize = 4096;
const ARENA_SIZE: usize = 1 << 40; // 1 TiB of address space, never committed

static ARENA_BASE: AtomicUsize = AtomicUsize::new(0);
static ARENA_NEXT: AtomicUsize = AtomicUsize::new(0);
static ARENA_END: AtomicUsize = AtomicUsize::new(0);
pub static GUARD_ALLOCS: AtomicUsize = AtomicUsize::new(0);

#[derive(Copy, Clone, PartialEq, Eq, Debug)]
pub enum Flush {
    /// block ends exactly at a guard page (catches over-runs)
    End,
    /// block starts exactly after a guard page (catches under-runs)
    Start,
}

thread_local! {
    // 0 = off, 1 = end flush, 2 = start flush
    static MODE: Cell<u8> = const { Cell::new(0) };
}

pub struct GuardAlloc;

pub fn init() {
    if ARENA_BASE.load(Ordering::Relaxed) != 0 {
        return;
    }
    let p = unsafe {
        libc::mmap(
            std::ptr::null_mut(),
            ARENA_SIZE,
            libc::PROT_NONE,
            libc::MAP_PRIVATE | libc::MAP_ANONYMOUS | libc::MAP_NORESERVE,
            -1,
            0,
        )
    };
    assert!(p != libc::MAP_FAILED, "guard arena mmap failed");
    let base = p as usize;
    ARENA_NEXT.store(base + PAGE, Ordering::SeqCst);
    ARENA_END.store(base + ARENA_SIZE, Ordering::SeqCst);
    ARENA_BASE.store(base, Ordering::SeqCst);
}

/// Fraction of the (never reused) guard arena handed out so far
pub fn arena_used_fraction() -> f64 {
    let b = ARENA_BASE.load(Ordering::Relaxed);
    if b == 0 {
        return 0.0;
    }
    let n = ARENA_NEXT.load(Ordering::Relaxed);
    (n - b) as f64 / ARENA_SIZE as f64
}

fn in_arena(p: usize) -> bool {
    let b = ARENA_BASE.load(Ordering::Relaxed);
    b != 0 && p >= b && p < ARENA_END.load(Ordering::Relaxed)
}

fn round_up(n: usize, a: usize) -> usize {
    n.div_ceil(a) * a
}

/// Allocates `size` bytes with alignment `align`, flush as requested; the
/// page after (End) and before (both) the data pages is inaccessible.
pub unsafe fn guard_alloc(size: usize, align: usize, flush: Flush) -> *mut u8 {
    let data = round_up(size.max(1), PAGE);
    let total = data + PAGE; // data pages + trailing guard page
    let start = ARENA_NEXT.fetch_add(total, Ordering::SeqCst);
    if start + total > ARENA_END.load(Ordering::Relaxed) {
        return std::ptr::null_mut();
    }
    let r = unsafe {
        libc::mprotect(
            start as *mut libc::c_void,
            data,
            libc::PROT_READ | libc::PROT_WRITE,
        )
    };
    if r != 0 {
        return std::ptr::null_mut();
    }
    GUARD_ALLOCS.fetch_add(1, Ordering::Relaxed);
    match flush {
        Flush::Start => start as *mut u8,
        Flush::End => {
            let p = start + data - size;
            (p & !(align - 1)) as *mut u8
        }
    }
}

pub unsafe fn guard_free(p: *mut u8, size: usize) {
    let start = (p as usize) & !(PAGE - 1);
    let end = round_up(p as usize + size.max(1), PAGE);
    // replace the mapping: frees the physical pages and makes any later
    // access fault; the address range is never handed out again
    unsafe {
        libc::mmap(
            start as *mut libc::c_void,
            end - start,
            libc::PROT_NONE,
            libc::MAP_PRIVATE
                | libc::MAP_ANONYMOUS
                | libc::MAP_NORESERVE
                | libc::MAP_FIXED,
            -1,
            0,
        );
    }
}

unsafe impl GlobalAlloc for GuardAlloc {
    unsafe fn alloc(&self, layout: Layout) -> *mut u8 {
        let mode = MODE.try_with(|m| m.get()).unwrap_or(0);
        if mode == 0 || layout.align() > PAGE {
            return unsafe { System.alloc(layout) };
        }
        let flush = if mode == 1 { Flush::End } else { Flush::Start };
        unsafe { guard_alloc(layout.size(), layout.align(), flush) }
    }
    unsafe fn dealloc(&self, ptr: *mut u8, layout: Layout) {
        if in_arena(ptr as usize) {
            unsafe { guard_free(ptr, layout.size()) }
        } else {
            unsafe { System.dealloc(ptr, layout) }
        }
    }
    unsafe fn realloc(
        &self,
        ptr: *mut u8,
        layout: Layout,
        new_size: usize,
    ) -> *mut u8 {
        let mode = MODE.try_with(|m| m.get()).unwrap_or(0);
        if mode == 0 && !in_arena(ptr as usize) {
            return unsafe { System.realloc(ptr, layout, new_size) };
        }
        let new_layout =
            unsafe { Layout::from_size_align_unchecked(new_size, layout.align()) };
        let np = unsafe { self.alloc(new_layout) };
        if !np.is_null() {
            unsafe {
                std::ptr::copy_nonoverlapping(
                    ptr,
                    np,
                    layout.size().min(new_size),
                );
                self.dealloc(ptr, layout);
            }
        }
        np
    }
}

/// `FV_NO_GUARD` switches the guard allocator off (memcheck runs: its own
/// red zones and definedness tracking need the ordinary heap)
pub fn disabled() -> bool {
    static D: std::sync::OnceLock<bool> = std::sync::OnceLock::new();
    *D.get_or_init(|| std::env::var("FV_NO_GUARD").is_ok())
}

/// Runs `f` with the guard allocator switched on for this thread
pub fn with_guard<T>(flush: Flush, f: impl FnOnce() -> T) -> T {
    if disabled() {
        return f();
    }
    init();
    let prev = MODE.with(|m| m.replace(if flush == Flush::End { 1 } else { 2 }));
    struct Reset(u8);
    impl Drop for Reset {
        fn drop(&mut self) {
            MODE.with(|m| m.set(self.0));
        }
    }
    let _r = Reset(prev);
    f()
}

/// A caller-owned slice placed flush against a guard page (or an exact-size
/// heap block when the guard allocator is disabled)
pub struct GuardedSlice<T: Copy> {
    ptr: *mut T,
    len: usize,
    heap: Option<Box<[T]>>,
}

impl<T: Copy> GuardedSlice<T> {
    pub fn new(data: &[T], flush: Flush) -> Self {
        if disabled() {
            let mut b: Box<[T]> = data.to_vec().into_boxed_slice();
            return GuardedSlice {
                ptr: b.as_mut_ptr(),
                len: data.len(),
                heap: Some(b),
            };
        }
        init();
        let size = std::mem::size_of_val(data);
        let p = unsafe { guard_alloc(size, std::mem::align_of::<T>(), flush) }
            as *mut T;
        assert!(!p.is_null());
        unsafe {
            std::ptr::copy_nonoverlapping(data.as_ptr(), p, data.len());
        }
        GuardedSlice {
            ptr: p,
            len: data.len(),
            heap: None,
        }
    }
}

impl<T: Copy> std::ops::Deref for GuardedSlice<T> {
    type Target = [T];
    fn deref(&self) -> &[T] {
        unsafe { std::slice::from_raw_parts(self.ptr, self.len) }
    }
}

impl<T: Copy> Drop for GuardedSlice<T> {
    fn drop(&mut self) {
        if self.heap.is_none() {
            unsafe {
                guard_free(
                    self.ptr as *mut u8,
                    self.len * std::mem::size_of::<T>(),
                )
            }
        }
    }
}
