//! Crash monitor support: a child process records which case it is executing
//! (and the last panic seen by the hook) in a small progress file, so that the
//! parent can attribute a death by signal/abort to a concrete case.
use crate::util::PanicInfo;
use std::fs::File;
use std::io::Write;
use std::os::unix::fs::FileExt;
use std::sync::Mutex;

struct Progress {
    file: File,
    case: u64,
    note: String,
    panic: String,
}

static PROGRESS: Mutex<Option<Progress>> = Mutex::new(None);

pub fn open(path: &str) {
    let file = File::create(path).expect("progress file");
    *PROGRESS.lock().unwrap() = Some(Progress {
        file,
        case: u64::MAX,
        note: String::new(),
        panic: String::new(),
    });
}

fn flush(p: &mut Progress) {
    let mut buf = Vec::with_capacity(1024);
    let _ = write!(
        buf,
        "case={}\nnote={}\npanic={}\n",
        p.case,
        p.note.replace('\n', " "),
        p.panic.replace('\n', " ")
    );
    buf.resize(2048, b' ');
    let _ = p.file.write_all_at(&buf, 0);
}

pub fn set_case(case: u64) {
    if let Ok(mut g) = PROGRESS.try_lock() {
        if let Some(p) = g.as_mut() {
            p.case = case;
            p.note.clear();
            p.panic.clear();
            flush(p);
        }
    }
}

/// Records what the case is about to do (used in crash signatures)
pub fn note(s: &str) {
    if let Ok(mut g) = PROGRESS.try_lock() {
        if let Some(p) = g.as_mut() {
            p.note.clear();
            p.note.push_str(&s[..s.len().min(600)]);
            flush(p);
        }
    }
}

pub fn is_child() -> bool {
    PROGRESS.try_lock().map(|g| g.is_some()).unwrap_or(true)
}

pub fn note_panic(pi: &PanicInfo) {
    if let Ok(mut g) = PROGRESS.try_lock() {
        if let Some(p) = g.as_mut() {
            // keep the first panic of the case: a panic that crosses an
            // `extern "sysv64"` callback is followed by "panic in a function
            // that cannot unwind", which says nothing
            if p.panic.is_empty() {
                p.panic =
                    format!("{} {} | {}", pi.site(), pi.msg_class(), pi.msg);
                flush(p);
            }
        }
    }
}

#[derive(Default, Debug)]
pub struct ProgressRecord {
    pub case: Option<u64>,
    pub note: String,
    pub panic: String,
}

pub fn read(path: &str) -> ProgressRecord {
    let mut r = ProgressRecord::default();
    if let Ok(s) = std::fs::read_to_string(path) {
        for line in s.lines() {
            if let Some(v) = line.strip_prefix("case=") {
                r.case = v.trim().parse().ok().filter(|c| *c != u64::MAX);
            } else if let Some(v) = line.strip_prefix("note=") {
                r.note = v.trim().to_string();
            } else if let Some(v) = line.strip_prefix("panic=") {
                r.panic = v.trim().to_string();
            }
        }
    }
    r
}
