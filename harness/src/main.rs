#![allow(dead_code)]
//! `fv` - runtime-monitoring harness for the fidget properties C01..C20.
//!
//! usage: fv <Cxx> [quick|thorough] [--replay <file>] [--seed <n>]
//! (see /verif/DESIGN.md section 1)
mod gen_;
mod monitor;
mod props;
mod refmodel;
mod util;

use serde_json::{Value, json};
use std::sync::atomic::{AtomicU64, Ordering};
use std::time::{Duration, Instant};
use util::{Rng, Stats, Tier, guarded};

#[global_allocator]
static ALLOC: monitor::guard::GuardAlloc = monitor::guard::GuardAlloc;

/// Root of the verification tree this binary belongs to
/// (`<root>/harness/target/release/fv`), so that a snapshot run writes its
/// evidence/replays into the snapshot, not into /verif
pub fn verif_dir() -> String {
    if let Ok(d) = std::env::var("FV_ROOT") {
        return d;
    }
    std::env::current_exe()
        .ok()
        .and_then(|p| {
            p.ancestors().nth(4).map(|a| a.to_string_lossy().to_string())
        })
        .filter(|d| std::path::Path::new(&format!("{d}/properties.jsonl")).exists())
        .unwrap_or_else(|| "/verif".to_string())
}

#[derive(Copy, Clone, PartialEq, Eq, Debug)]
pub enum Mode {
    /// cases sharded over worker threads of one process
    Threads,
    /// cases sharded over child processes (crash monitor)
    Children,
}

pub trait Prop: Sync {
    fn id(&self) -> &'static str;
    fn mode(&self) -> Mode {
        Mode::Threads
    }
    fn n_cases(&self, tier: Tier) -> u64;
    /// wall-clock cap for the case loop, seconds
    fn time_cap_s(&self, tier: Tier) -> u64 {
        tier.pick(100, 1500)
    }
    fn workers(&self) -> usize {
        16
    }
    /// Whether the death of a child process is a violation of this property
    /// (false where totality is another property's subject: the crash is
    /// then only counted)
    fn crash_is_violation(&self) -> bool {
        true
    }
    fn run_case(&self, case: u64, rng: &mut Rng, st: &mut Stats, tier: Tier);
    /// Optional extra stage run once in the parent after the case loop
    /// (sanitizer jobs etc.)
    fn extra_stage(&self, _st: &mut Stats, _tier: Tier, _seed: u64) {}
    /// Self-contained replay: re-run the recorded witness (shape, setup) from
    /// the replay file itself, independent of the generators. Returns false
    /// when the file does not carry enough to do that.
    fn replay_detail(&self, _replay: &Value, _st: &mut Stats) -> bool {
        false
    }
    /// Check minimum-coverage floors; push to `st.inconclusive` when missed
    fn finish(&self, _st: &mut Stats, _tier: Tier) {}
    fn rule(&self) -> String;
    fn assumptions(&self) -> Vec<String> {
        vec![]
    }
}

fn usage() -> ! {
    eprintln!("usage: fv <Cxx> [quick|thorough] [--replay f] [--seed n]");
    std::process::exit(2);
}

struct Args {
    prop: String,
    tier: Tier,
    seed: u64,
    replay: Option<String>,
    child: Option<ChildArgs>,
    cases: Option<u64>,
    threads_child: Option<String>,
}

#[derive(Clone)]
struct ChildArgs {
    shard: u64,
    of: u64,
    start: u64,
    skip: Vec<u64>,
    progress: String,
    out: String,
    deadline_s: u64,
    n_cases: u64,
}

fn parse_args() -> Args {
    let a: Vec<String> = std::env::args().skip(1).collect();
    if a.is_empty() {
        usage();
    }
    let mut prop = String::new();
    let mut tier = match std::env::var("VERIF_TIER").as_deref() {
        Ok("thorough") => Tier::Thorough,
        _ => Tier::Quick,
    };
    let mut seed = std::env::var("VERIF_SEED")
        .ok()
        .and_then(|s| s.parse::<i64>().ok())
        .map(|v| v as u64)
        .unwrap_or(20260924);
    let mut replay = None;
    let mut cases = None;
    let mut child: Option<ChildArgs> = None;
    let mut threads_child = None;
    let mut i = 0;
    let getv = |i: &mut usize| -> String {
        *i += 1;
        a.get(*i).cloned().unwrap_or_else(|| usage())
    };
    while i < a.len() {
        match a[i].as_str() {
            "quick" => tier = Tier::Quick,
            "thorough" => tier = Tier::Thorough,
            "--seed" => seed = getv(&mut i).parse::<i64>().unwrap_or(0) as u64,
            "--replay" => replay = Some(getv(&mut i)),
            "--cases" => cases = getv(&mut i).parse().ok(),
            "--threads-child" => threads_child = Some(getv(&mut i)),
            "--child" => {
                // shard,of,start,deadline_s,n_cases,progress,out,skip
                let v = getv(&mut i);
                let p: Vec<&str> = v.split(',').collect();
                child = Some(ChildArgs {
                    shard: p[0].parse().unwrap(),
                    of: p[1].parse().unwrap(),
                    start: p[2].parse().unwrap(),
                    deadline_s: p[3].parse().unwrap(),
                    n_cases: p[4].parse().unwrap(),
                    progress: p[5].to_string(),
                    out: p[6].to_string(),
                    skip: p[7..]
                        .iter()
                        .filter_map(|s| s.parse().ok())
                        .collect(),
                });
            }
            s if s.starts_with('C') && prop.is_empty() => prop = s.to_string(),
            _ => usage(),
        }
        i += 1;
    }
    if prop.is_empty() {
        usage();
    }
    Args {
        prop,
        tier,
        seed,
        replay,
        child,
        cases,
        threads_child,
    }
}

/// Runs one case with panic capture; classifies an escaped panic
fn run_one(prop: &dyn Prop, case: u64, seed: u64, tier: Tier, st: &mut Stats) {
    monitor::child::set_case(case);
    let mut rng = Rng::for_case(seed, prop.id(), case);
    let r = guarded(|| prop.run_case(case, &mut rng, st, tier));
    st.inc("cases_run");
    if let Err(pi) = r {
        if pi.in_repo() {
            st.violation(
                case,
                format!("panic:{}:{}", pi.site(), pi.msg_class()),
                format!("panic escaped from fidget at {}: {}", pi.site(), pi.msg),
                json!({"panic_site": pi.site(), "message": pi.msg}),
            );
        } else {
            st.inconclusive.push(format!(
                "harness error in case {case}: {}:{} {}",
                pi.file, pi.line, pi.msg
            ));
        }
    }
}

fn run_threads(
    prop: &dyn Prop,
    n: u64,
    seed: u64,
    tier: Tier,
    deadline: Instant,
) -> Stats {
    let next = AtomicU64::new(0);
    let mut total = Stats::default();
    let workers = prop.workers();
    std::thread::scope(|s| {
        let mut hs = vec![];
        for _ in 0..workers {
            hs.push(
                std::thread::Builder::new()
                    .stack_size(64 << 20)
                    .spawn_scoped(s, || {
                        let mut st = Stats::default();
                        loop {
                            let c = next.fetch_add(1, Ordering::Relaxed);
                            if c >= n {
                                break;
                            }
                            if Instant::now() > deadline {
                                st.inc("cases_cut_by_time_cap");
                                break;
                            }
                            run_one(prop, c, seed, tier, &mut st);
                        }
                        st
                    })
                    .unwrap(),
            );
        }
        for h in hs {
            match h.join() {
                Ok(st) => total.merge(st),
                Err(_) => total
                    .inconclusive
                    .push("worker thread died".to_string()),
            }
        }
    });
    total
}

fn child_main(prop: &dyn Prop, a: &Args, c: &ChildArgs) -> ! {
    monitor::child::open(&c.progress);
    let t0 = Instant::now();
    let deadline = t0 + Duration::from_secs(c.deadline_s);
    let mut st = Stats::default();
    let mut last_flush = Instant::now();
    let flush = |st: &Stats, next: u64, done: bool| {
        let v = json!({"next": next, "done": done, "stats": st.to_json()});
        let tmp = format!("{}.tmp", c.out);
        std::fs::write(&tmp, serde_json::to_vec(&v).unwrap()).unwrap();
        std::fs::rename(&tmp, &c.out).unwrap();
    };
    let mut case = c.start;
    let mut cases_since_vma_check = 0u32;
    // align to shard
    while case % c.of != c.shard {
        case += 1;
    }
    while case < c.n_cases {
        if Instant::now() > deadline {
            st.inc("cases_cut_by_time_cap");
            break;
        }
        if !c.skip.contains(&case) {
            run_one(prop, case, a.seed, a.tier, &mut st);
        }
        case += c.of;
        // the guard arena is address space that is never handed out twice;
        // a child that has used most of it hands over to a fresh process
        // (an exhausted arena would be an allocation failure, i.e. an abort
        // that has nothing to do with the code under test)
        // ... and so does one whose address space has become fragmented
        // into tens of thousands of mappings (guard pages around blocks that
        // live long): the kernel's per-process mapping limit (65530) would
        // make the next mprotect fail
        cases_since_vma_check += 1;
        if cases_since_vma_check >= 64 {
            cases_since_vma_check = 0;
            let vmas = std::fs::read_to_string("/proc/self/maps").map(|m| m.lines().count()).unwrap_or(0);
            st.max("child_mappings_max", vmas as f64);
            if vmas > 30_000 {
                st.inc("children_retired_with_many_mappings");
                flush(&st, case, false);
                std::process::exit(0);
            }
        }
        if monitor::guard::arena_used_fraction() > 0.6 {
            st.inc("children_retired_with_guard_arena_used");
            st.max("guard_arena_used_fraction", monitor::guard::arena_used_fraction());
            flush(&st, case, false);
            std::process::exit(0);
        }
        if last_flush.elapsed() > Duration::from_millis(1500) {
            flush(&st, case, false);
            last_flush = Instant::now();
        }
    }
    st.max("guard_arena_used_fraction", monitor::guard::arena_used_fraction());
    flush(&st, case, true);
    std::process::exit(0);
}

fn run_children(
    prop: &dyn Prop,
    n: u64,
    seed: u64,
    tier: Tier,
    cap_s: u64,
) -> Stats {
    let workers = prop.workers() as u64;
    let exe = std::env::current_exe().unwrap();
    let dir = format!("{}/harness/target/run-{}-{}", verif_dir(), prop.id(), std::process::id());
    std::fs::create_dir_all(&dir).unwrap();
    let t0 = Instant::now();
    let mut total = Stats::default();
    std::thread::scope(|s| {
        let mut hs = vec![];
        for k in 0..workers {
            let exe = exe.clone();
            let dir = dir.clone();
            hs.push(s.spawn(move || {
                let mut st = Stats::default();
                let mut start = 0u64;
                let mut skip: Vec<u64> = vec![];
                let mut crashes = 0;
                loop {
                    let remaining =
                        cap_s.saturating_sub(t0.elapsed().as_secs());
                    if remaining == 0 {
                        st.inc("cases_cut_by_time_cap");
                        break;
                    }
                    let progress = format!("{dir}/progress-{k}");
                    let out = format!("{dir}/out-{k}.json");
                    let _ = std::fs::remove_file(&out);
                    let mut spec = format!(
                        "{k},{workers},{start},{remaining},{n},{progress},{out}"
                    );
                    for c in &skip {
                        spec.push_str(&format!(",{c}"));
                    }
                    let status = std::process::Command::new(&exe)
                        .arg(prop.id())
                        .arg(tier.name())
                        .arg("--seed")
                        .arg(format!("{}", seed as i64))
                        .arg("--child")
                        .arg(&spec)
                        .stdout(std::process::Stdio::null())
                        .status()
                        .expect("spawn child");
                    let flushed: Option<Value> = std::fs::read(&out)
                        .ok()
                        .and_then(|b| serde_json::from_slice(&b).ok());
                    let (next, done) = match &flushed {
                        Some(v) => {
                            st.merge(Stats::from_json(&v["stats"]));
                            (
                                v["next"].as_u64().unwrap_or(start),
                                v["done"].as_bool().unwrap_or(false),
                            )
                        }
                        None => (start, false),
                    };
                    if status.success() && done {
                        break;
                    }
                    if status.success() && flushed.is_some() && next > start {
                        // graceful hand-over (guard arena nearly used up)
                        start = next;
                        continue;
                    }
                    // abnormal death
                    use std::os::unix::process::ExitStatusExt;
                    let pr = monitor::child::read(&progress);
                    let how = match (status.signal(), status.code()) {
                        (Some(sig), _) => format!("signal{sig}"),
                        (None, Some(c)) => format!("exit{c}"),
                        _ => "unknown".to_string(),
                    };
                    crashes += 1;
                    match pr.case {
                        Some(c) if crashes <= 40 => {
                            let what = if !pr.panic.is_empty() {
                                pr.panic.clone()
                            } else {
                                pr.note.clone()
                            };
                            // signature = class part of the note (before '|')
                            let class = what
                                .split('|')
                                .next()
                                .unwrap_or("")
                                .trim()
                                .to_string();
                            if !prop.crash_is_violation() {
                                st.inc("child_crashes_left_to_C11");
                                skip.push(c);
                                start = next;
                                continue;
                            }
                            st.violation(
                                c,
                                format!("crash:{how}:{class}"),
                                format!(
                                    "child process died ({how}) while running case {c}: {what}"
                                ),
                                json!({"how": how, "note": pr.note, "panic": pr.panic}),
                            );
                            st.inc("child_crashes");
                            skip.push(c);
                            start = next;
                        }
                        _ => {
                            st.inconclusive.push(format!(
                                "shard {k}: child died ({how}) without \
                                 attributable case or too many crashes"
                            ));
                            break;
                        }
                    }
                }
                st
            }));
        }
        for h in hs {
            match h.join() {
                Ok(st) => total.merge(st),
                Err(_) => total
                    .inconclusive
                    .push("shard supervisor died".to_string()),
            }
        }
    });
    let _ = std::fs::remove_dir_all(&dir);
    total
}

/// Thread mode under a supervisor: the workers run in a child process that
/// hands its statistics back through a file.  If that process dies (abort
/// from a non-unwinding panic, SIGSEGV, ...) the whole run is repeated in
/// children mode, whose shards attribute every crash to the case in flight.
fn run_threads_supervised(
    prop: &dyn Prop,
    a: &Args,
    n: u64,
    cap_s: u64,
) -> Stats {
    let exe = std::env::current_exe().unwrap();
    let dir = format!("{}/harness/target", verif_dir());
    let _ = std::fs::create_dir_all(&dir);
    let out = format!("{dir}/threads-{}-{}.json", prop.id(), std::process::id());
    let _ = std::fs::remove_file(&out);
    let status = std::process::Command::new(&exe)
        .arg(prop.id())
        .arg(a.tier.name())
        .arg("--seed")
        .arg(format!("{}", a.seed as i64))
        .arg("--cases")
        .arg(format!("{n}"))
        .arg("--threads-child")
        .arg(&out)
        .status()
        .expect("spawn thread-mode child");
    let got: Option<Value> = std::fs::read(&out)
        .ok()
        .and_then(|b| serde_json::from_slice(&b).ok());
    let _ = std::fs::remove_file(&out);
    if let (true, Some(v)) = (status.success(), &got) {
        return Stats::from_json(v);
    }
    use std::os::unix::process::ExitStatusExt;
    eprintln!(
        "[supervisor] thread-mode process died (signal {:?}, code {:?}); \
         repeating the run in sharded child processes to attribute the crash",
        status.signal(),
        status.code()
    );
    let mut st = run_children(prop, n, a.seed, a.tier, cap_s);
    st.inc("thread_mode_process_died_rerun_in_children");
    st
}

struct Known {
    signature: String,
    what: String,
}

fn load_known(prop: &str) -> Vec<Known> {
    let p = format!("{}/known_findings.json", verif_dir());
    let Ok(b) = std::fs::read(&p) else {
        return vec![];
    };
    let v: Value = serde_json::from_slice(&b).expect("known_findings.json");
    let mut out = vec![];
    if let Some(a) = v["open"].as_array() {
        for e in a {
            if e["property"].as_str() == Some(prop) {
                out.push(Known {
                    signature: e["signature"].as_str().unwrap_or("").to_string(),
                    what: e["what"].as_str().unwrap_or("").to_string(),
                });
            }
        }
    }
    out
}

fn main() {
    let a = parse_args();
    util::install_panic_hook();
    let Some(prop) = props::lookup(&a.prop) else {
        eprintln!("unknown property {}", a.prop);
        std::process::exit(2);
    };
    let prop: &dyn Prop = prop;
    if let Some(c) = a.child.clone() {
        child_main(prop, &a, &c);
    }

    let t0 = Instant::now();
    let known = load_known(prop.id());

    // Replay of a single recorded case
    if let Some(path) = &a.replay {
        let v: Value =
            serde_json::from_slice(&std::fs::read(path).expect("replay file"))
                .expect("replay json");
        let seed = v["seed"].as_i64().unwrap_or(0) as u64;
        let case = v["case"].as_u64().unwrap_or(0);
        let tier = if v["tier"].as_str() == Some("thorough") {
            Tier::Thorough
        } else {
            Tier::Quick
        };
        let mut st = Stats::default();
        let mut pinned = false;
        match guarded(|| {
            let mut st2 = Stats::default();
            let handled = prop.replay_detail(&v, &mut st2);
            (handled, st2)
        }) {
            Ok((true, st2)) => {
                println!("replay: re-ran the recorded witness (shape and setup taken from the file)");
                st = st2;
                pinned = true;
            }
            Ok((false, _)) => {}
            Err(pi) => {
                println!("replay: the recorded witness panicked at {}: {}", pi.site(), pi.msg);
                println!("VIOLATION property={} replay={}", prop.id(), path);
                std::process::exit(1);
            }
        }
        if !pinned {
            run_one(prop, case, seed, tier, &mut st);
        }
        for w in &st.violations {
            println!("replayed: {} [{}]", w.summary, w.signature);
            println!("{}", serde_json::to_string_pretty(&w.detail).unwrap());
        }
        if st.violations.is_empty() {
            println!("replay: no violation reproduced");
            std::process::exit(0);
        }
        println!("VIOLATION property={} replay={}", prop.id(), path);
        std::process::exit(1);
    }

    let n = a.cases.unwrap_or_else(|| prop.n_cases(a.tier));
    let cap = prop.time_cap_s(a.tier);
    if let Some(out) = &a.threads_child {
        let st = run_threads(
            prop,
            n,
            a.seed,
            a.tier,
            t0 + Duration::from_secs(cap),
        );
        let tmp = format!("{out}.tmp");
        std::fs::write(&tmp, serde_json::to_vec(&st.to_json()).unwrap())
            .unwrap();
        std::fs::rename(&tmp, out).unwrap();
        std::process::exit(0);
    }
    let mut st = match prop.mode() {
        Mode::Threads if std::env::var("FV_INPROCESS").is_ok() => run_threads(
            prop,
            n,
            a.seed,
            a.tier,
            t0 + Duration::from_secs(cap),
        ),
        Mode::Threads => run_threads_supervised(prop, &a, n, cap),
        Mode::Children => run_children(prop, n, a.seed, a.tier, cap),
    };
    prop.extra_stage(&mut st, a.tier, a.seed);
    prop.finish(&mut st, a.tier);

    // classify violations against the known-findings file
    let mut new_violations = vec![];
    let mut known_seen: std::collections::BTreeMap<String, u64> =
        Default::default();
    for v in &st.violations {
        if known.iter().any(|k| k.signature == v.signature) {
            *known_seen.entry(v.signature.clone()).or_default() += 1;
        } else {
            new_violations.push(v.clone());
        }
    }

    let _ = std::fs::create_dir_all(format!("{}/replays", verif_dir()));
    let mut lines = vec![];
    for (i, v) in new_violations.iter().enumerate() {
        let path = format!(
            "{}/replays/{}-{}-{}-{}.json",
            verif_dir(),
            prop.id(),
            a.seed as i64,
            v.case,
            i
        );
        let body = json!({
            "property": prop.id(), "seed": a.seed as i64, "case": v.case,
            "tier": a.tier.name(), "signature": v.signature,
            "summary": v.summary, "detail": v.detail,
            "replay_cmd": format!("./check {} --replay {}", prop.id(), path),
        });
        std::fs::write(&path, serde_json::to_vec_pretty(&body).unwrap())
            .unwrap();
        lines.push(format!(
            "VIOLATION property={} replay={}   # {} [{}]",
            prop.id(),
            path,
            v.summary,
            v.signature
        ));
    }

    let wall = t0.elapsed().as_secs_f64();
    let evaluations = st.get("cases_run");
    let mut coverage = serde_json::Map::new();
    coverage.insert("evaluations".into(), json!(evaluations));
    coverage.insert("distinct_nontrivial".into(), json!(st.distinct.len()));
    coverage.insert("rule".into(), json!(prop.rule()));
    coverage.insert("samples".into(), json!(st.samples));
    coverage.insert("counters".into(), json!(st.counters));
    coverage.insert(
        "sets".into(),
        json!(
            st.sets
                .iter()
                .map(|(k, v)| (k.clone(), json!({"n": v.len(), "members": v})))
                .collect::<serde_json::Map<_, _>>()
        ),
    );
    coverage.insert("maxes".into(), json!(st.maxes));
    coverage.insert("inconclusive".into(), json!(st.inconclusive));
    coverage.insert("known_findings_observed".into(), json!(known_seen));
    coverage.insert(
        "new_violation_signatures".into(),
        json!(
            new_violations
                .iter()
                .map(|v| v.signature.clone())
                .collect::<Vec<_>>()
        ),
    );
    coverage.insert("cases_planned".into(), json!(n));
    coverage.insert("exhaustive".into(), json!(false));
    let ev = json!({
        "property_id": prop.id(),
        "tier": a.tier.name(),
        "seed": a.seed as i64,
        "level": "exploration",
        "coverage": coverage,
        "assumptions": prop.assumptions(),
        "wall_s": wall,
        "violations": new_violations.len(),
    });
    let _ = std::fs::create_dir_all(format!("{}/evidence", verif_dir()));
    std::fs::write(
        format!("{}/evidence/{}.json", verif_dir(), prop.id()),
        serde_json::to_vec_pretty(&ev).unwrap(),
    )
    .unwrap();

    println!(
        "{} {} seed={} cases={} distinct_nontrivial={} wall={:.1}s",
        prop.id(),
        a.tier.name(),
        a.seed as i64,
        evaluations,
        st.distinct.len(),
        wall
    );
    for (k, v) in &st.counters {
        println!("  {k} = {v}");
    }
    for (k, v) in &st.maxes {
        println!("  max {k} = {v:e}");
    }
    for (k, v) in &st.sets {
        println!("  |{k}| = {}", v.len());
    }
    for k in &known {
        let seen = known_seen.get(&k.signature).copied().unwrap_or(0);
        println!(
            "KNOWN-FINDING: property={} {} [signature={}; witnesses kept this run: {}]",
            prop.id(),
            k.what,
            k.signature,
            seen
        );
    }
    for l in &lines {
        println!("{l}");
    }
    if !lines.is_empty() {
        std::process::exit(1);
    }
    if !st.inconclusive.is_empty() {
        for i in &st.inconclusive {
            println!("INCONCLUSIVE: {i}");
        }
        std::process::exit(2);
    }
    println!("held on everything observed");
}
