//! Recovers, without any hook, which graph node every instruction of a
//! freshly compiled register tape computes, by *symbolic execution*: the
//! register/memory file holds graph `Node`s instead of values; an instruction
//! `op(a, b)` is matched against the graph's hash-consed `Op::Binary(op, a, b)`
//! (immediates are matched against constant nodes; commutative operations
//! whose immediate the flattening moves to the right are matched in either
//! order). This yields, for the k-th choice instruction, the graph nodes of
//! its operands - needed wherever a trace entry has to be related to operand
//! values or intervals.
use crate::gen_::prog::Bin;
use crate::refmodel::graph::{map_bin, map_un};
use crate::refmodel::tape_shadow::{D, Src, decode};
use fidget_core::compiler::RegOp;
use fidget_core::context::{Context, Node, Op};
use fidget_core::var::Var;
use std::collections::HashMap;

#[derive(Clone, Copy, Debug, PartialEq)]
pub struct Site {
    pub op: Bin,
    /// graph node of the choice itself
    pub node: Node,
    /// tape left operand (graph node)
    pub a: Node,
    /// tape right operand (graph node; a constant node for immediates)
    pub b: Node,
    pub b_is_imm: bool,
    /// index of the instruction in evaluation order
    pub pc: usize,
}

fn const_key(c: f32) -> u32 {
    // `Op::Const` wraps an OrderedFloat: all NaNs are one constant, and so
    // are the two zeros
    if c.is_nan() {
        0x7fc0_0000
    } else if c == 0.0 {
        0
    } else {
        c.to_bits()
    }
}

/// `input_vars[i]` = the `Var` read by tape input `i`.
/// Returns one entry per choice instruction, in evaluation order; `None` when
/// the instruction could not be matched (never expected on fresh tapes).
pub fn map_sites(
    ctx: &Context,
    order: &[Node],
    ops: &[RegOp],
    input_vars: &[Var],
    slot_count: usize,
) -> Vec<Option<Site>> {
    let mut un_idx: HashMap<(crate::gen_::prog::Un, Node), Node> = HashMap::new();
    let mut bin_idx: HashMap<(Bin, Node, Node), Node> = HashMap::new();
    let mut const_idx: HashMap<u32, Node> = HashMap::new();
    let mut var_idx: HashMap<Var, Node> = HashMap::new();
    for &n in order {
        match *ctx.get_op(n).unwrap() {
            Op::Input(v) => {
                var_idx.insert(v, n);
            }
            Op::Const(c) => {
                const_idx.insert(const_key(c.0), n);
            }
            Op::Unary(o, a) => {
                un_idx.insert((map_un(o), a), n);
            }
            Op::Binary(o, a, b) => {
                bin_idx.insert((map_bin(o), a, b), n);
            }
        }
    }
    let mut slots: Vec<Option<Node>> = vec![None; slot_count.max(256)];
    let mut out = vec![];
    for (pc, &op) in ops.iter().enumerate() {
        match decode(op) {
            D::Output { .. } => (),
            D::Input { out: o, idx } => {
                slots[o as usize] = input_vars
                    .get(idx as usize)
                    .and_then(|v| var_idx.get(v))
                    .copied();
            }
            D::Load { reg, mem } => {
                slots[reg as usize] = slots.get(mem as usize).copied().flatten()
            }
            D::Store { reg, mem } => {
                if (mem as usize) < slots.len() {
                    slots[mem as usize] = slots[reg as usize];
                }
            }
            D::CopyReg { out: o, src } => slots[o as usize] = slots[src as usize],
            D::CopyImm { out: o, imm } => {
                slots[o as usize] = const_idx.get(&const_key(imm)).copied()
            }
            D::Un { op: u, out: o, a } => {
                slots[o as usize] = slots[a as usize]
                    .and_then(|a| un_idx.get(&(u, a)))
                    .copied();
            }
            D::Bin { op: bo, out: o, a, b } => {
                let get = |s: Src| match s {
                    Src::Reg(r) => slots[r as usize],
                    Src::Imm(i) => const_idx.get(&const_key(i)).copied(),
                };
                let (na, nb) = (get(a), get(b));
                let has_imm = matches!(a, Src::Imm(_)) || matches!(b, Src::Imm(_));
                let node = match (na, nb) {
                    (Some(x), Some(y)) => bin_idx
                        .get(&(bo, x, y))
                        .or_else(|| {
                            // the flattening moves an immediate of these
                            // operations to the right-hand side
                            if has_imm
                                && matches!(
                                    bo,
                                    Bin::Add | Bin::Mul | Bin::Min | Bin::Max
                                )
                            {
                                bin_idx.get(&(bo, y, x))
                            } else {
                                None
                            }
                        })
                        .copied(),
                    _ => None,
                };
                if bo.is_choice() {
                    out.push(match (node, na, nb) {
                        (Some(n), Some(x), Some(y)) => Some(Site {
                            op: bo,
                            node: n,
                            a: x,
                            b: y,
                            b_is_imm: matches!(b, Src::Imm(_)),
                            pc,
                        }),
                        _ => None,
                    });
                }
                slots[o as usize] = node;
            }
        }
    }
    out
}
