//! Independent f32 meaning of every opcode, written from the documentation of
//! `Context`'s constructors and `RegOp` (DESIGN.md 2.2). Nothing here calls
//! the code under test.
use crate::gen_::prog::{Bin, Un};

/// PCG-style hash from "Hash Functions for GPU Rendering" (documented source
/// of fidget's `rand`/`mix`), copied as the *specification* of the PRNG.
pub fn spec_hash(v: u32) -> u32 {
    let state = v.wrapping_mul(747796405).wrapping_add(2891336453);
    let word = ((state >> ((state >> 28).wrapping_add(4))) ^ state)
        .wrapping_mul(277803737);
    (word >> 22) ^ word
}

pub fn spec_rand(a: f32) -> f32 {
    let h = spec_hash(a.to_bits());
    f32::from_bits((h >> 9) | 0x3f80_0000) - 1.0
}

pub fn spec_mix(a: f32, b: f32) -> f32 {
    f32::from_bits(spec_hash(a.to_bits().wrapping_add(spec_hash(b.to_bits()))))
}

pub fn un(op: Un, a: f32) -> f32 {
    match op {
        Un::Neg => -a,
        Un::Abs => a.abs(),
        Un::Recip => 1.0 / a,
        Un::Sqrt => a.sqrt(),
        Un::Square => a * a,
        Un::Floor => a.floor(),
        Un::Ceil => a.ceil(),
        // "If a value is half-way between two integers, round away from 0.0"
        Un::Round => a.round(),
        Un::Sin => a.sin(),
        Un::Cos => a.cos(),
        Un::Tan => a.tan(),
        Un::Asin => a.asin(),
        Un::Acos => a.acos(),
        Un::Atan => a.atan(),
        Un::Exp => a.exp(),
        Un::Ln => a.ln(),
        Un::Not => {
            if a == 0.0 {
                1.0
            } else {
                0.0
            }
        }
        Un::Rand => spec_rand(a),
    }
}

/// min/max are NaN-propagating; on a tie (which only matters for zeros of
/// opposite sign) the right-hand operand is returned, like the interpreter.
pub fn bin(op: Bin, a: f32, b: f32) -> f32 {
    match op {
        Bin::Add => a + b,
        Bin::Sub => a - b,
        Bin::Mul => a * b,
        Bin::Div => a / b,
        Bin::Atan2 => a.atan2(b),
        Bin::Min => {
            if a.is_nan() || b.is_nan() {
                f32::NAN
            } else if a < b {
                a
            } else {
                b
            }
        }
        Bin::Max => {
            if a.is_nan() || b.is_nan() {
                f32::NAN
            } else if a > b {
                a
            } else {
                b
            }
        }
        Bin::Compare => {
            if a.is_nan() || b.is_nan() {
                f32::NAN
            } else if a < b {
                -1.0
            } else if a > b {
                1.0
            } else {
                0.0
            }
        }
        Bin::Mod => a.rem_euclid(b),
        // "if lhs == 0 { lhs } else { rhs }"
        Bin::And => {
            if a == 0.0 {
                a
            } else {
                b
            }
        }
        // "if lhs != 0 { lhs } else { rhs }"
        Bin::Or => {
            if a != 0.0 {
                a
            } else {
                b
            }
        }
        Bin::Mix => spec_mix(a, b),
    }
}
