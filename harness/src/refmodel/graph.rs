//! Walks a `Context` graph through its public accessors and evaluates every
//! reachable node with the independent opcode model. Used for guards and
//! localisation (operand values per node), never as the deciding oracle of a
//! property that is about `Context::eval` itself.
use crate::gen_::prog::{Bin, Un};
use crate::refmodel::op;
use fidget_core::context::{BinaryOpcode, Context, Node, Op, UnaryOpcode};
use fidget_core::var::Var;
use std::collections::{HashMap, HashSet};

pub fn map_un(o: UnaryOpcode) -> Un {
    match o {
        UnaryOpcode::Neg => Un::Neg,
        UnaryOpcode::Abs => Un::Abs,
        UnaryOpcode::Recip => Un::Recip,
        UnaryOpcode::Sqrt => Un::Sqrt,
        UnaryOpcode::Square => Un::Square,
        UnaryOpcode::Floor => Un::Floor,
        UnaryOpcode::Ceil => Un::Ceil,
        UnaryOpcode::Round => Un::Round,
        UnaryOpcode::Sin => Un::Sin,
        UnaryOpcode::Cos => Un::Cos,
        UnaryOpcode::Tan => Un::Tan,
        UnaryOpcode::Asin => Un::Asin,
        UnaryOpcode::Acos => Un::Acos,
        UnaryOpcode::Atan => Un::Atan,
        UnaryOpcode::Exp => Un::Exp,
        UnaryOpcode::Ln => Un::Ln,
        UnaryOpcode::Not => Un::Not,
        UnaryOpcode::Rand => Un::Rand,
    }
}

pub fn map_bin(o: BinaryOpcode) -> Bin {
    match o {
        BinaryOpcode::Add => Bin::Add,
        BinaryOpcode::Sub => Bin::Sub,
        BinaryOpcode::Mul => Bin::Mul,
        BinaryOpcode::Div => Bin::Div,
        BinaryOpcode::Atan => Bin::Atan2,
        BinaryOpcode::Min => Bin::Min,
        BinaryOpcode::Max => Bin::Max,
        BinaryOpcode::Compare => Bin::Compare,
        BinaryOpcode::Mod => Bin::Mod,
        BinaryOpcode::And => Bin::And,
        BinaryOpcode::Or => Bin::Or,
        BinaryOpcode::Mix => Bin::Mix,
    }
}

/// Nodes reachable from `roots`, children before parents (iterative)
pub fn topo(ctx: &Context, roots: &[Node]) -> Vec<Node> {
    let mut order = vec![];
    let mut seen: HashSet<Node> = HashSet::new();
    let mut stack: Vec<(Node, bool)> = roots.iter().map(|r| (*r, false)).collect();
    while let Some((n, expanded)) = stack.pop() {
        if expanded {
            order.push(n);
            continue;
        }
        if !seen.insert(n) {
            continue;
        }
        stack.push((n, true));
        for c in ctx.get_op(n).unwrap().iter_children() {
            if !seen.contains(&c) {
                stack.push((c, false));
            }
        }
    }
    order
}

pub fn eval_graph(
    ctx: &Context,
    order: &[Node],
    vars: &HashMap<Var, f32>,
) -> HashMap<Node, f32> {
    let mut v: HashMap<Node, f32> = HashMap::with_capacity(order.len());
    for &n in order {
        let x = match *ctx.get_op(n).unwrap() {
            Op::Input(var) => vars[&var],
            Op::Const(c) => c.0,
            Op::Unary(o, a) => op::un(map_un(o), v[&a]),
            Op::Binary(o, a, b) => op::bin(map_bin(o), v[&a], v[&b]),
        };
        v.insert(n, x);
    }
    v
}

/// True when a NaN reaches an operation that hashes the *bit pattern* of its
/// operand (`rand`, `mix`). NaN payload/sign bits are not part of a value
/// ("NaN matching NaN"), differ legitimately between scalar, vectorised and
/// native code, and `rand`/`mix` turn them into arbitrary finite numbers; such
/// samples are outside what a value-equality statement can mean.
pub fn nan_feeds_hash(
    ctx: &Context,
    order: &[Node],
    vals: &HashMap<Node, f32>,
) -> bool {
    for &n in order {
        match *ctx.get_op(n).unwrap() {
            Op::Unary(UnaryOpcode::Rand, a) if vals[&a].is_nan() => return true,
            Op::Binary(BinaryOpcode::Mix, a, b)
                if vals[&a].is_nan() || vals[&b].is_nan() =>
            {
                return true;
            }
            _ => (),
        }
    }
    false
}
