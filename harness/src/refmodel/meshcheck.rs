//! Independent mesh checks: directed-edge pairing, degenerate triangles,
//! finite coordinates, connected components, signed volume and area.
use std::collections::HashMap;

pub type V3 = [f64; 3];

pub fn sub(a: V3, b: V3) -> V3 {
    [a[0] - b[0], a[1] - b[1], a[2] - b[2]]
}
pub fn cross(a: V3, b: V3) -> V3 {
    [a[1] * b[2] - a[2] * b[1], a[2] * b[0] - a[0] * b[2], a[0] * b[1] - a[1] * b[0]]
}
pub fn dot(a: V3, b: V3) -> f64 {
    a[0] * b[0] + a[1] * b[1] + a[2] * b[2]
}

#[derive(Debug, Clone)]
pub enum Defect {
    NonFinite { vertex: usize },
    IndexOutOfRange { triangle: usize },
    RepeatedIndex { triangle: usize },
    /// directed edge (a,b) occurs `fwd` times and (b,a) `rev` times
    EdgeCounts { a: usize, b: usize, fwd: usize, rev: usize, apexes: Vec<usize> },
}

pub struct Report {
    pub defects: Vec<Defect>,
    pub n_components: usize,
    /// component id per vertex
    pub component: Vec<usize>,
    pub volume: f64,
    pub area: f64,
}

pub fn check(verts: &[V3], tris: &[[usize; 3]]) -> Report {
    let mut defects = vec![];
    for (i, v) in verts.iter().enumerate() {
        if !v.iter().all(|x| x.is_finite()) {
            defects.push(Defect::NonFinite { vertex: i });
        }
    }
    let mut edges: HashMap<(usize, usize), Vec<usize>> = HashMap::new();
    for (t, tri) in tris.iter().enumerate() {
        if tri.iter().any(|i| *i >= verts.len()) {
            defects.push(Defect::IndexOutOfRange { triangle: t });
            continue;
        }
        if tri[0] == tri[1] || tri[1] == tri[2] || tri[0] == tri[2] {
            defects.push(Defect::RepeatedIndex { triangle: t });
            continue;
        }
        for k in 0..3 {
            edges.entry((tri[k], tri[(k + 1) % 3])).or_default().push(tri[(k + 2) % 3]);
        }
    }
    let mut seen = std::collections::HashSet::new();
    for (&(a, b), ap) in &edges {
        let key = (a.min(b), a.max(b));
        if !seen.insert(key) {
            continue;
        }
        let fwd = ap.len();
        let rev_ap = edges.get(&(b, a));
        let rev = rev_ap.map(|v| v.len()).unwrap_or(0);
        if fwd != 1 || rev != 1 {
            let mut apexes = ap.clone();
            if let Some(r) = rev_ap {
                apexes.extend(r.iter().copied());
            }
            defects.push(Defect::EdgeCounts { a, b, fwd, rev, apexes });
        }
    }
    // reverse-only edges (never seen forward)
    // (covered: every directed edge present is visited through one of its
    // two directions above)

    // connected components (union-find over vertices)
    let mut parent: Vec<usize> = (0..verts.len()).collect();
    fn find(p: &mut Vec<usize>, mut x: usize) -> usize {
        while p[x] != x {
            p[x] = p[p[x]];
            x = p[x];
        }
        x
    }
    for tri in tris {
        if tri.iter().any(|i| *i >= verts.len()) {
            continue;
        }
        let r0 = find(&mut parent, tri[0]);
        for k in 1..3 {
            let r = find(&mut parent, tri[k]);
            parent[r] = r0;
        }
    }
    let mut ids: HashMap<usize, usize> = HashMap::new();
    let mut component = vec![usize::MAX; verts.len()];
    let mut used = vec![false; verts.len()];
    for tri in tris {
        for &i in tri.iter() {
            if i < verts.len() {
                used[i] = true;
            }
        }
    }
    for i in 0..verts.len() {
        if used[i] {
            let r = find(&mut parent, i);
            let n = ids.len();
            component[i] = *ids.entry(r).or_insert(n);
        }
    }
    let mut volume = 0.0;
    let mut area = 0.0;
    for tri in tris {
        if tri.iter().any(|i| *i >= verts.len()) {
            continue;
        }
        let (a, b, c) = (verts[tri[0]], verts[tri[1]], verts[tri[2]]);
        volume += dot(a, cross(b, c)) / 6.0;
        let n = cross(sub(b, a), sub(c, a));
        area += dot(n, n).sqrt() / 2.0;
    }
    Report {
        defects,
        n_components: ids.len(),
        component,
        volume,
        area,
    }
}
