pub mod dual;
pub mod graph;
pub mod op;
pub mod sites;
pub mod tape_shadow;
