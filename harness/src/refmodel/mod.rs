pub mod graph;
pub mod op;
pub mod tape_shadow;
