pub mod dual;
pub mod graph;
pub mod meshcheck;
pub mod op;
pub mod sites;
pub mod tape_shadow;
