//! f64 forward-mode dual numbers (value + 3 partials) with, per rule, the
//! natural magnitude `T` of its terms (to scale tolerances) and a guard that
//! says whether the operand sits on/near a non-differentiable locus
//! (DESIGN.md C05).
use crate::gen_::prog::{Bin, Un};
use crate::refmodel::op;

#[derive(Clone, Copy, Debug, PartialEq)]
pub struct D {
    pub v: f64,
    pub d: [f64; 3],
}

impl D {
    pub fn constant(v: f64) -> D {
        D { v, d: [0.0; 3] }
    }
}

#[derive(Clone, Copy, Debug)]
pub struct Rule {
    pub out: D,
    /// magnitude of the terms that make up each partial
    pub t: [f64; 3],
    /// on / near a non-differentiable locus, or outside f32's comfortable
    /// range: not judged
    pub skip: bool,
}

const LOCUS: f64 = 1e-4;

fn finite(xs: &[f64]) -> bool {
    xs.iter().all(|x| x.is_finite())
}

fn uncomfortable(x: f64) -> bool {
    let a = x.abs();
    a > 1e37 || (a != 0.0 && a < 1e-37)
}

fn lin(v: f64, a: D, ka: f64) -> Rule {
    // out = v, d = ka * da
    let d = [ka * a.d[0], ka * a.d[1], ka * a.d[2]];
    let t = [d[0].abs(), d[1].abs(), d[2].abs()];
    let skip = !finite(&[v, ka]) || !finite(&a.d) || uncomfortable(ka) || d.iter().any(|x| uncomfortable(*x));
    Rule { out: D { v, d }, t, skip }
}

fn zero(v: f64) -> Rule {
    Rule {
        out: D::constant(v),
        t: [0.0; 3],
        skip: !v.is_finite(),
    }
}

fn near_int(x: f64) -> bool {
    // relative for large arguments: f32 cannot place them more precisely
    (x - x.round()).abs() < LOCUS.max(x.abs() * 1e-6)
}

pub fn un_rule(o: Un, a: D) -> Rule {
    let x = a.v;
    let mut r = match o {
        Un::Neg => lin(-x, a, -1.0),
        Un::Abs => {
            let mut r = lin(x.abs(), a, if x < 0.0 { -1.0 } else { 1.0 });
            r.skip |= x.abs() < LOCUS;
            r
        }
        Un::Recip => {
            let mut r = lin(1.0 / x, a, -1.0 / (x * x));
            r.skip |= x.abs() < LOCUS || uncomfortable(x * x);
            r
        }
        Un::Sqrt => {
            let s = x.sqrt();
            let mut r = lin(s, a, 1.0 / (2.0 * s));
            r.skip |= x < LOCUS;
            r
        }
        Un::Square => {
            let mut r = lin(x * x, a, 2.0 * x);
            r.skip |= uncomfortable(x * x);
            r
        }
        Un::Floor => {
            let mut r = zero(x.floor());
            r.skip |= near_int(x);
            r
        }
        Un::Ceil => {
            let mut r = zero(x.ceil());
            r.skip |= near_int(x);
            r
        }
        Un::Round => {
            let mut r = zero(x.round());
            r.skip |= near_int(x + 0.5);
            r
        }
        Un::Sin => lin(x.sin(), a, x.cos()),
        Un::Cos => lin(x.cos(), a, -x.sin()),
        Un::Tan => {
            let c = x.cos();
            let mut r = lin(x.tan(), a, 1.0 / (c * c));
            r.skip |= c.abs() < 0.05;
            r
        }
        Un::Asin => {
            let q = 1.0 - x * x;
            let mut r = lin(x.asin(), a, 1.0 / q.sqrt());
            r.skip |= !(q >= 0.01);
            r
        }
        Un::Acos => {
            let q = 1.0 - x * x;
            let mut r = lin(x.acos(), a, -1.0 / q.sqrt());
            r.skip |= !(q >= 0.01);
            r
        }
        Un::Atan => lin(x.atan(), a, 1.0 / (1.0 + x * x)),
        Un::Exp => {
            let e = x.exp();
            let mut r = lin(e, a, e);
            r.skip |= uncomfortable(e);
            r
        }
        Un::Ln => {
            let mut r = lin(x.ln(), a, 1.0 / x);
            r.skip |= x < LOCUS;
            r
        }
        Un::Not => {
            let mut r = zero(if x == 0.0 { 1.0 } else { 0.0 });
            r.skip |= x.abs() < LOCUS;
            r
        }
        Un::Rand => zero(op::spec_rand(x as f32) as f64),
    };
    // trig of huge arguments: f32 argument reduction noise
    if matches!(o, Un::Sin | Un::Cos | Un::Tan) && x.abs() > 1e4 {
        r.skip = true;
    }
    r.skip |= !x.is_finite() || !r.out.v.is_finite();
    r
}

fn lin2(v: f64, a: D, ka: f64, b: D, kb: f64) -> Rule {
    let mut d = [0.0; 3];
    let mut t = [0.0; 3];
    for i in 0..3 {
        d[i] = ka * a.d[i] + kb * b.d[i];
        t[i] = (ka * a.d[i]).abs() + (kb * b.d[i]).abs();
    }
    let skip = !finite(&[v, ka, kb])
        || !finite(&a.d)
        || !finite(&b.d)
        || uncomfortable(ka)
        || uncomfortable(kb)
        || t.iter().any(|x| uncomfortable(*x));
    Rule { out: D { v, d }, t, skip }
}

fn near_tie(x: f64, y: f64) -> bool {
    (x - y).abs() <= LOCUS * x.abs().max(y.abs()).max(1e-30)
}

pub fn bin_rule(o: Bin, a: D, b: D) -> Rule {
    let (x, y) = (a.v, b.v);
    let mut r = match o {
        Bin::Add => lin2(x + y, a, 1.0, b, 1.0),
        Bin::Sub => lin2(x - y, a, 1.0, b, -1.0),
        Bin::Mul => {
            let mut r = lin2(x * y, a, y, b, x);
            r.skip |= uncomfortable(x * y);
            r
        }
        Bin::Div => {
            let mut r = lin2(x / y, a, 1.0 / y, b, -x / (y * y));
            r.skip |= y.abs() < LOCUS || uncomfortable(y * y) || uncomfortable(x / y);
            // the f32 implementations form (y*da - x*db) / y^2: the
            // un-normalised products must stay in range as well
            for i in 0..3 {
                r.skip |= uncomfortable(y * a.d[i]) || uncomfortable(x * b.d[i]);
            }
            r
        }
        Bin::Atan2 => {
            let q = x * x + y * y;
            let mut r = lin2(x.atan2(y), a, y / q, b, -x / q);
            r.skip |= q.sqrt() < LOCUS || uncomfortable(q);
            for i in 0..3 {
                r.skip |= uncomfortable(y * a.d[i]) || uncomfortable(x * b.d[i]);
            }
            r
        }
        Bin::Min => {
            let mut r = if x < y { lin(x, a, 1.0) } else { lin(y, b, 1.0) };
            r.skip |= near_tie(x, y);
            r
        }
        Bin::Max => {
            let mut r = if x > y { lin(x, a, 1.0) } else { lin(y, b, 1.0) };
            r.skip |= near_tie(x, y);
            r
        }
        Bin::Compare => {
            let c = if x < y {
                -1.0
            } else if x > y {
                1.0
            } else if x == y {
                0.0
            } else {
                f64::NAN
            };
            let mut r = zero(c);
            r.skip |= near_tie(x, y);
            r
        }
        Bin::Mod => {
            let e = (x / y).floor();
            let e = if y < 0.0 { -(x / -y).floor() } else { e };
            let v = x - y * e;
            let mut r = lin2(v, a, 1.0, b, -e);
            r.skip |= y.abs() < LOCUS || near_int(x / y) || (x / y).abs() > 1e6;
            r
        }
        Bin::And => {
            let mut r = if x == 0.0 { lin(x, a, 1.0) } else { lin(y, b, 1.0) };
            r.skip |= x.abs() < LOCUS;
            r
        }
        Bin::Or => {
            let mut r = if x != 0.0 { lin(x, a, 1.0) } else { lin(y, b, 1.0) };
            r.skip |= x.abs() < LOCUS;
            r
        }
        Bin::Mix => zero(op::spec_mix(x as f32, y as f32) as f64),
    };
    r.skip |= !x.is_finite() || !y.is_finite() || !r.out.v.is_finite();
    r
}

////////////////////////////////////////////////////////////////////////////////

use crate::refmodel::graph::{map_bin, map_un};
use fidget_core::context::{Context, Node, Op};
use fidget_core::var::Var;
use std::collections::HashMap;

/// f64 dual evaluation of a context graph with arbitrary input duals.
/// Per node: the dual and whether a locus / range guard fired on the way.
pub fn eval_graph_dual(
    ctx: &Context,
    order: &[Node],
    inputs: &HashMap<Var, D>,
) -> HashMap<Node, (D, bool)> {
    let mut out: HashMap<Node, (D, bool)> = HashMap::with_capacity(order.len());
    for &n in order {
        let r = match *ctx.get_op(n).unwrap() {
            Op::Input(v) => (inputs.get(&v).copied().unwrap_or(D::constant(f64::NAN)), false),
            Op::Const(c) => (D::constant(c.0 as f64), false),
            Op::Unary(o, a) => {
                let (da, sa) = out[&a];
                let r = un_rule(map_un(o), da);
                (r.out, sa || r.skip)
            }
            Op::Binary(o, a, c) => {
                let (da, sa) = out[&a];
                let (dc, sc) = out[&c];
                let r = bin_rule(map_bin(o), da, dc);
                // a min/max/and/or only inherits the guard of the branch it
                // takes, plus its own tie guard
                let inherited = match map_bin(o) {
                    Bin::Min => if da.v < dc.v { sa } else { sc },
                    Bin::Max => if da.v > dc.v { sa } else { sc },
                    Bin::And => if da.v == 0.0 { sa } else { sc },
                    Bin::Or => if da.v != 0.0 { sa } else { sc },
                    _ => sa || sc,
                };
                (r.out, inherited || r.skip)
            }
        };
        out.insert(n, r);
    }
    out
}
