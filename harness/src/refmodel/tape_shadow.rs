//! Shadow interpreter for register tapes (`RegOp` streams from
//! `VmData::iter_asm`) built on the independent opcode model; it also checks
//! the structural tape invariants (no read of a never-written slot, all
//! indices below the advertised counts) and reports, for every choice
//! instruction, the operand values it saw.
use crate::gen_::prog::{Bin, Un};
use crate::refmodel::op;
use fidget_core::compiler::RegOp;

#[derive(Clone, Copy, Debug, PartialEq)]
pub enum Src {
    Reg(u8),
    Imm(f32),
}

#[derive(Clone, Copy, Debug, PartialEq)]
pub enum D {
    Output { reg: u8, idx: u32 },
    Input { out: u8, idx: u32 },
    Load { reg: u8, mem: u32 },
    Store { reg: u8, mem: u32 },
    CopyReg { out: u8, src: u8 },
    CopyImm { out: u8, imm: f32 },
    Un { op: Un, out: u8, a: u8 },
    Bin { op: Bin, out: u8, a: Src, b: Src },
}

pub fn variant_name(op: &RegOp) -> String {
    let s = format!("{op:?}");
    s.split('(').next().unwrap_or("").to_string()
}

pub fn decode(op: RegOp) -> D {
    use RegOp::*;
    let un = |o, out, a| D::Un { op: o, out, a };
    let rr = |o, out, a, b| D::Bin {
        op: o,
        out,
        a: Src::Reg(a),
        b: Src::Reg(b),
    };
    let ri = |o, out, a, imm| D::Bin {
        op: o,
        out,
        a: Src::Reg(a),
        b: Src::Imm(imm),
    };
    let ir = |o, out, a, imm| D::Bin {
        op: o,
        out,
        a: Src::Imm(imm),
        b: Src::Reg(a),
    };
    match op {
        Output(reg, idx) => D::Output { reg, idx },
        Input(out, idx) => D::Input { out, idx },
        Load(reg, mem) => D::Load { reg, mem },
        Store(reg, mem) => D::Store { reg, mem },
        CopyReg(out, src) => D::CopyReg { out, src },
        CopyImm(out, imm) => D::CopyImm { out, imm },
        NegReg(o, a) => un(Un::Neg, o, a),
        AbsReg(o, a) => un(Un::Abs, o, a),
        RecipReg(o, a) => un(Un::Recip, o, a),
        SqrtReg(o, a) => un(Un::Sqrt, o, a),
        SquareReg(o, a) => un(Un::Square, o, a),
        FloorReg(o, a) => un(Un::Floor, o, a),
        CeilReg(o, a) => un(Un::Ceil, o, a),
        RoundReg(o, a) => un(Un::Round, o, a),
        SinReg(o, a) => un(Un::Sin, o, a),
        CosReg(o, a) => un(Un::Cos, o, a),
        TanReg(o, a) => un(Un::Tan, o, a),
        AsinReg(o, a) => un(Un::Asin, o, a),
        AcosReg(o, a) => un(Un::Acos, o, a),
        AtanReg(o, a) => un(Un::Atan, o, a),
        ExpReg(o, a) => un(Un::Exp, o, a),
        LnReg(o, a) => un(Un::Ln, o, a),
        NotReg(o, a) => un(Un::Not, o, a),
        RandReg(o, a) => un(Un::Rand, o, a),
        AddRegImm(o, a, i) => ri(Bin::Add, o, a, i),
        MulRegImm(o, a, i) => ri(Bin::Mul, o, a, i),
        DivRegImm(o, a, i) => ri(Bin::Div, o, a, i),
        DivImmReg(o, a, i) => ir(Bin::Div, o, a, i),
        SubImmReg(o, a, i) => ir(Bin::Sub, o, a, i),
        SubRegImm(o, a, i) => ri(Bin::Sub, o, a, i),
        ModRegReg(o, a, b) => rr(Bin::Mod, o, a, b),
        ModRegImm(o, a, i) => ri(Bin::Mod, o, a, i),
        ModImmReg(o, a, i) => ir(Bin::Mod, o, a, i),
        AtanRegImm(o, a, i) => ri(Bin::Atan2, o, a, i),
        AtanImmReg(o, a, i) => ir(Bin::Atan2, o, a, i),
        AtanRegReg(o, a, b) => rr(Bin::Atan2, o, a, b),
        CompareRegImm(o, a, i) => ri(Bin::Compare, o, a, i),
        CompareImmReg(o, a, i) => ir(Bin::Compare, o, a, i),
        CompareRegReg(o, a, b) => rr(Bin::Compare, o, a, b),
        MixRegImm(o, a, i) => ri(Bin::Mix, o, a, i),
        MixImmReg(o, a, i) => ir(Bin::Mix, o, a, i),
        MixRegReg(o, a, b) => rr(Bin::Mix, o, a, b),
        MinRegImm(o, a, i) => ri(Bin::Min, o, a, i),
        MaxRegImm(o, a, i) => ri(Bin::Max, o, a, i),
        AndRegImm(o, a, i) => ri(Bin::And, o, a, i),
        OrRegImm(o, a, i) => ri(Bin::Or, o, a, i),
        AddRegReg(o, a, b) => rr(Bin::Add, o, a, b),
        MulRegReg(o, a, b) => rr(Bin::Mul, o, a, b),
        DivRegReg(o, a, b) => rr(Bin::Div, o, a, b),
        SubRegReg(o, a, b) => rr(Bin::Sub, o, a, b),
        MinRegReg(o, a, b) => rr(Bin::Min, o, a, b),
        MaxRegReg(o, a, b) => rr(Bin::Max, o, a, b),
        AndRegReg(o, a, b) => rr(Bin::And, o, a, b),
        OrRegReg(o, a, b) => rr(Bin::Or, o, a, b),
    }
}

#[derive(Clone, Copy, Debug, PartialEq)]
pub struct ChoiceSite {
    pub op: Bin,
    pub a: f32,
    pub b: f32,
    pub b_is_imm: bool,
    /// index of the instruction in evaluation order
    pub pc: usize,
}

#[derive(Default, Debug)]
pub struct ShadowResult {
    pub outputs: Vec<Option<f32>>,
    pub choices: Vec<ChoiceSite>,
    /// structural problems found while executing
    pub problems: Vec<String>,
    pub loads: usize,
    pub stores: usize,
}

/// Executes `ops` (evaluation order) on the independent model.
/// `reg_limit` = number of registers the tape was planned for; `slot_count` =
/// advertised slot count; `n_outputs` = advertised output count.
pub fn run(
    ops: &[RegOp],
    vars: &[f32],
    reg_limit: usize,
    slot_count: usize,
    n_outputs: usize,
) -> ShadowResult {
    let mut r = ShadowResult {
        outputs: vec![None; n_outputs],
        ..Default::default()
    };
    let mut slots: Vec<Option<f32>> = vec![None; slot_count.max(1)];
    macro_rules! problem {
        ($($t:tt)*) => {
            if r.problems.len() < 8 { r.problems.push(format!($($t)*)); }
        };
    }
    for (pc, &op) in ops.iter().enumerate() {
        // register / slot bounds
        let mut bad = false;
        op.visit_regs(|reg| {
            if reg as usize >= reg_limit || reg as usize >= slot_count {
                bad = true;
            }
        });
        if bad {
            problem!(
                "pc {pc}: {op:?} uses a register >= limit {reg_limit} or >= slot_count {slot_count}"
            );
            continue;
        }
        let rd = |s: &Vec<Option<f32>>, i: usize, r: &mut ShadowResult| {
            match s.get(i).copied().flatten() {
                Some(v) => v,
                None => {
                    if r.problems.len() < 8 {
                        r.problems.push(format!(
                            "pc {pc}: {op:?} reads slot {i} which was never written"
                        ));
                    }
                    f32::NAN
                }
            }
        };
        match decode(op) {
            D::Output { reg, idx } => {
                let v = rd(&slots, reg as usize, &mut r);
                if (idx as usize) < n_outputs {
                    r.outputs[idx as usize] = Some(v);
                } else {
                    problem!("pc {pc}: output index {idx} >= {n_outputs}");
                }
            }
            D::Input { out, idx } => {
                if (idx as usize) < vars.len() {
                    slots[out as usize] = Some(vars[idx as usize]);
                } else {
                    problem!("pc {pc}: input index {idx} >= {}", vars.len());
                }
            }
            D::Load { reg, mem } => {
                r.loads += 1;
                if (mem as usize) >= slot_count {
                    problem!("pc {pc}: load from slot {mem} >= {slot_count}");
                } else {
                    if (mem as usize) < reg_limit {
                        problem!(
                            "pc {pc}: memory slot {mem} aliases a register (< {reg_limit})"
                        );
                    }
                    let v = rd(&slots, mem as usize, &mut r);
                    slots[reg as usize] = Some(v);
                }
            }
            D::Store { reg, mem } => {
                r.stores += 1;
                if (mem as usize) >= slot_count {
                    problem!("pc {pc}: store to slot {mem} >= {slot_count}");
                } else {
                    if (mem as usize) < reg_limit {
                        problem!(
                            "pc {pc}: memory slot {mem} aliases a register (< {reg_limit})"
                        );
                    }
                    let v = rd(&slots, reg as usize, &mut r);
                    slots[mem as usize] = Some(v);
                }
            }
            D::CopyReg { out, src } => {
                let v = rd(&slots, src as usize, &mut r);
                slots[out as usize] = Some(v);
            }
            D::CopyImm { out, imm } => slots[out as usize] = Some(imm),
            D::Un { op: o, out, a } => {
                let v = rd(&slots, a as usize, &mut r);
                slots[out as usize] = Some(op::un(o, v));
            }
            D::Bin { op: o, out, a, b } => {
                let va = match a {
                    Src::Reg(x) => rd(&slots, x as usize, &mut r),
                    Src::Imm(i) => i,
                };
                let vb = match b {
                    Src::Reg(x) => rd(&slots, x as usize, &mut r),
                    Src::Imm(i) => i,
                };
                if o.is_choice() {
                    r.choices.push(ChoiceSite {
                        op: o,
                        a: va,
                        b: vb,
                        b_is_imm: matches!(b, Src::Imm(_)),
                        pc,
                    });
                }
                slots[out as usize] = Some(op::bin(o, va, vb));
            }
        }
    }
    for (i, o) in r.outputs.iter().enumerate() {
        if o.is_none() && r.problems.len() < 8 {
            r.problems.push(format!("output {i} never written"));
        }
    }
    r
}
