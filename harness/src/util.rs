//! Shared utilities: seeded PRNG, statistics container, float comparison
//! vocabulary (DESIGN.md 2.3), panic capture.
use serde_json::{Value, json};
use std::collections::{BTreeMap, BTreeSet, HashSet};

////////////////////////////////////////////////////////////////////////////////
// PRNG: xoshiro256** seeded through splitmix64

#[derive(Clone)]
pub struct Rng([u64; 4]);

fn splitmix(x: &mut u64) -> u64 {
    *x = x.wrapping_add(0x9E3779B97F4A7C15);
    let mut z = *x;
    z = (z ^ (z >> 30)).wrapping_mul(0xBF58476D1CE4E5B9);
    z = (z ^ (z >> 27)).wrapping_mul(0x94D049BB133111EB);
    z ^ (z >> 31)
}

pub fn hash_str(s: &str) -> u64 {
    let mut h = 0xcbf29ce484222325u64;
    for b in s.bytes() {
        h ^= b as u64;
        h = h.wrapping_mul(0x100000001b3);
    }
    h
}

pub fn hash_u64s(v: &[u64]) -> u64 {
    let mut h = 0x1234567u64;
    for &x in v {
        let mut s = h ^ x;
        h = splitmix(&mut s);
    }
    h
}

impl Rng {
    pub fn new(seed: u64) -> Self {
        let mut s = seed;
        Rng([
            splitmix(&mut s),
            splitmix(&mut s),
            splitmix(&mut s),
            splitmix(&mut s),
        ])
    }
    pub fn for_case(seed: u64, prop: &str, case: u64) -> Self {
        Self::new(hash_u64s(&[seed, hash_str(prop), case]))
    }
    pub fn fork(&mut self) -> Rng {
        Rng::new(self.next_u64())
    }
    pub fn next_u64(&mut self) -> u64 {
        let s = &mut self.0;
        let r = s[1].wrapping_mul(5).rotate_left(7).wrapping_mul(9);
        let t = s[1] << 17;
        s[2] ^= s[0];
        s[3] ^= s[1];
        s[1] ^= s[2];
        s[0] ^= s[3];
        s[2] ^= t;
        s[3] = s[3].rotate_left(45);
        r
    }
    pub fn next_u32(&mut self) -> u32 {
        (self.next_u64() >> 32) as u32
    }
    /// Uniform in 0..n (n > 0)
    pub fn below(&mut self, n: usize) -> usize {
        debug_assert!(n > 0);
        (self.next_u64() % n as u64) as usize
    }
    /// Uniform in lo..=hi
    pub fn range(&mut self, lo: i64, hi: i64) -> i64 {
        lo + (self.next_u64() % ((hi - lo + 1) as u64)) as i64
    }
    pub fn chance(&mut self, p: f64) -> bool {
        self.unit() < p
    }
    /// Uniform in [0,1)
    pub fn unit(&mut self) -> f64 {
        (self.next_u64() >> 11) as f64 / (1u64 << 53) as f64
    }
    pub fn uniform(&mut self, lo: f64, hi: f64) -> f64 {
        lo + (hi - lo) * self.unit()
    }
    pub fn pick<'a, T>(&mut self, v: &'a [T]) -> &'a T {
        &v[self.below(v.len())]
    }
    pub fn weighted(&mut self, w: &[u32]) -> usize {
        let tot: u64 = w.iter().map(|&x| x as u64).sum();
        let mut r = self.next_u64() % tot;
        for (i, &x) in w.iter().enumerate() {
            if r < x as u64 {
                return i;
            }
            r -= x as u64;
        }
        w.len() - 1
    }
    pub fn shuffle<T>(&mut self, v: &mut [T]) {
        for i in (1..v.len()).rev() {
            let j = self.below(i + 1);
            v.swap(i, j);
        }
    }
    /// Log-uniform magnitude in [2^lo_exp, 2^hi_exp), random sign
    pub fn log_f32(&mut self, lo_exp: f64, hi_exp: f64) -> f32 {
        let e = self.uniform(lo_exp, hi_exp);
        let m = (2.0f64).powf(e);
        let s = if self.chance(0.5) { -1.0 } else { 1.0 };
        (s * m) as f32
    }
}

////////////////////////////////////////////////////////////////////////////////
// Float vocabulary

pub fn same_bits(a: f32, b: f32) -> bool {
    a.to_bits() == b.to_bits() || (a.is_nan() && b.is_nan())
}

pub fn same_val(a: f32, b: f32) -> bool {
    a == b || (a.is_nan() && b.is_nan())
}

/// Maps f32 to a monotone integer line (for ulp distance)
pub fn ord_i64(a: f32) -> i64 {
    let b = a.to_bits() as i32;
    (if b < 0 { i32::MIN.wrapping_sub(b) } else { b }) as i64
}

pub fn ulp_dist(a: f32, b: f32) -> u64 {
    if a.is_nan() || b.is_nan() {
        return if a.is_nan() && b.is_nan() { 0 } else { u64::MAX };
    }
    (ord_i64(a) - ord_i64(b)).unsigned_abs()
}

pub fn next_up(a: f32) -> f32 {
    if a.is_nan() || a == f32::INFINITY {
        return a;
    }
    if a == 0.0 {
        return f32::from_bits(1);
    }
    let b = a.to_bits();
    f32::from_bits(if a > 0.0 { b + 1 } else { b - 1 })
}

pub fn next_down(a: f32) -> f32 {
    -next_up(-a)
}

pub fn step_ulps(mut a: f32, n: i32) -> f32 {
    for _ in 0..n.abs() {
        a = if n > 0 { next_up(a) } else { next_down(a) };
    }
    a
}

/// `v` within `[lo - k ulp, hi + k ulp]`
pub fn within_ulps(v: f32, lo: f32, hi: f32, k: i32) -> bool {
    if v.is_nan() {
        return true;
    }
    v >= step_ulps(lo, -k) && v <= step_ulps(hi, k)
}

pub fn fbits(a: f32) -> Value {
    json!(format!("{:?} (0x{:08x})", a, a.to_bits()))
}

////////////////////////////////////////////////////////////////////////////////
// Statistics / results

#[derive(Clone, Debug)]
pub struct Violation {
    /// Narrow signature used to match known findings
    pub signature: String,
    /// One-line human description
    pub summary: String,
    pub case: u64,
    pub detail: Value,
}

#[derive(Default)]
pub struct Stats {
    pub counters: BTreeMap<String, u64>,
    pub sets: BTreeMap<String, BTreeSet<String>>,
    pub distinct: HashSet<u64>,
    pub samples: Vec<Value>,
    pub violations: Vec<Violation>,
    pub violation_count: u64,
    pub inconclusive: Vec<String>,
    pub maxes: BTreeMap<String, f64>,
}

pub const MAX_KEPT_VIOLATIONS: usize = 200;
pub const MAX_SAMPLES: usize = 6;

impl Stats {
    pub fn inc(&mut self, k: &str) {
        self.add(k, 1);
    }
    pub fn add(&mut self, k: &str, n: u64) {
        *self.counters.entry(k.to_string()).or_default() += n;
    }
    pub fn get(&self, k: &str) -> u64 {
        self.counters.get(k).copied().unwrap_or(0)
    }
    pub fn set_insert(&mut self, k: &str, v: &str) {
        self.sets.entry(k.to_string()).or_default().insert(v.to_string());
    }
    pub fn set_len(&self, k: &str) -> usize {
        self.sets.get(k).map(|s| s.len()).unwrap_or(0)
    }
    pub fn max(&mut self, k: &str, v: f64) {
        let e = self.maxes.entry(k.to_string()).or_insert(f64::MIN);
        if v > *e {
            *e = v;
        }
    }
    pub fn distinct(&mut self, h: u64) {
        self.distinct.insert(h);
    }
    pub fn sample(&mut self, v: impl FnOnce() -> Value) {
        if self.samples.len() < MAX_SAMPLES {
            self.samples.push(v());
        }
    }
    pub fn violation(
        &mut self,
        case: u64,
        signature: impl Into<String>,
        summary: impl Into<String>,
        detail: Value,
    ) {
        self.violation_count += 1;
        let signature = signature.into();
        // keep at most 3 witnesses per signature
        let same = self
            .violations
            .iter()
            .filter(|v| v.signature == signature)
            .count();
        if same < 3 && self.violations.len() < MAX_KEPT_VIOLATIONS {
            self.violations.push(Violation {
                signature,
                summary: summary.into(),
                case,
                detail,
            });
        } else {
            *self
                .counters
                .entry(format!("violations_not_kept"))
                .or_default() += 1;
        }
    }
    pub fn merge(&mut self, o: Stats) {
        for (k, v) in o.counters {
            *self.counters.entry(k).or_default() += v;
        }
        for (k, v) in o.sets {
            self.sets.entry(k).or_default().extend(v);
        }
        for (k, v) in o.maxes {
            self.max(&k, v);
        }
        self.distinct.extend(o.distinct);
        for s in o.samples {
            if self.samples.len() < MAX_SAMPLES {
                self.samples.push(s);
            }
        }
        self.violation_count += o.violation_count;
        for v in o.violations {
            let same = self
                .violations
                .iter()
                .filter(|w| w.signature == v.signature)
                .count();
            if same < 3 && self.violations.len() < MAX_KEPT_VIOLATIONS {
                self.violations.push(v);
            }
        }
        self.inconclusive.extend(o.inconclusive);
    }

    pub fn to_json(&self) -> Value {
        json!({
            "counters": self.counters,
            "sets": self.sets,
            "maxes": self.maxes,
            "distinct": self.distinct.iter().collect::<Vec<_>>(),
            "samples": self.samples,
            "violation_count": self.violation_count,
            "violations": self.violations.iter().map(|v| json!({
                "signature": v.signature, "summary": v.summary,
                "case": v.case, "detail": v.detail})).collect::<Vec<_>>(),
            "inconclusive": self.inconclusive,
        })
    }

    pub fn from_json(v: &Value) -> Stats {
        let mut s = Stats::default();
        if let Some(m) = v["counters"].as_object() {
            for (k, x) in m {
                s.counters.insert(k.clone(), x.as_u64().unwrap_or(0));
            }
        }
        if let Some(m) = v["sets"].as_object() {
            for (k, x) in m {
                let set = x
                    .as_array()
                    .map(|a| {
                        a.iter()
                            .filter_map(|e| e.as_str().map(|s| s.to_string()))
                            .collect()
                    })
                    .unwrap_or_default();
                s.sets.insert(k.clone(), set);
            }
        }
        if let Some(m) = v["maxes"].as_object() {
            for (k, x) in m {
                s.maxes.insert(k.clone(), x.as_f64().unwrap_or(f64::MIN));
            }
        }
        if let Some(a) = v["distinct"].as_array() {
            s.distinct = a.iter().filter_map(|x| x.as_u64()).collect();
        }
        if let Some(a) = v["samples"].as_array() {
            s.samples = a.clone();
        }
        s.violation_count = v["violation_count"].as_u64().unwrap_or(0);
        if let Some(a) = v["violations"].as_array() {
            for x in a {
                s.violations.push(Violation {
                    signature: x["signature"].as_str().unwrap_or("").into(),
                    summary: x["summary"].as_str().unwrap_or("").into(),
                    case: x["case"].as_u64().unwrap_or(0),
                    detail: x["detail"].clone(),
                });
            }
        }
        if let Some(a) = v["inconclusive"].as_array() {
            s.inconclusive = a
                .iter()
                .filter_map(|e| e.as_str().map(|s| s.to_string()))
                .collect();
        }
        s
    }
}

////////////////////////////////////////////////////////////////////////////////
// Panic capture

use std::cell::RefCell;

#[derive(Clone, Debug, Default)]
pub struct PanicInfo {
    pub file: String,
    pub line: u32,
    pub msg: String,
}

impl PanicInfo {
    /// Panic raised inside the code under test (not the harness)
    pub fn in_repo(&self) -> bool {
        self.file.starts_with("/repo/")
            || self.file.starts_with("fidget")
            || self.file.contains("/fidget-")
    }
    pub fn site(&self) -> String {
        let f = self.file.trim_start_matches("/repo/");
        format!("{}:{}", f, self.line)
    }
    /// Message with numbers normalised, so signatures are stable across
    /// inputs
    pub fn msg_class(&self) -> String {
        let mut out = String::new();
        let mut in_num = false;
        for c in self.msg.chars() {
            let c = if c == '\n' { ' ' } else { c };
            let numeric = c.is_ascii_digit()
                || (in_num && (c == '.' || c == 'e' || c == '-' || c == '+'));
            if numeric {
                if !in_num {
                    out.push('#');
                    in_num = true;
                }
            } else {
                in_num = false;
                out.push(c);
            }
        }
        out.truncate(120);
        out
    }
}

thread_local! {
    static LAST_PANIC: RefCell<Option<PanicInfo>> = const { RefCell::new(None) };
    static QUIET: RefCell<bool> = const { RefCell::new(true) };
}

pub fn install_panic_hook() {
    std::panic::set_hook(Box::new(|info| {
        let (file, line) = info
            .location()
            .map(|l| (l.file().to_string(), l.line()))
            .unwrap_or_default();
        let msg = if let Some(s) = info.payload().downcast_ref::<&str>() {
            s.to_string()
        } else if let Some(s) = info.payload().downcast_ref::<String>() {
            s.clone()
        } else {
            "<non-string panic>".to_string()
        };
        let pi = PanicInfo { file, line, msg };
        crate::monitor::child::note_panic(&pi);
        let quiet = QUIET.with(|q| *q.borrow());
        if !quiet || !pi.in_repo() {
            eprintln!("[panic] {}:{}: {}", pi.file, pi.line, pi.msg);
        }
        LAST_PANIC.with(|l| *l.borrow_mut() = Some(pi));
    }));
}

/// Runs `f`, converting a panic into `Err(PanicInfo)`
pub fn guarded<T>(f: impl FnOnce() -> T) -> Result<T, PanicInfo> {
    LAST_PANIC.with(|l| *l.borrow_mut() = None);
    match std::panic::catch_unwind(std::panic::AssertUnwindSafe(f)) {
        Ok(v) => Ok(v),
        Err(_) => Err(LAST_PANIC
            .with(|l| l.borrow_mut().take())
            .unwrap_or_default()),
    }
}

////////////////////////////////////////////////////////////////////////////////

#[derive(Copy, Clone, Debug, PartialEq, Eq)]
pub enum Tier {
    Quick,
    Thorough,
}

impl Tier {
    pub fn name(&self) -> &'static str {
        match self {
            Tier::Quick => "quick",
            Tier::Thorough => "thorough",
        }
    }
    pub fn pick<T>(&self, q: T, t: T) -> T {
        match self {
            Tier::Quick => q,
            Tier::Thorough => t,
        }
    }
}
