pub mod prog;
