pub mod boxes;
pub mod prog;
pub mod shape;
pub mod shrink;
