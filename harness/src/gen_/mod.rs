pub mod boxes;
pub mod prog;
pub mod shrink;
