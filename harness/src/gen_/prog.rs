//! Seeded generator of expression programs (DESIGN.md 2.1).
//!
//! A `Prog` is plain data: the *un-rewritten* operations the harness asks for.
//! It can be built into a real `Context` through the public constructors, be
//! evaluated by the private reference model, printed, hashed and shrunk.
use crate::refmodel::op;
use crate::util::{Rng, hash_u64s};
use fidget_core::context::{Context, Node};
use fidget_core::var::Var;
use serde_json::{Value, json};
use std::collections::HashMap;

#[derive(Clone, Copy, Debug, PartialEq, Eq, Hash, PartialOrd, Ord)]
pub enum Un {
    Neg,
    Abs,
    Recip,
    Sqrt,
    Square,
    Floor,
    Ceil,
    Round,
    Sin,
    Cos,
    Tan,
    Asin,
    Acos,
    Atan,
    Exp,
    Ln,
    Not,
    Rand,
}

#[derive(Clone, Copy, Debug, PartialEq, Eq, Hash, PartialOrd, Ord)]
pub enum Bin {
    Add,
    Sub,
    Mul,
    Div,
    Atan2,
    Min,
    Max,
    Compare,
    Mod,
    And,
    Or,
    Mix,
}

pub const UNS: [Un; 18] = [
    Un::Neg,
    Un::Abs,
    Un::Recip,
    Un::Sqrt,
    Un::Square,
    Un::Floor,
    Un::Ceil,
    Un::Round,
    Un::Sin,
    Un::Cos,
    Un::Tan,
    Un::Asin,
    Un::Acos,
    Un::Atan,
    Un::Exp,
    Un::Ln,
    Un::Not,
    Un::Rand,
];

pub const BINS: [Bin; 12] = [
    Bin::Add,
    Bin::Sub,
    Bin::Mul,
    Bin::Div,
    Bin::Atan2,
    Bin::Min,
    Bin::Max,
    Bin::Compare,
    Bin::Mod,
    Bin::And,
    Bin::Or,
    Bin::Mix,
];

impl Un {
    pub fn name(&self) -> &'static str {
        match self {
            Un::Neg => "neg",
            Un::Abs => "abs",
            Un::Recip => "recip",
            Un::Sqrt => "sqrt",
            Un::Square => "square",
            Un::Floor => "floor",
            Un::Ceil => "ceil",
            Un::Round => "round",
            Un::Sin => "sin",
            Un::Cos => "cos",
            Un::Tan => "tan",
            Un::Asin => "asin",
            Un::Acos => "acos",
            Un::Atan => "atan",
            Un::Exp => "exp",
            Un::Ln => "ln",
            Un::Not => "not",
            Un::Rand => "rand",
        }
    }
}

impl Bin {
    pub fn name(&self) -> &'static str {
        match self {
            Bin::Add => "add",
            Bin::Sub => "sub",
            Bin::Mul => "mul",
            Bin::Div => "div",
            Bin::Atan2 => "atan2",
            Bin::Min => "min",
            Bin::Max => "max",
            Bin::Compare => "compare",
            Bin::Mod => "mod",
            Bin::And => "and",
            Bin::Or => "or",
            Bin::Mix => "mix",
        }
    }
    pub fn is_choice(&self) -> bool {
        matches!(self, Bin::Min | Bin::Max | Bin::And | Bin::Or)
    }
}

#[derive(Clone, Copy, Debug, PartialEq)]
pub enum PNode {
    /// variable by creation index (0,1,2 = X,Y,Z; >=3 = free variables)
    Var(u32),
    Const(f32),
    Un(Un, u32),
    Bin(Bin, u32, u32),
}

#[derive(Clone, Debug)]
pub struct Prog {
    pub nodes: Vec<PNode>,
    /// number of variable slots (indices 0..n_vars; 0,1,2 are X,Y,Z)
    pub n_vars: usize,
    pub outputs: Vec<u32>,
}

pub struct Built {
    pub ctx: Context,
    /// context node of every program node
    pub nodes: Vec<Node>,
    /// `Var` of every variable slot
    pub vars: Vec<Var>,
}

impl Built {
    pub fn var_map(&self, vals: &[f32]) -> HashMap<Var, f32> {
        self.vars
            .iter()
            .zip(vals.iter())
            .map(|(v, x)| (*v, *x))
            .collect()
    }
}

pub fn fresh_vars(n: usize) -> Vec<Var> {
    let mut v = vec![Var::X, Var::Y, Var::Z];
    while v.len() < n {
        v.push(Var::new());
    }
    v.truncate(n.max(3));
    v
}

impl Prog {
    pub fn build(&self) -> Built {
        self.build_with_vars(fresh_vars(self.n_vars))
    }

    /// Builds the program through the public `Context` constructors
    pub fn build_with_vars(&self, vars: Vec<Var>) -> Built {
        self.build_in(Context::new(), vars)
    }

    /// Builds the program in an existing context (e.g. one that held other
    /// expressions and was cleared)
    pub fn build_in(&self, ctx: Context, vars: Vec<Var>) -> Built {
        let mut ctx = ctx;
        let mut nodes: Vec<Node> = Vec::with_capacity(self.nodes.len());
        for n in &self.nodes {
            let node = match *n {
                PNode::Var(i) => ctx.var(vars[i as usize]),
                PNode::Const(c) => ctx.constant(c),
                PNode::Un(op, a) => {
                    let a = nodes[a as usize];
                    match op {
                        Un::Neg => ctx.neg(a),
                        Un::Abs => ctx.abs(a),
                        Un::Recip => ctx.recip(a),
                        Un::Sqrt => ctx.sqrt(a),
                        Un::Square => ctx.square(a),
                        Un::Floor => ctx.floor(a),
                        Un::Ceil => ctx.ceil(a),
                        Un::Round => ctx.round(a),
                        Un::Sin => ctx.sin(a),
                        Un::Cos => ctx.cos(a),
                        Un::Tan => ctx.tan(a),
                        Un::Asin => ctx.asin(a),
                        Un::Acos => ctx.acos(a),
                        Un::Atan => ctx.atan(a),
                        Un::Exp => ctx.exp(a),
                        Un::Ln => ctx.ln(a),
                        Un::Not => ctx.not(a),
                        Un::Rand => ctx.rand(a),
                    }
                    .unwrap()
                }
                PNode::Bin(op, a, b) => {
                    let a = nodes[a as usize];
                    let b = nodes[b as usize];
                    match op {
                        Bin::Add => ctx.add(a, b),
                        Bin::Sub => ctx.sub(a, b),
                        Bin::Mul => ctx.mul(a, b),
                        Bin::Div => ctx.div(a, b),
                        Bin::Atan2 => ctx.atan2(a, b),
                        Bin::Min => ctx.min(a, b),
                        Bin::Max => ctx.max(a, b),
                        Bin::Compare => ctx.compare(a, b),
                        Bin::Mod => ctx.modulo(a, b),
                        Bin::And => ctx.and(a, b),
                        Bin::Or => ctx.or(a, b),
                        Bin::Mix => ctx.mix(a, b),
                    }
                    .unwrap()
                }
            };
            nodes.push(node);
        }
        Built { ctx, nodes, vars }
    }

    pub fn roots(&self, b: &Built) -> Vec<Node> {
        self.outputs.iter().map(|&o| b.nodes[o as usize]).collect()
    }

    /// Reference evaluation of every node, operation by operation, in f32
    pub fn eval_ref(&self, vals: &[f32]) -> Vec<f32> {
        let mut out: Vec<f32> = Vec::with_capacity(self.nodes.len());
        for n in &self.nodes {
            let v = match *n {
                PNode::Var(i) => vals[i as usize],
                PNode::Const(c) => c,
                PNode::Un(o, a) => op::un(o, out[a as usize]),
                PNode::Bin(o, a, b) => {
                    op::bin(o, out[a as usize], out[b as usize])
                }
            };
            out.push(v);
        }
        out
    }

    pub fn listing(&self) -> Vec<String> {
        let mut out = vec![];
        for (i, n) in self.nodes.iter().enumerate() {
            out.push(match *n {
                PNode::Var(v) => format!("n{i} = var {v}"),
                PNode::Const(c) => {
                    format!("n{i} = const {c:?} (0x{:08x})", c.to_bits())
                }
                PNode::Un(o, a) => format!("n{i} = {} n{a}", o.name()),
                PNode::Bin(o, a, b) => format!("n{i} = {} n{a} n{b}", o.name()),
            });
        }
        out.push(format!(
            "outputs = [{}]",
            self.outputs
                .iter()
                .map(|o| format!("n{o}"))
                .collect::<Vec<_>>()
                .join(", ")
        ));
        out
    }

    pub fn to_json(&self) -> Value {
        json!({"n_vars": self.n_vars, "listing": self.listing()})
    }

    /// Inverse of `to_json` (constants are read from their bit patterns)
    pub fn from_json(v: &Value) -> Option<Prog> {
        let n_vars = v["n_vars"].as_u64()? as usize;
        let mut nodes = vec![];
        let mut outputs = vec![];
        let idx = |s: &str| -> Option<u32> { s.trim().strip_prefix('n')?.parse().ok() };
        for line in v["listing"].as_array()? {
            let line = line.as_str()?;
            if let Some(rest) = line.strip_prefix("outputs = [") {
                for o in rest.trim_end_matches(']').split(',') {
                    if !o.trim().is_empty() {
                        outputs.push(idx(o)?);
                    }
                }
                continue;
            }
            let (_, rhs) = line.split_once(" = ")?;
            let w: Vec<&str> = rhs.split_whitespace().collect();
            let node = match w[0] {
                "var" => PNode::Var(w[1].parse().ok()?),
                "const" => {
                    let hex = w.last()?.trim_start_matches("(0x").trim_end_matches(')');
                    PNode::Const(f32::from_bits(u32::from_str_radix(hex, 16).ok()?))
                }
                name => {
                    if w.len() == 2 {
                        let o = UNS.iter().find(|o| o.name() == name)?;
                        PNode::Un(*o, idx(w[1])?)
                    } else {
                        let o = BINS.iter().find(|o| o.name() == name)?;
                        PNode::Bin(*o, idx(w[1])?, idx(w[2])?)
                    }
                }
            };
            nodes.push(node);
        }
        Some(Prog { nodes, n_vars, outputs })
    }

    pub fn hash(&self) -> u64 {
        let mut v = vec![self.n_vars as u64];
        for n in &self.nodes {
            match *n {
                PNode::Var(i) => v.extend([1, i as u64]),
                PNode::Const(c) => v.extend([2, c.to_bits() as u64]),
                PNode::Un(o, a) => v.extend([3, o as u64, a as u64]),
                PNode::Bin(o, a, b) => {
                    v.extend([4, o as u64, a as u64, b as u64])
                }
            }
        }
        v.push(99);
        v.extend(self.outputs.iter().map(|&o| o as u64));
        hash_u64s(&v)
    }

    pub fn n_choice_ops(&self) -> usize {
        self.nodes
            .iter()
            .filter(|n| matches!(n, PNode::Bin(o, ..) if o.is_choice()))
            .count()
    }

    /// Program exporting every non-constant node as an output (for
    /// localisation); returns the program and, for each output, the node it
    /// exports.
    pub fn export_all(&self) -> Prog {
        let mut p = self.clone();
        p.outputs = (0..self.nodes.len() as u32).collect();
        p
    }
}

////////////////////////////////////////////////////////////////////////////////

#[derive(Clone, Copy, Debug, PartialEq, Eq)]
pub enum Profile {
    Uniform,
    Arith,
    Choice,
    Libm,
}

#[derive(Clone, Copy, Debug, PartialEq, Eq)]
pub enum Topo {
    Random,
    Deep,
    Balanced,
    /// many independent sub-terms consumed by two chains in opposite order:
    /// forces all of them to be live at once (register pressure / spills)
    Crossing,
}

#[derive(Clone, Copy, Debug, PartialEq, Eq)]
pub enum Consts {
    /// special values (0, -0, inf, NaN, denormals, ...) mixed with random
    Hostile,
    /// finite, moderate magnitude
    Tame,
    /// small dyadic rationals (exact arithmetic regimes)
    Dyadic,
}

#[derive(Clone, Debug)]
pub struct GenCfg {
    pub size: usize,
    pub n_vars: usize,
    pub profile: Profile,
    pub topo: Topo,
    pub consts: Consts,
    pub const_p: f64,
    pub n_outputs: usize,
    pub allow_un: Vec<Un>,
    pub allow_bin: Vec<Bin>,
    /// include constants / bare variables / duplicates among the outputs
    pub odd_outputs: bool,
}

impl GenCfg {
    pub fn new(size: usize) -> Self {
        GenCfg {
            size,
            n_vars: 3,
            profile: Profile::Uniform,
            topo: Topo::Random,
            consts: Consts::Hostile,
            const_p: 0.2,
            n_outputs: 1,
            allow_un: UNS.to_vec(),
            allow_bin: BINS.to_vec(),
            odd_outputs: false,
        }
    }

    /// "Width sweep": a crossing program whose number of simultaneously live
    /// values is drawn around the thresholds at which allocators and
    /// assemblers change behaviour (the JIT's 12 registers, the 255/256-slot
    /// boundary of 8-bit slot numbers, powers of two), with out-of-line
    /// calls (libm) made while all of them are live
    pub fn wide_sweep(rng: &mut Rng) -> Self {
        let live = match rng.below(8) {
            0..=3 => 236 + rng.below(45), // 236..=280
            4 => 116 + rng.below(25),     // around 128
            5 => 500 + rng.below(30),     // around 512
            6 => 8 + rng.below(12),       // around the JIT register count
            _ => 8 + rng.below(600),
        };
        let mut c = GenCfg::new(4 * live);
        c.topo = Topo::Crossing;
        c.profile = Profile::Libm;
        c.consts = Consts::Tame;
        c.const_p = 0.2;
        c.n_vars = 3 + rng.below(4);
        c
    }

    /// Draws a configuration from the profile table so that every run covers
    /// every profile
    pub fn random(rng: &mut Rng, max_size: usize) -> Self {
        if rng.chance(0.12) {
            // "unit" programs: one to three operations applied directly to
            // variables and special constants, so that every opcode meets
            // every special value in every operand form
            let mut c = GenCfg::new(1 + rng.below(3));
            c.const_p = 0.5;
            c.n_outputs = 1 + rng.below(2);
            return c;
        }
        let size = match rng.below(10) {
            0 => 1 + rng.below(4),
            1..=5 => 4 + rng.below(30),
            6..=8 => 20 + rng.below(max_size.max(21) / 3),
            _ => max_size / 2 + rng.below(max_size / 2 + 1),
        }
        .min(max_size)
        .max(1);
        let mut c = GenCfg::new(size);
        c.n_vars = match rng.below(8) {
            0 => 3,
            1..=4 => 3 + rng.below(3),
            5 | 6 => 3 + rng.below(12),
            _ => 3 + rng.below(38),
        };
        c.profile = *rng.pick(&[
            Profile::Uniform,
            Profile::Arith,
            Profile::Choice,
            Profile::Libm,
        ]);
        c.topo = *rng.pick(&[
            Topo::Random,
            Topo::Random,
            Topo::Deep,
            Topo::Balanced,
            Topo::Crossing,
        ]);
        c.const_p = *rng.pick(&[0.05, 0.2, 0.4]);
        c.n_outputs = match rng.below(6) {
            0..=2 => 1,
            3 | 4 => 2 + rng.below(3),
            _ => 2 + rng.below(7),
        };
        c.odd_outputs = rng.chance(0.3);
        c
    }
}

pub const SPECIAL_CONSTS: [f32; 22] = [
    0.0,
    -0.0,
    1.0,
    -1.0,
    2.0,
    0.5,
    -0.5,
    std::f32::consts::FRAC_PI_2,
    std::f32::consts::PI,
    -std::f32::consts::FRAC_PI_2,
    std::f32::consts::TAU,
    f32::INFINITY,
    f32::NEG_INFINITY,
    f32::NAN,
    1.0e-45,  // smallest denormal
    -1.0e-45,
    f32::MIN_POSITIVE,
    f32::MAX,
    f32::MIN,
    8388607.0, // 2^23 - 1
    8388609.0, // 2^23 + 1
    3.0,
];

pub fn gen_const(rng: &mut Rng, k: Consts) -> f32 {
    match k {
        Consts::Hostile => {
            if rng.chance(0.45) {
                *rng.pick(&SPECIAL_CONSTS)
            } else if rng.chance(0.8) {
                rng.log_f32(-6.0, 6.0)
            } else {
                rng.log_f32(-140.0, 127.0)
            }
        }
        Consts::Tame => {
            if rng.chance(0.3) {
                *rng.pick(&[0.5f32, 1.0, 2.0, -1.0, 0.25, 3.0, -0.5, 1.5])
            } else {
                rng.uniform(-2.0, 2.0) as f32
            }
        }
        Consts::Dyadic => (rng.range(-16, 16) as f32) / 4.0,
    }
}

fn un_weight(p: Profile, o: Un) -> u32 {
    let libm = matches!(
        o,
        Un::Sin
            | Un::Cos
            | Un::Tan
            | Un::Asin
            | Un::Acos
            | Un::Atan
            | Un::Exp
            | Un::Ln
    );
    match p {
        Profile::Uniform => 4,
        Profile::Arith => {
            if libm {
                1
            } else if matches!(o, Un::Not | Un::Rand) {
                1
            } else {
                6
            }
        }
        Profile::Choice => {
            if libm {
                1
            } else {
                3
            }
        }
        Profile::Libm => {
            if libm {
                10
            } else {
                2
            }
        }
    }
}

fn bin_weight(p: Profile, o: Bin) -> u32 {
    match p {
        Profile::Uniform => 4,
        Profile::Arith => match o {
            Bin::Add | Bin::Sub | Bin::Mul | Bin::Div => 10,
            Bin::Min | Bin::Max => 3,
            _ => 1,
        },
        Profile::Choice => {
            if o.is_choice() {
                12
            } else if matches!(o, Bin::Add | Bin::Sub | Bin::Mul) {
                4
            } else {
                1
            }
        }
        Profile::Libm => match o {
            Bin::Atan2 | Bin::Mod => 8,
            Bin::Add | Bin::Mul | Bin::Sub => 5,
            _ => 2,
        },
    }
}

struct Builder<'a> {
    rng: &'a mut Rng,
    cfg: &'a GenCfg,
    nodes: Vec<PNode>,
    /// non-constant nodes usable as operands
    pool: Vec<u32>,
    /// nodes without a parent yet (for balanced trees)
    orphans: Vec<u32>,
    un_w: Vec<u32>,
    bin_w: Vec<u32>,
}

impl<'a> Builder<'a> {
    fn push(&mut self, n: PNode) -> u32 {
        self.nodes.push(n);
        (self.nodes.len() - 1) as u32
    }
    fn push_op(&mut self, n: PNode) -> u32 {
        match n {
            PNode::Un(_, a) => self.orphans.retain(|&x| x != a),
            PNode::Bin(_, a, b) => self.orphans.retain(|&x| x != a && x != b),
            _ => (),
        }
        let i = self.push(n);
        self.pool.push(i);
        self.orphans.push(i);
        i
    }
    fn konst(&mut self) -> u32 {
        let c = gen_const(self.rng, self.cfg.consts);
        self.push(PNode::Const(c))
    }
    fn pick_existing(&mut self) -> u32 {
        match self.cfg.topo {
            Topo::Deep => {
                if self.rng.chance(0.75) {
                    *self.pool.last().unwrap()
                } else {
                    *self.rng.pick(&self.pool)
                }
            }
            Topo::Balanced => {
                if !self.orphans.is_empty() && self.rng.chance(0.85) {
                    // oldest orphans first
                    let k = self.rng.below(self.orphans.len().min(3));
                    self.orphans[k]
                } else {
                    *self.rng.pick(&self.pool)
                }
            }
            _ => {
                if self.rng.chance(0.5) {
                    // recent-biased
                    let n = self.pool.len();
                    let w = n.min(8);
                    self.pool[n - 1 - self.rng.below(w)]
                } else {
                    *self.rng.pick(&self.pool)
                }
            }
        }
    }
    fn operand(&mut self) -> u32 {
        if self.rng.chance(self.cfg.const_p) {
            self.konst()
        } else {
            self.pick_existing()
        }
    }
    fn random_un(&mut self) -> Un {
        self.cfg.allow_un[self.rng.weighted(&self.un_w)]
    }
    fn random_bin(&mut self) -> Bin {
        self.cfg.allow_bin[self.rng.weighted(&self.bin_w)]
    }
    fn random_op_on(&mut self, a: u32) -> u32 {
        if !self.cfg.allow_un.is_empty()
            && (self.cfg.allow_bin.is_empty() || self.rng.chance(0.3))
        {
            let o = self.random_un();
            self.push_op(PNode::Un(o, a))
        } else {
            let o = self.random_bin();
            let b = if self.rng.chance(0.06) {
                a
            } else {
                self.operand()
            };
            if self.rng.chance(0.5) {
                self.push_op(PNode::Bin(o, a, b))
            } else {
                self.push_op(PNode::Bin(o, b, a))
            }
        }
    }
    fn random_op(&mut self) -> u32 {
        let a = self.pick_existing();
        self.random_op_on(a)
    }
}

pub fn generate(rng: &mut Rng, cfg: &GenCfg) -> Prog {
    let un_w: Vec<u32> = cfg
        .allow_un
        .iter()
        .map(|&o| un_weight(cfg.profile, o))
        .collect();
    let bin_w: Vec<u32> = cfg
        .allow_bin
        .iter()
        .map(|&o| bin_weight(cfg.profile, o))
        .collect();
    let n_vars = cfg.n_vars.max(3);
    let mut b = Builder {
        rng,
        cfg,
        nodes: vec![],
        pool: vec![],
        orphans: vec![],
        un_w,
        bin_w,
    };
    // variables, in random order, random subset (at least one)
    let mut vs: Vec<u32> = (0..n_vars as u32).collect();
    b.rng.shuffle(&mut vs);
    let keep = if b.rng.chance(0.6) {
        n_vars
    } else {
        1 + b.rng.below(n_vars)
    };
    for &v in vs.iter().take(keep) {
        let i = b.push(PNode::Var(v));
        b.pool.push(i);
        b.orphans.push(i);
    }

    let last = if cfg.topo == Topo::Crossing && cfg.size >= 8 {
        let k = (cfg.size / 4).max(2);
        let mut terms = vec![];
        for _ in 0..k {
            let a = *b.rng.pick(&b.pool[..keep]);
            terms.push(b.random_op_on(a));
        }
        let mut acc_a = terms[0];
        for &t in &terms[1..] {
            let o = b.random_bin();
            acc_a = b.push_op(PNode::Bin(o, acc_a, t));
        }
        let mut acc_b = *terms.last().unwrap();
        for &t in terms.iter().rev().skip(1) {
            let o = b.random_bin();
            acc_b = if b.rng.chance(0.5) {
                b.push_op(PNode::Bin(o, acc_b, t))
            } else {
                b.push_op(PNode::Bin(o, t, acc_b))
            };
        }
        let o = b.random_bin();
        let mut root = b.push_op(PNode::Bin(o, acc_a, acc_b));
        let rest = cfg.size.saturating_sub(3 * k);
        for _ in 0..rest {
            root = b.random_op();
        }
        root
    } else {
        let mut last = 0;
        for _ in 0..cfg.size {
            last = b.random_op();
        }
        if cfg.topo == Topo::Balanced {
            // join remaining orphans so the whole tree is reachable
            while b.orphans.len() > 1 {
                let x = b.orphans[0];
                let y = b.orphans[1];
                let o = b.random_bin();
                last = b.push_op(PNode::Bin(o, x, y));
            }
        }
        last
    };

    let mut outputs = vec![last];
    while outputs.len() < cfg.n_outputs {
        let o = if cfg.odd_outputs && b.rng.chance(0.25) {
            match b.rng.below(3) {
                0 => b.konst(),
                1 => b.pool[b.rng.below(keep)], // bare variable
                _ => *b.rng.pick(&outputs),      // duplicate
            }
        } else {
            *b.rng.pick(&b.pool)
        };
        outputs.push(o);
    }
    if cfg.n_outputs > 1 {
        b.rng.shuffle(&mut outputs);
    }
    Prog {
        nodes: b.nodes,
        n_vars,
        outputs,
    }
}

////////////////////////////////////////////////////////////////////////////////
// Inputs

pub const SPECIAL_INPUTS: [f32; 20] = [
    0.0,
    -0.0,
    1.0,
    -1.0,
    0.5,
    2.0,
    -2.0,
    f32::INFINITY,
    f32::NEG_INFINITY,
    f32::NAN,
    1.0e-45,
    -1.0e-45,
    1.0e-40,
    f32::MIN_POSITIVE,
    f32::MAX,
    f32::MIN,
    std::f32::consts::FRAC_PI_2,
    std::f32::consts::PI,
    1.5,
    -0.5,
];

#[derive(Clone, Copy, Debug, PartialEq, Eq)]
pub enum Inputs {
    /// NaN, inf, denormals, signed zeros, boundary values and random
    Hostile,
    /// finite, every magnitude up to f32::MAX
    FiniteWide,
    /// finite, magnitude <= ~100
    Tame,
    /// only the special values
    Special,
}

pub fn gen_input(rng: &mut Rng, k: Inputs) -> f32 {
    match k {
        Inputs::Hostile => match rng.below(10) {
            0..=2 => *rng.pick(&SPECIAL_INPUTS),
            3..=6 => rng.log_f32(-8.0, 8.0),
            7 => {
                // boundary seeking: around k*pi/2 and integers +- ulp
                let base = if rng.chance(0.5) {
                    (rng.range(-8, 8) as f32) * std::f32::consts::FRAC_PI_2
                } else {
                    rng.range(-5, 5) as f32 + *rng.pick(&[0.0f32, 0.5])
                };
                crate::util::step_ulps(base, rng.range(-2, 2) as i32)
            }
            8 => rng.log_f32(-149.0, 128.0),
            _ => rng.range(-4, 4) as f32,
        },
        Inputs::FiniteWide => {
            let v = match rng.below(6) {
                0 => *rng.pick(&[
                    0.0f32,
                    -0.0,
                    1.0,
                    -1.0,
                    f32::MAX,
                    f32::MIN,
                    1e30,
                    -1e30,
                    1e-40,
                    f32::MIN_POSITIVE,
                ]),
                1 | 2 => rng.log_f32(-10.0, 10.0),
                3 => rng.log_f32(60.0, 127.9),
                _ => rng.log_f32(-149.0, 127.9),
            };
            if v.is_finite() { v } else { f32::MAX }
        }
        Inputs::Special => *rng.pick(&SPECIAL_INPUTS),
        Inputs::Tame => match rng.below(6) {
            0 => *rng.pick(&[0.0f32, 1.0, -1.0, 0.5, 2.0, -0.25]),
            1 => rng.uniform(-100.0, 100.0) as f32,
            _ => rng.uniform(-3.0, 3.0) as f32,
        },
    }
}

pub fn gen_inputs(rng: &mut Rng, n: usize, k: Inputs) -> Vec<f32> {
    (0..n).map(|_| gen_input(rng, k)).collect()
}
