//! Input boxes for interval evaluation (DESIGN.md 2.1)
use crate::util::{Rng, next_up};

#[derive(Clone, Copy, Debug, PartialEq, Eq)]
pub enum BoxKind {
    Degenerate,
    OneUlp,
    Tiny,
    Unit,
    StraddleZero,
    /// around multiples of pi/2 and integers
    Boundary,
    Huge,
    /// widths near pi/2, pi, 2pi (+- a few ulps) and large trigonometric
    /// arguments with small widths
    TrigEdge,
    /// moderately wide (1..12) boxes at moderate positions: several periods
    /// of the trigonometric functions, poles of tan/recip inside
    Wide,
    /// each variable draws its own kind (tame kinds only)
    MixedTame,
    /// each variable draws its own kind (all kinds)
    MixedAll,
}

pub const TAME_KINDS: [BoxKind; 6] = [
    BoxKind::Degenerate,
    BoxKind::OneUlp,
    BoxKind::Tiny,
    BoxKind::Unit,
    BoxKind::StraddleZero,
    BoxKind::Boundary,
];

fn one(rng: &mut Rng, k: BoxKind) -> (f32, f32) {
    match k {
        BoxKind::Degenerate => {
            let v = if rng.chance(0.3) {
                *rng.pick(&[0.0f32, -0.0, 1.0, -1.0, 0.5, 2.0])
            } else {
                rng.uniform(-3.0, 3.0) as f32
            };
            (v, v)
        }
        BoxKind::OneUlp => {
            let v = rng.uniform(-3.0, 3.0) as f32;
            (v, next_up(v))
        }
        BoxKind::Tiny => {
            let c = rng.uniform(-3.0, 3.0) as f32;
            let w = rng.uniform(1e-6, 1e-2) as f32;
            (c - w, c + w)
        }
        BoxKind::Unit => {
            let c = rng.uniform(-2.0, 2.0) as f32;
            let w = rng.uniform(0.05, 1.5) as f32;
            (c - w, c + w)
        }
        BoxKind::StraddleZero => {
            let a = rng.uniform(0.0, 2.0) as f32;
            let b = rng.uniform(0.0, 2.0) as f32;
            match rng.below(4) {
                0 => (0.0, b),
                1 => (-a, 0.0),
                2 => (-0.0, b),
                _ => (-a, b),
            }
        }
        BoxKind::Boundary => {
            let base = if rng.chance(0.5) {
                (rng.range(-6, 6) as f32) * std::f32::consts::FRAC_PI_2
            } else {
                rng.range(-4, 4) as f32 * *rng.pick(&[1.0f32, 0.5])
            };
            let w0 = rng.uniform(0.0, 0.4) as f32;
            let w1 = rng.uniform(0.0, 0.4) as f32;
            match rng.below(3) {
                0 => (base, base + w1),
                1 => (base - w0, base),
                _ => (base - w0, base + w1),
            }
        }
        BoxKind::Huge => {
            let a = rng.log_f32(-20.0, 127.9);
            let b = rng.log_f32(-20.0, 127.9);
            let (lo, hi) = if a <= b { (a, b) } else { (b, a) };
            let fin = |v: f32| if v.is_finite() { v } else { f32::MAX.copysign(v) };
            (fin(lo), fin(hi))
        }
        BoxKind::TrigEdge => {
            use std::f32::consts::{FRAC_PI_2, PI, TAU};
            if rng.chance(0.5) {
                let lo = rng.uniform(-8.0, 8.0) as f32;
                let w = *rng.pick(&[FRAC_PI_2, PI, PI, PI, TAU, 3.0 * FRAC_PI_2]);
                let hi = crate::util::step_ulps(lo + w, rng.range(-3, 3) as i32);
                if lo <= hi { (lo, hi) } else { (hi, lo) }
            } else {
                let c = rng.log_f32(13.0, 26.0);
                let w = rng.uniform(0.0, 6.0) as f32;
                let hi = c + w;
                if c <= hi { (c, hi) } else { (hi, c) }
            }
        }
        BoxKind::Wide => {
            let lo = rng.uniform(-10.0, 10.0) as f32;
            let w = rng.uniform(1.0, 12.0) as f32;
            (lo, lo + w)
        }
        BoxKind::MixedTame => {
            let k = *rng.pick(&TAME_KINDS);
            one(rng, k)
        }
        BoxKind::MixedAll => {
            let k = if rng.chance(0.25) {
                BoxKind::Huge
            } else if rng.chance(0.25) {
                BoxKind::TrigEdge
            } else {
                *rng.pick(&TAME_KINDS)
            };
            one(rng, k)
        }
    }
}

pub fn gen_box(rng: &mut Rng, n: usize, k: BoxKind) -> Vec<(f32, f32)> {
    (0..n).map(|_| one(rng, k)).collect()
}

pub fn random_tame_kind(rng: &mut Rng) -> BoxKind {
    if rng.chance(0.12) {
        BoxKind::Wide
    } else if rng.chance(0.4) {
        BoxKind::MixedTame
    } else {
        *rng.pick(&TAME_KINDS)
    }
}

/// A point inside the box: corners, midpoints, random interior
pub fn point_in(rng: &mut Rng, b: &[(f32, f32)]) -> Vec<f32> {
    b.iter()
        .map(|&(lo, hi)| match rng.below(5) {
            // a degenerate side has exactly one bit-realisable point
            // (-0.0 + 0.0 would give +0.0, which rand/mix tell apart)
            _ if lo.to_bits() == hi.to_bits() => lo,
            0 => lo,
            1 => hi,
            2 => {
                let m = lo / 2.0 + hi / 2.0;
                m.clamp(lo, hi)
            }
            _ => {
                let t = rng.unit() as f32;
                let v = lo + (hi - lo) * t;
                if v.is_nan() { lo } else { v.clamp(lo, hi) }
            }
        })
        .collect()
}

/// A box nested inside `b`
pub fn shrink(rng: &mut Rng, b: &[(f32, f32)]) -> Vec<(f32, f32)> {
    b.iter()
        .map(|&(lo, hi)| {
            if lo == hi || rng.chance(0.2) {
                return (lo, hi);
            }
            let t0 = rng.unit() as f32 * 0.6;
            let t1 = t0 + rng.unit() as f32 * (1.0 - t0);
            let a = (lo + (hi - lo) * t0).clamp(lo, hi);
            let c = (lo + (hi - lo) * t1).clamp(lo, hi);
            if a <= c { (a, c) } else { (c, a) }
        })
        .collect()
}
