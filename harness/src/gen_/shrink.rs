//! Witness shrinking for program-based monitors: drop outputs, replace a node
//! by one of its operands or a constant, remove unreachable nodes - while the
//! oracle still fires with the same signature.
use crate::gen_::prog::{PNode, Prog};

/// Removes unreachable nodes and renumbers
pub fn compact(p: &Prog) -> Prog {
    let n = p.nodes.len();
    let mut live = vec![false; n];
    let mut stack: Vec<u32> = p.outputs.clone();
    while let Some(i) = stack.pop() {
        if live[i as usize] {
            continue;
        }
        live[i as usize] = true;
        match p.nodes[i as usize] {
            PNode::Un(_, a) => stack.push(a),
            PNode::Bin(_, a, b) => {
                stack.push(a);
                stack.push(b);
            }
            _ => (),
        }
    }
    let mut map = vec![u32::MAX; n];
    let mut nodes = vec![];
    for i in 0..n {
        if live[i] {
            map[i] = nodes.len() as u32;
            nodes.push(match p.nodes[i] {
                PNode::Un(o, a) => PNode::Un(o, map[a as usize]),
                PNode::Bin(o, a, b) => PNode::Bin(o, map[a as usize], map[b as usize]),
                x => x,
            });
        }
    }
    Prog {
        nodes,
        n_vars: p.n_vars,
        outputs: p.outputs.iter().map(|&o| map[o as usize]).collect(),
    }
}

/// Redirects every use of node `i` to node `j` (j < i)
fn redirect(p: &Prog, i: u32, j: u32) -> Prog {
    let mut q = p.clone();
    for n in q.nodes.iter_mut() {
        match n {
            PNode::Un(_, a) if *a == i => *a = j,
            PNode::Bin(_, a, b) => {
                if *a == i {
                    *a = j;
                }
                if *b == i {
                    *b = j;
                }
            }
            _ => (),
        }
    }
    for o in q.outputs.iter_mut() {
        if *o == i {
            *o = j;
        }
    }
    compact(&q)
}

pub fn shrink(
    p: &Prog,
    fails: &mut dyn FnMut(&Prog) -> bool,
    max_tries: usize,
) -> Prog {
    let mut cur = compact(p);
    let mut tries = 0;
    // single outputs first
    if cur.outputs.len() > 1 {
        for k in 0..cur.outputs.len() {
            let mut q = cur.clone();
            q.outputs = vec![cur.outputs[k]];
            let q = compact(&q);
            tries += 1;
            if fails(&q) {
                cur = q;
                break;
            }
        }
    }
    loop {
        let mut progress = false;
        let mut i = cur.nodes.len();
        while i > 0 {
            i -= 1;
            if tries >= max_tries {
                return cur;
            }
            if i >= cur.nodes.len() {
                continue;
            }
            let cands: Vec<Prog> = match cur.nodes[i] {
                PNode::Un(_, a) => vec![redirect(&cur, i as u32, a)],
                PNode::Bin(_, a, b) => {
                    vec![redirect(&cur, i as u32, a), redirect(&cur, i as u32, b)]
                }
                _ => vec![],
            };
            for q in cands {
                if q.nodes.len() >= cur.nodes.len() || q.outputs.is_empty() {
                    continue;
                }
                tries += 1;
                if fails(&q) {
                    cur = q;
                    progress = true;
                    break;
                }
            }
        }
        if !progress {
            break;
        }
    }
    cur
}
