//! Seeded generator of CSG shapes (as `Prog`s, so that they can be listed,
//! hashed and shrunk like any other program): unions / intersections /
//! differences / blends / inverses over spheres, boxes, cylinders, tori,
//! half-spaces and a gyroid-like field, under translations, scales and
//! rotations (DESIGN.md 2.1).
use crate::gen_::prog::{Bin, PNode, Prog, Un};
use crate::util::Rng;

pub struct B {
    pub nodes: Vec<PNode>,
}

impl B {
    pub fn new() -> Self {
        B { nodes: vec![] }
    }
    fn push(&mut self, n: PNode) -> u32 {
        // reuse identical leaves
        if matches!(n, PNode::Var(_) | PNode::Const(_)) {
            if let Some(i) = self.nodes.iter().position(|m| match (m, &n) {
                (PNode::Var(a), PNode::Var(b)) => a == b,
                (PNode::Const(a), PNode::Const(b)) => a.to_bits() == b.to_bits(),
                _ => false,
            }) {
                return i as u32;
            }
        }
        self.nodes.push(n);
        (self.nodes.len() - 1) as u32
    }
    pub fn var(&mut self, i: u32) -> u32 {
        self.push(PNode::Var(i))
    }
    pub fn c(&mut self, v: f32) -> u32 {
        self.push(PNode::Const(v))
    }
    pub fn un(&mut self, o: Un, a: u32) -> u32 {
        self.push(PNode::Un(o, a))
    }
    pub fn bin(&mut self, o: Bin, a: u32, b: u32) -> u32 {
        self.push(PNode::Bin(o, a, b))
    }
    pub fn add(&mut self, a: u32, b: u32) -> u32 {
        self.bin(Bin::Add, a, b)
    }
    pub fn sub(&mut self, a: u32, b: u32) -> u32 {
        self.bin(Bin::Sub, a, b)
    }
    pub fn mul(&mut self, a: u32, b: u32) -> u32 {
        self.bin(Bin::Mul, a, b)
    }
    pub fn min(&mut self, a: u32, b: u32) -> u32 {
        self.bin(Bin::Min, a, b)
    }
    pub fn max(&mut self, a: u32, b: u32) -> u32 {
        self.bin(Bin::Max, a, b)
    }
    pub fn subc(&mut self, a: u32, v: f32) -> u32 {
        let c = self.c(v);
        self.sub(a, c)
    }
    pub fn mulc(&mut self, a: u32, v: f32) -> u32 {
        let c = self.c(v);
        self.mul(a, c)
    }
    pub fn sq(&mut self, a: u32) -> u32 {
        self.un(Un::Square, a)
    }
    pub fn abs(&mut self, a: u32) -> u32 {
        self.un(Un::Abs, a)
    }
    pub fn sqrt(&mut self, a: u32) -> u32 {
        self.un(Un::Sqrt, a)
    }
}

#[derive(Clone, Copy)]
pub struct Frame {
    pub x: u32,
    pub y: u32,
    pub z: u32,
    /// uniform scale applied so far (distance values are multiplied back)
    pub scale: f32,
}

#[derive(Clone, Copy, Debug)]
pub struct ShapeCfg {
    /// objects stay inside a ball of this radius around the origin
    pub extent: f32,
    /// smallest feature size (radii, half-widths, gaps)
    pub min_feature: f32,
    pub max_depth: usize,
    /// allow the gyroid-like trigonometric field and other non-CSG terms
    pub exotic: bool,
    /// number of free variables used as radii / offsets (bound at render time)
    pub free_vars: usize,
    /// 2D shapes (z ignored by primitives)
    pub flat: bool,
}

impl ShapeCfg {
    pub fn render() -> Self {
        ShapeCfg {
            extent: 0.9,
            min_feature: 0.08,
            max_depth: 3,
            exotic: true,
            free_vars: 0,
            flat: false,
        }
    }
    pub fn mesh() -> Self {
        ShapeCfg {
            extent: 0.62,
            min_feature: 0.2,
            max_depth: 2,
            exotic: false,
            free_vars: 0,
            flat: false,
        }
    }
}

fn transformed(b: &mut B, rng: &mut Rng, f: Frame, cfg: &ShapeCfg) -> Frame {
    let mut f = f;
    // translate
    if rng.chance(0.8) {
        let room = (cfg.extent * 0.5).max(0.05);
        let (dx, dy, dz) = (
            rng.uniform(-room as f64, room as f64) as f32,
            rng.uniform(-room as f64, room as f64) as f32,
            if cfg.flat { 0.0 } else { rng.uniform(-room as f64, room as f64) as f32 },
        );
        f.x = b.subc(f.x, dx);
        f.y = b.subc(f.y, dy);
        if !cfg.flat {
            f.z = b.subc(f.z, dz);
        }
    }
    // rotate about a coordinate axis
    if rng.chance(0.5) {
        let a = rng.uniform(0.0, std::f64::consts::TAU) as f32;
        let (s, c) = a.sin_cos();
        let axis = if cfg.flat { 2 } else { rng.below(3) };
        let (u, v) = match axis {
            0 => (f.y, f.z),
            1 => (f.z, f.x),
            _ => (f.x, f.y),
        };
        let uc = b.mulc(u, c);
        let vs = b.mulc(v, s);
        let us = b.mulc(u, s);
        let vc = b.mulc(v, c);
        let nu = b.add(uc, vs);
        let nv = b.sub(vc, us);
        match axis {
            0 => {
                f.y = nu;
                f.z = nv;
            }
            1 => {
                f.z = nu;
                f.x = nv;
            }
            _ => {
                f.x = nu;
                f.y = nv;
            }
        }
    }
    f
}

fn primitive(b: &mut B, rng: &mut Rng, f: Frame, cfg: &ShapeCfg) -> u32 {
    let lo = cfg.min_feature as f64;
    let hi = (cfg.extent * 0.5).max(cfg.min_feature * 1.5) as f64;
    let r = rng.uniform(lo, hi) as f32;
    let n_kinds = if cfg.exotic { 7 } else { 5 };
    match rng.below(n_kinds) {
        0 => {
            // sphere / circle
            let x2 = b.sq(f.x);
            let y2 = b.sq(f.y);
            let mut s = b.add(x2, y2);
            if !cfg.flat {
                let z2 = b.sq(f.z);
                s = b.add(s, z2);
            }
            let d = b.sqrt(s);
            b.subc(d, r)
        }
        1 => {
            // box
            let (hx, hy, hz) = (
                rng.uniform(lo, hi) as f32,
                rng.uniform(lo, hi) as f32,
                rng.uniform(lo, hi) as f32,
            );
            let ax = b.abs(f.x);
            let ay = b.abs(f.y);
            let dx = b.subc(ax, hx);
            let dy = b.subc(ay, hy);
            let mut m = b.max(dx, dy);
            if !cfg.flat {
                let az = b.abs(f.z);
                let dz = b.subc(az, hz);
                m = b.max(m, dz);
            }
            m
        }
        2 => {
            // capped cylinder along z
            let x2 = b.sq(f.x);
            let y2 = b.sq(f.y);
            let s = b.add(x2, y2);
            let d = b.sqrt(s);
            let side = b.subc(d, r);
            if cfg.flat {
                side
            } else {
                let h = rng.uniform(lo, hi) as f32;
                let az = b.abs(f.z);
                let cap = b.subc(az, h);
                b.max(side, cap)
            }
        }
        3 => {
            // torus in the xy plane
            let minor = (r * 0.45).max(cfg.min_feature * 0.6);
            let major = r.max(minor * 2.2);
            let x2 = b.sq(f.x);
            let y2 = b.sq(f.y);
            let s = b.add(x2, y2);
            let d = b.sqrt(s);
            let q = b.subc(d, major);
            if cfg.flat {
                let a = b.abs(q);
                b.subc(a, minor)
            } else {
                let q2 = b.sq(q);
                let z2 = b.sq(f.z);
                let s2 = b.add(q2, z2);
                let d2 = b.sqrt(s2);
                b.subc(d2, minor)
            }
        }
        4 => {
            // rounded box: box shrunk then offset
            let hx = rng.uniform(lo, hi) as f32;
            let hy = rng.uniform(lo, hi) as f32;
            let ax = b.abs(f.x);
            let ay = b.abs(f.y);
            let dx = b.subc(ax, hx);
            let dy = b.subc(ay, hy);
            let m = b.max(dx, dy);
            b.subc(m, (cfg.min_feature * 0.25).min(0.05))
        }
        5 => {
            // half-space through a random offset
            let k = rng.uniform(-0.3, 0.3) as f32;
            let n = [
                rng.uniform(-1.0, 1.0) as f32,
                rng.uniform(-1.0, 1.0) as f32,
                if cfg.flat { 0.0 } else { rng.uniform(-1.0, 1.0) as f32 },
            ];
            let l = (n[0] * n[0] + n[1] * n[1] + n[2] * n[2]).sqrt().max(0.1);
            let a = b.mulc(f.x, n[0] / l);
            let c = b.mulc(f.y, n[1] / l);
            let mut s = b.add(a, c);
            if !cfg.flat {
                let e = b.mulc(f.z, n[2] / l);
                s = b.add(s, e);
            }
            b.subc(s, k)
        }
        _ => {
            // gyroid-like field (tame trigonometry)
            let k = rng.uniform(2.0, 7.0) as f32;
            let kx = b.mulc(f.x, k);
            let ky = b.mulc(f.y, k);
            let kz = b.mulc(f.z, k);
            let sx = b.un(Un::Sin, kx);
            let cy = b.un(Un::Cos, ky);
            let sy = b.un(Un::Sin, ky);
            let cz = b.un(Un::Cos, kz);
            let t1 = b.mul(sx, cy);
            let t2 = b.mul(sy, cz);
            let s = b.add(t1, t2);
            let s = b.mulc(s, 1.0 / k);
            b.subc(s, rng.uniform(-0.05, 0.05) as f32)
        }
    }
}

fn csg(b: &mut B, rng: &mut Rng, f: Frame, cfg: &ShapeCfg, depth: usize) -> u32 {
    if depth >= cfg.max_depth || rng.chance(0.3) {
        let g = transformed(b, rng, f, cfg);
        return primitive(b, rng, g, cfg);
    }
    let f2 = if rng.chance(0.4) { transformed(b, rng, f, cfg) } else { f };
    let l = csg(b, rng, f2, cfg, depth + 1);
    let r = csg(b, rng, f2, cfg, depth + 1);
    match rng.below(if cfg.exotic { 6 } else { 4 }) {
        0 | 1 => b.min(l, r), // union
        2 => b.max(l, r),     // intersection
        3 => {
            // difference
            let n = b.un(Un::Neg, r);
            b.max(l, n)
        }
        4 => {
            // smooth blend: min(a,b) - max(k - |a-b|, 0)^2 / (4k)
            let k = rng.uniform(0.05, 0.2) as f32;
            let m = b.min(l, r);
            let d = b.sub(l, r);
            let ad = b.abs(d);
            let kc = b.c(k);
            let h = b.sub(kc, ad);
            let zero = b.c(0.0);
            let h = b.max(h, zero);
            let h2 = b.sq(h);
            let t = b.mulc(h2, 0.25 / k);
            b.sub(m, t)
        }
        _ => {
            // shell
            let a = b.abs(l);
            let s = b.subc(a, (cfg.min_feature * 0.5).max(0.03));
            b.max(s, r)
        }
    }
}

/// Generates one shape; variable slots 0,1,2 are X,Y,Z
pub fn generate(rng: &mut Rng, cfg: &ShapeCfg) -> Prog {
    let mut b = B::new();
    let x = b.var(0);
    let y = b.var(1);
    let z = b.var(2);
    let f = Frame { x, y, z, scale: 1.0 };
    let mut root = csg(&mut b, rng, f, cfg, 0);
    let n_vars = 3 + cfg.free_vars;
    for k in 0..cfg.free_vars {
        // a free variable offsets the surface (like a radius parameter)
        let v = b.var(3 + k as u32);
        root = b.sub(root, v);
    }
    Prog {
        nodes: b.nodes,
        n_vars,
        outputs: vec![root],
    }
}

/// The same scene at another scale: `f'(p) = f(p / k)` (every use of X, Y, Z
/// becomes `axis * (1/k)`); with `k` a power of two the values are unchanged
pub fn rescale(p: &Prog, k: f32) -> Prog {
    use crate::gen_::prog::{Bin, PNode};
    let mut nodes: Vec<PNode> = Vec::with_capacity(p.nodes.len() + 8);
    let mut map: Vec<u32> = Vec::with_capacity(p.nodes.len());
    let inv = 1.0 / k;
    for n in &p.nodes {
        let m = match *n {
            PNode::Var(i) if i < 3 => {
                nodes.push(PNode::Var(i));
                nodes.push(PNode::Const(inv));
                let (a, c) = (nodes.len() as u32 - 2, nodes.len() as u32 - 1);
                nodes.push(PNode::Bin(Bin::Mul, a, c));
                nodes.len() as u32 - 1
            }
            PNode::Var(i) => {
                nodes.push(PNode::Var(i));
                nodes.len() as u32 - 1
            }
            PNode::Const(c) => {
                nodes.push(PNode::Const(c));
                nodes.len() as u32 - 1
            }
            PNode::Un(o, a) => {
                nodes.push(PNode::Un(o, map[a as usize]));
                nodes.len() as u32 - 1
            }
            PNode::Bin(o, a, b) => {
                nodes.push(PNode::Bin(o, map[a as usize], map[b as usize]));
                nodes.len() as u32 - 1
            }
        };
        map.push(m);
    }
    Prog { nodes, n_vars: p.n_vars, outputs: p.outputs.iter().map(|o| map[*o as usize]).collect() }
}

/// The same scene somewhere else: `f'(p) = f(p - c)` (every use of X, Y, Z
/// becomes `axis - c`)
pub fn shift(p: &Prog, c: [f32; 3]) -> Prog {
    use crate::gen_::prog::{Bin, PNode};
    let mut nodes: Vec<PNode> = Vec::with_capacity(p.nodes.len() + 8);
    let mut map: Vec<u32> = Vec::with_capacity(p.nodes.len());
    for n in &p.nodes {
        let m = match *n {
            PNode::Var(i) if i < 3 => {
                nodes.push(PNode::Var(i));
                nodes.push(PNode::Const(c[i as usize]));
                let (a, k) = (nodes.len() as u32 - 2, nodes.len() as u32 - 1);
                nodes.push(PNode::Bin(Bin::Sub, a, k));
                nodes.len() as u32 - 1
            }
            PNode::Var(i) => {
                nodes.push(PNode::Var(i));
                nodes.len() as u32 - 1
            }
            PNode::Const(k) => {
                nodes.push(PNode::Const(k));
                nodes.len() as u32 - 1
            }
            PNode::Un(o, a) => {
                nodes.push(PNode::Un(o, map[a as usize]));
                nodes.len() as u32 - 1
            }
            PNode::Bin(o, a, b) => {
                nodes.push(PNode::Bin(o, map[a as usize], map[b as usize]));
                nodes.len() as u32 - 1
            }
        };
        map.push(m);
    }
    Prog { nodes, n_vars: p.n_vars, outputs: p.outputs.iter().map(|o| map[*o as usize]).collect() }
}
