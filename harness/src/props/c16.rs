//! C16 - standard shapes and transforms have their documented geometry.
//!
//! Every struct of `fidget_shapes` listed by `visit_shapes` is built through
//! its real `From<..> for Tree` conversion, imported into a `Context` and
//! evaluated with `Context::eval_xyz`.  The verdict comes from an independent
//! closed-form f64 geometry model written from the doc comments:
//!
//! * primitives (Circle, Sphere, Rectangle, Box, Plane): sign vs the solid;
//! * CSG (Union, Intersection, Difference, Inverse): sign algebra of the
//!   argument signs; Blend: bounds relative to `min`;
//! * point transforms: `T(s)(p) == s(T^-1 p)` with `T^-1` built here in f64
//!   (the argument `s` is an arbitrary nested fidget shape evaluated as a
//!   black box, so only the outermost item is judged in each case; by
//!   induction over nesting this covers arbitrary nests, and the `Chain` kind
//!   additionally checks nests of transforms against a closed form only);
//! * RepeatX periodicity, ExtrudeZ / LoftZ slab behaviour, RevolveY
//!   rotational symmetry + profile;
//! * the named constants `Axis::{X,Y,Z}` and `Plane::{XY,YZ,ZX}`.
use crate::util::{Rng, Stats, Tier, guarded, hash_str};
use crate::{Mode, Prop};
use fidget_core::context::{Context, Node, Tree};
use fidget_shapes as fs;
use fidget_shapes::types::{Axis, Plane, Vec2, Vec3};
use serde_json::{Value, json};

pub struct C16;

type P3 = [f64; 3];

/// Every struct visited by `fidget_shapes::visit_shapes` (cross-checked
/// against the source text in `finish`)
const ALL_SHAPES: [&str; 26] = [
    "Sphere",
    "Box",
    "Plane",
    "Circle",
    "Rectangle",
    "Move",
    "Scale",
    "ScaleUniform",
    "Reflect",
    "ReflectX",
    "ReflectY",
    "ReflectZ",
    "ReflectXY",
    "RepeatX",
    "Rotate",
    "RotateX",
    "RotateY",
    "RotateZ",
    "RevolveY",
    "ExtrudeZ",
    "LoftZ",
    "Union",
    "Blend",
    "Intersection",
    "Difference",
    "Inverse",
];

/// Extra case kinds beyond the 26 shapes
const EXTRA_KINDS: [&str; 2] = ["Constants", "Chain"];

/// Sign tests skip points closer than this to the surface
const SIGN_EPS: f64 = 1e-4;
/// Relative tolerance of value comparisons
const VAL_TOL: f64 = 1e-4;

////////////////////////////////////////////////////////////////////////////////
// small f64 vector algebra (the reference model)

fn add(a: P3, b: P3) -> P3 {
    [a[0] + b[0], a[1] + b[1], a[2] + b[2]]
}
fn sub(a: P3, b: P3) -> P3 {
    [a[0] - b[0], a[1] - b[1], a[2] - b[2]]
}
fn mul(a: P3, k: f64) -> P3 {
    [a[0] * k, a[1] * k, a[2] * k]
}
fn dot(a: P3, b: P3) -> f64 {
    a[0] * b[0] + a[1] * b[1] + a[2] * b[2]
}
fn cross(a: P3, b: P3) -> P3 {
    [
        a[1] * b[2] - a[2] * b[1],
        a[2] * b[0] - a[0] * b[2],
        a[0] * b[1] - a[1] * b[0],
    ]
}
fn norm(a: P3) -> f64 {
    dot(a, a).sqrt()
}
fn unit(a: P3) -> P3 {
    mul(a, 1.0 / norm(a))
}
fn linf(a: P3) -> f64 {
    a[0].abs().max(a[1].abs()).max(a[2].abs())
}
fn f3(a: [f32; 3]) -> P3 {
    [a[0] as f64, a[1] as f64, a[2] as f64]
}
/// Rounds a point to f32 coordinates (what fidget will be given)
fn round32(p: P3) -> P3 {
    [p[0] as f32 as f64, p[1] as f32 as f64, p[2] as f32 as f64]
}
fn v3(a: [f32; 3]) -> Vec3 {
    Vec3::new(a[0], a[1], a[2])
}

/// Right-handed rotation of `v` by `deg` degrees about the unit axis `a`
/// (Rodrigues' formula)
fn rodrigues(v: P3, a: P3, deg: f64) -> P3 {
    let t = deg.to_radians();
    let (s, c) = t.sin_cos();
    add(
        add(mul(v, c), mul(cross(a, v), s)),
        mul(a, dot(a, v) * (1.0 - c)),
    )
}

/// Mirror image of `p` about the plane `a . p = d` (`a` unit)
fn mirror(p: P3, a: P3, d: f64) -> P3 {
    sub(p, mul(a, 2.0 * (dot(a, p) - d)))
}

////////////////////////////////////////////////////////////////////////////////
// parameter generators (all values are exact f32)

fn coord(rng: &mut Rng) -> f32 {
    match rng.below(8) {
        0 => 0.0,
        1 => rng.range(-3, 3) as f32,
        _ => rng.uniform(-3.0, 3.0) as f32,
    }
}
fn coord3(rng: &mut Rng) -> [f32; 3] {
    [coord(rng), coord(rng), coord(rng)]
}
fn radius(rng: &mut Rng) -> f32 {
    if rng.chance(0.15) {
        rng.range(1, 3) as f32
    } else {
        rng.uniform(0.2, 3.5) as f32
    }
}
/// Scale factor with magnitude in [lo, hi] (log-uniform), random sign
fn factor(rng: &mut Rng, lo: f64, hi: f64) -> f32 {
    let m = (rng.uniform(lo.ln(), hi.ln())).exp();
    let m = if rng.chance(0.15) { m.round().max(1.0) } else { m };
    (if rng.chance(0.35) { -m } else { m }) as f32
}
fn angle(rng: &mut Rng) -> f32 {
    match rng.below(6) {
        0 => (rng.range(-8, 8) * 90) as f32,
        1 => (rng.range(-12, 12) * 30) as f32,
        _ => rng.uniform(-720.0, 720.0) as f32,
    }
}
/// Non-normalised axis direction (norm in about [0.05, 20])
fn axis_vec(rng: &mut Rng) -> [f32; 3] {
    loop {
        let v = [
            rng.uniform(-1.0, 1.0),
            rng.uniform(-1.0, 1.0),
            rng.uniform(-1.0, 1.0),
        ];
        let n = norm(v);
        if n < 0.2 || n > 1.0 {
            continue;
        }
        let k = (rng.uniform((0.1f64).ln(), (20.0f64).ln())).exp();
        let mut v = [
            (v[0] * k) as f32,
            (v[1] * k) as f32,
            (v[2] * k) as f32,
        ];
        if rng.chance(0.2) {
            // directions inside a coordinate plane
            let i = rng.below(3);
            v[i] = 0.0;
            if norm(f3(v)) < 0.02 {
                continue;
            }
        } else if rng.chance(0.2) {
            // exactly (anti-)parallel to a principal axis, any length
            let i = rng.below(3);
            let keep = if v[i] == 0.0 { 1.0 } else { v[i] };
            v = [0.0; 3];
            v[i] = if rng.chance(0.3) { keep.signum() } else { keep };
        }
        return v;
    }
}
fn point(rng: &mut Rng, r: f64) -> P3 {
    round32([
        rng.uniform(-r, r),
        rng.uniform(-r, r),
        rng.uniform(-r, r),
    ])
}
fn dir(rng: &mut Rng) -> P3 {
    loop {
        let v = [
            rng.uniform(-1.0, 1.0),
            rng.uniform(-1.0, 1.0),
            rng.uniform(-1.0, 1.0),
        ];
        let n = norm(v);
        if n > 0.1 && n <= 1.0 {
            return mul(v, 1.0 / n);
        }
    }
}
const NEAR: [f64; 6] = [3e-4, 1e-3, 1e-2, 0.1, 0.5, 1.5];

fn axis_from(v: [f32; 3]) -> Axis {
    Axis::try_from(v3(v)).expect("axis vector within documented range")
}

////////////////////////////////////////////////////////////////////////////////
// point transforms: fidget construction + independent forward / inverse maps

#[derive(Clone, Debug)]
enum Xf {
    Move([f32; 3]),
    Scale([f32; 3]),
    ScaleUniform(f32),
    /// plane with axis = normalised `v`, offset
    Reflect { v: [f32; 3], off: f32 },
    ReflectX(f32),
    ReflectY(f32),
    ReflectZ(f32),
    /// only offset 0 has a documented meaning ("the X = Y line")
    ReflectXY(f32),
    Rotate { v: [f32; 3], named: Option<usize>, angle: f32, c: [f32; 3] },
    RotateX { angle: f32, c: [f32; 3] },
    RotateY { angle: f32, c: [f32; 3] },
    RotateZ { angle: f32, c: [f32; 3] },
}

const XF_NAMES: [&str; 12] = [
    "Move",
    "Scale",
    "ScaleUniform",
    "Reflect",
    "ReflectX",
    "ReflectY",
    "ReflectZ",
    "ReflectXY",
    "Rotate",
    "RotateX",
    "RotateY",
    "RotateZ",
];

const UNIT_AXES: [[f32; 3]; 3] =
    [[1.0, 0.0, 0.0], [0.0, 1.0, 0.0], [0.0, 0.0, 1.0]];

impl Xf {
    /// `wide`: larger parameter ranges (top-level items); `flat`: keep a
    /// z-independent argument z-independent
    fn random(rng: &mut Rng, name: &str, wide: bool, flat: bool) -> Xf {
        let (lo, hi) = if wide { (0.1, 10.0) } else { (0.3, 3.0) };
        match name {
            "Move" => Xf::Move(coord3(rng)),
            "Scale" => Xf::Scale([
                factor(rng, lo, hi),
                factor(rng, lo, hi),
                factor(rng, lo, hi),
            ]),
            "ScaleUniform" => Xf::ScaleUniform(factor(rng, lo, hi)),
            "Reflect" => {
                let mut v = axis_vec(rng);
                if flat {
                    if rng.chance(0.2) {
                        v = [0.0, 0.0, 1.0];
                    } else {
                        v[2] = 0.0;
                        if norm(f3(v)) < 0.02 {
                            v = [1.0, 1.0, 0.0];
                        }
                    }
                }
                Xf::Reflect { v, off: coord(rng) }
            }
            "ReflectX" => Xf::ReflectX(coord(rng)),
            "ReflectY" => Xf::ReflectY(coord(rng)),
            "ReflectZ" => Xf::ReflectZ(coord(rng)),
            "ReflectXY" => Xf::ReflectXY(0.0),
            "Rotate" => {
                if flat {
                    Xf::Rotate {
                        v: UNIT_AXES[2],
                        named: Some(2),
                        angle: angle(rng),
                        c: coord3(rng),
                    }
                } else if rng.chance(0.25) {
                    let i = rng.below(3);
                    Xf::Rotate {
                        v: UNIT_AXES[i],
                        named: Some(i),
                        angle: angle(rng),
                        c: coord3(rng),
                    }
                } else {
                    Xf::Rotate {
                        v: axis_vec(rng),
                        named: None,
                        angle: angle(rng),
                        c: coord3(rng),
                    }
                }
            }
            "RotateX" => Xf::RotateX { angle: angle(rng), c: coord3(rng) },
            "RotateY" => Xf::RotateY { angle: angle(rng), c: coord3(rng) },
            "RotateZ" => Xf::RotateZ { angle: angle(rng), c: coord3(rng) },
            _ => unreachable!("unknown transform {name}"),
        }
        .with_special_centre(rng, flat)
    }

    /// One rotation in eight gets a centre that is far away along the axis
    /// and almost - not exactly - on it (a hinge of a long part): the axis
    /// line then passes the origin at a small distance, and the angle is a
    /// large one
    fn with_special_centre(mut self, rng: &mut Rng, flat: bool) -> Xf {
        if flat || !rng.chance(0.125) {
            return self;
        }
        let axis: Option<P3> = match &self {
            Xf::Rotate { v, .. } => Some(unit(f3(*v))),
            Xf::RotateX { .. } => Some([1.0, 0.0, 0.0]),
            Xf::RotateY { .. } => Some([0.0, 1.0, 0.0]),
            Xf::RotateZ { .. } => Some([0.0, 0.0, 1.0]),
            _ => None,
        };
        let Some(a) = axis else { return self };
        let t = rng.uniform((1.0f64).ln(), (1000.0f64).ln()).exp() * if rng.chance(0.5) { 1.0 } else { -1.0 };
        // perpendicular offset: 1e-6 .. 1e-3 of the distance along the axis
        let rel = rng.uniform((1e-6f64).ln(), (1e-3f64).ln()).exp();
        let r = [rng.uniform(-1.0, 1.0), rng.uniform(-1.0, 1.0), rng.uniform(-1.0, 1.0)];
        let mut perp = sub(r, mul(a, dot(r, a)));
        if norm(perp) < 1e-3 {
            return self;
        }
        perp = mul(unit(perp), t.abs() * rel);
        let c = add(mul(a, t), perp);
        let c32 = [c[0] as f32, c[1] as f32, c[2] as f32];
        let big = *rng.pick(&[180.0f32, 90.0, -90.0, 120.0, 170.0, -135.0]);
        match &mut self {
            Xf::Rotate { c, angle, .. } | Xf::RotateX { c, angle } | Xf::RotateY { c, angle } | Xf::RotateZ { c, angle } => {
                *c = c32;
                *angle = big;
            }
            _ => {}
        }
        self
    }

    fn centre_magnitude(&self) -> f64 {
        match self {
            Xf::Rotate { c, .. } | Xf::RotateX { c, .. } | Xf::RotateY { c, .. } | Xf::RotateZ { c, .. } => linf(f3(*c)),
            _ => 0.0,
        }
    }

    fn name(&self) -> &'static str {
        match self {
            Xf::Move(..) => "Move",
            Xf::Scale(..) => "Scale",
            Xf::ScaleUniform(..) => "ScaleUniform",
            Xf::Reflect { .. } => "Reflect",
            Xf::ReflectX(..) => "ReflectX",
            Xf::ReflectY(..) => "ReflectY",
            Xf::ReflectZ(..) => "ReflectZ",
            Xf::ReflectXY(..) => "ReflectXY",
            Xf::Rotate { .. } => "Rotate",
            Xf::RotateX { .. } => "RotateX",
            Xf::RotateY { .. } => "RotateY",
            Xf::RotateZ { .. } => "RotateZ",
        }
    }

    /// Builds the transformed shape with the real fidget code
    fn apply(&self, shape: Tree) -> Tree {
        match self.clone() {
            Xf::Move(o) => fs::Move { shape, offset: v3(o) }.into(),
            Xf::Scale(s) => fs::Scale { shape, scale: v3(s) }.into(),
            Xf::ScaleUniform(scale) => fs::ScaleUniform { shape, scale }.into(),
            Xf::Reflect { v, off } => fs::Reflect {
                shape,
                plane: Plane { axis: axis_from(v), offset: off },
            }
            .into(),
            Xf::ReflectX(offset) => fs::ReflectX { shape, offset }.into(),
            Xf::ReflectY(offset) => fs::ReflectY { shape, offset }.into(),
            Xf::ReflectZ(offset) => fs::ReflectZ { shape, offset }.into(),
            Xf::ReflectXY(offset) => fs::ReflectXY { shape, offset }.into(),
            Xf::Rotate { v, named, angle, c } => fs::Rotate {
                shape,
                axis: match named {
                    Some(0) => Axis::X,
                    Some(1) => Axis::Y,
                    Some(_) => Axis::Z,
                    None => axis_from(v),
                },
                angle,
                center: v3(c),
            }
            .into(),
            Xf::RotateX { angle, c } => {
                fs::RotateX { shape, angle, center: v3(c) }.into()
            }
            Xf::RotateY { angle, c } => {
                fs::RotateY { shape, angle, center: v3(c) }.into()
            }
            Xf::RotateZ { angle, c } => {
                fs::RotateZ { shape, angle, center: v3(c) }.into()
            }
        }
    }

    /// Documented action on points: where does the point `q` of the
    /// original shape end up (`inverse = false`), or which point of the
    /// original shape ends up at `p` (`inverse = true`)
    fn map(&self, p: P3, inverse: bool) -> P3 {
        let rot = |p: P3, a: P3, angle: f32, c: [f32; 3]| {
            let c = f3(c);
            let deg = if inverse { -(angle as f64) } else { angle as f64 };
            add(c, rodrigues(sub(p, c), a, deg))
        };
        match self {
            Xf::Move(o) => {
                if inverse {
                    sub(p, f3(*o))
                } else {
                    add(p, f3(*o))
                }
            }
            Xf::Scale(s) => {
                let s = f3(*s);
                if inverse {
                    [p[0] / s[0], p[1] / s[1], p[2] / s[2]]
                } else {
                    [p[0] * s[0], p[1] * s[1], p[2] * s[2]]
                }
            }
            Xf::ScaleUniform(k) => {
                let k = *k as f64;
                if inverse { mul(p, 1.0 / k) } else { mul(p, k) }
            }
            Xf::Reflect { v, off } => mirror(p, unit(f3(*v)), *off as f64),
            Xf::ReflectX(o) => [2.0 * *o as f64 - p[0], p[1], p[2]],
            Xf::ReflectY(o) => [p[0], 2.0 * *o as f64 - p[1], p[2]],
            Xf::ReflectZ(o) => [p[0], p[1], 2.0 * *o as f64 - p[2]],
            Xf::ReflectXY(_) => [p[1], p[0], p[2]],
            Xf::Rotate { v, angle, c, .. } => rot(p, unit(f3(*v)), *angle, *c),
            Xf::RotateX { angle, c } => rot(p, [1.0, 0.0, 0.0], *angle, *c),
            Xf::RotateY { angle, c } => rot(p, [0.0, 1.0, 0.0], *angle, *c),
            Xf::RotateZ { angle, c } => rot(p, [0.0, 0.0, 1.0], *angle, *c),
        }
    }

    fn desc(&self) -> Value {
        match self {
            Xf::Move(o) => json!({"offset": o}),
            Xf::Scale(s) => json!({"scale": s}),
            Xf::ScaleUniform(s) => json!({"scale": s}),
            Xf::Reflect { v, off } => {
                json!({"plane": {"axis_from_vec3": v, "offset": off}})
            }
            Xf::ReflectX(o) | Xf::ReflectY(o) | Xf::ReflectZ(o) | Xf::ReflectXY(o) => {
                json!({"offset": o})
            }
            Xf::Rotate { v, named, angle, c } => json!({
                "axis": match named {
                    Some(i) => json!(["Axis::X", "Axis::Y", "Axis::Z"][*i]),
                    None => json!({"from_vec3": v}),
                },
                "angle": angle, "center": c}),
            Xf::RotateX { angle, c }
            | Xf::RotateY { angle, c }
            | Xf::RotateZ { angle, c } => json!({"angle": angle, "center": c}),
        }
    }
}

////////////////////////////////////////////////////////////////////////////////
// random nested shapes built from the fidget shape library (arguments of the
// item under test; evaluated as black boxes by fidget itself)

struct Shape {
    tree: Tree,
    desc: Value,
}

fn wrap(name: &str, mut params: Value, children: Vec<(&str, Value)>) -> Value {
    if !params.is_object() {
        params = json!({});
    }
    for (k, v) in children {
        params[k] = v;
    }
    json!({ name: params })
}

/// `flat` = result must not depend on z (an "XY shape")
fn gen_shape(rng: &mut Rng, depth: u32, flat: bool, used: &mut Vec<&'static str>) -> Shape {
    let leaf = depth == 0 || rng.chance(0.2);
    if leaf {
        let k = if flat { rng.below(2) } else { rng.below(5) };
        return match k {
            0 => {
                used.push("Circle");
                let (c, r) = ([coord(rng), coord(rng)], radius(rng));
                Shape {
                    tree: fs::Circle { center: Vec2::new(c[0], c[1]), radius: r }.into(),
                    desc: json!({"Circle": {"center": c, "radius": r}}),
                }
            }
            1 => {
                used.push("Rectangle");
                let (c, h) = ([coord(rng), coord(rng)], [radius(rng), radius(rng)]);
                let (lo, hi) = ([c[0] - h[0], c[1] - h[1]], [c[0] + h[0], c[1] + h[1]]);
                Shape {
                    tree: fs::Rectangle {
                        lower: Vec2::new(lo[0], lo[1]),
                        upper: Vec2::new(hi[0], hi[1]),
                    }
                    .into(),
                    desc: json!({"Rectangle": {"lower": lo, "upper": hi}}),
                }
            }
            2 => {
                used.push("Sphere");
                let (c, r) = (coord3(rng), radius(rng));
                Shape {
                    tree: fs::Sphere { center: v3(c), radius: r }.into(),
                    desc: json!({"Sphere": {"center": c, "radius": r}}),
                }
            }
            3 => {
                used.push("Box");
                let (c, h) = (coord3(rng), [radius(rng), radius(rng), radius(rng)]);
                let lo = [c[0] - h[0], c[1] - h[1], c[2] - h[2]];
                let hi = [c[0] + h[0], c[1] + h[1], c[2] + h[2]];
                Shape {
                    tree: fs::Box { lower: v3(lo), upper: v3(hi) }.into(),
                    desc: json!({"Box": {"lower": lo, "upper": hi}}),
                }
            }
            _ => {
                used.push("Plane");
                let (v, off) = (axis_vec(rng), coord(rng));
                Shape {
                    tree: Plane { axis: axis_from(v), offset: off }.into(),
                    desc: json!({"Plane": {"axis_from_vec3": v, "offset": off}}),
                }
            }
        };
    }
    let d = depth - 1;
    // 0..12 point transforms, 12 RepeatX, 13 RevolveY, 14 ExtrudeZ, 15 LoftZ,
    // 16 Union, 17 Intersection, 18 Difference, 19 Inverse, 20 Blend
    let k = loop {
        let k = rng.below(21);
        if flat && (k == 6 || (9..=10).contains(&k) || (13..=15).contains(&k)) {
            continue; // ReflectZ is fine but pointless; RotateX/Y, 3D makers
        }
        break k;
    };
    match k {
        0..=11 => {
            let mut name = XF_NAMES[k];
            if flat && name == "Rotate" {
                name = "RotateZ";
            }
            let mut xf = Xf::random(rng, name, false, flat);
            if let Xf::ReflectXY(o) = &mut xf {
                if rng.chance(0.5) {
                    *o = coord(rng);
                }
            }
            if flat {
                if let Xf::Scale(s) = &mut xf {
                    s[2] = 1.0;
                }
            }
            let s = gen_shape(rng, d, flat, used);
            used.push(xf.name());
            Shape {
                tree: xf.apply(s.tree),
                desc: wrap(xf.name(), xf.desc(), vec![("shape", s.desc)]),
            }
        }
        12 => {
            used.push("RepeatX");
            let s = gen_shape(rng, d, flat, used);
            let (r, off) = (radius(rng), coord(rng));
            Shape {
                tree: fs::RepeatX { shape: s.tree, radius: r, offset: off }.into(),
                desc: json!({"RepeatX": {"radius": r, "offset": off, "shape": s.desc}}),
            }
        }
        13 => {
            used.push("RevolveY");
            let s = gen_shape(rng, d, true, used);
            let off = if rng.chance(0.4) { 0.0 } else { coord(rng) };
            Shape {
                tree: fs::RevolveY { shape: s.tree, offset: off }.into(),
                desc: json!({"RevolveY": {"offset": off, "shape": s.desc}}),
            }
        }
        14 => {
            used.push("ExtrudeZ");
            let s = gen_shape(rng, d, true, used);
            let (lo, h) = (coord(rng), radius(rng));
            Shape {
                tree: fs::ExtrudeZ { shape: s.tree, lower: lo, upper: lo + h }.into(),
                desc: json!({"ExtrudeZ": {"lower": lo, "upper": lo + h, "shape": s.desc}}),
            }
        }
        15 => {
            used.push("LoftZ");
            let a = gen_shape(rng, d, true, used);
            let b = gen_shape(rng, d, true, used);
            let (lo, h) = (coord(rng), radius(rng));
            Shape {
                tree: fs::LoftZ { a: a.tree, b: b.tree, lower: lo, upper: lo + h }.into(),
                desc: json!({"LoftZ": {"lower": lo, "upper": lo + h, "a": a.desc, "b": b.desc}}),
            }
        }
        16 | 17 => {
            let n = 1 + rng.below(3);
            let parts: Vec<Shape> =
                (0..n).map(|_| gen_shape(rng, d, flat, used)).collect();
            let descs: Vec<Value> = parts.iter().map(|s| s.desc.clone()).collect();
            let input: Vec<Tree> = parts.into_iter().map(|s| s.tree).collect();
            if k == 16 {
                used.push("Union");
                Shape {
                    tree: fs::Union { input }.into(),
                    desc: json!({"Union": {"input": descs}}),
                }
            } else {
                used.push("Intersection");
                Shape {
                    tree: fs::Intersection { input }.into(),
                    desc: json!({"Intersection": {"input": descs}}),
                }
            }
        }
        18 => {
            used.push("Difference");
            let a = gen_shape(rng, d, flat, used);
            let b = gen_shape(rng, d, flat, used);
            Shape {
                tree: fs::Difference { shape: a.tree, cutout: b.tree }.into(),
                desc: json!({"Difference": {"shape": a.desc, "cutout": b.desc}}),
            }
        }
        19 => {
            used.push("Inverse");
            let a = gen_shape(rng, d, flat, used);
            Shape {
                tree: fs::Inverse { shape: a.tree }.into(),
                desc: json!({"Inverse": {"shape": a.desc}}),
            }
        }
        _ => {
            used.push("Blend");
            let a = gen_shape(rng, d, flat, used);
            let b = gen_shape(rng, d, flat, used);
            let r = radius(rng);
            Shape {
                tree: fs::Blend { a: a.tree, b: b.tree, radius: r }.into(),
                desc: json!({"Blend": {"radius": r, "a": a.desc, "b": b.desc}}),
            }
        }
    }
}

////////////////////////////////////////////////////////////////////////////////
// evaluation of the real fidget trees

struct Ev {
    ctx: Context,
}

impl Ev {
    fn new() -> Self {
        Ev { ctx: Context::new() }
    }
    fn import(&mut self, t: &Tree) -> Node {
        self.ctx.import(t)
    }
    fn at(&self, n: Node, p: P3) -> f64 {
        self.ctx
            .eval_xyz(n, p[0] as f32, p[1] as f32, p[2] as f32)
            .expect("evaluation of an x,y,z expression") as f64
    }
    /// Value at `q` together with the spread of the values in a small
    /// neighbourhood of `q` (f32 evaluation of the transformed shape reaches
    /// the argument at a slightly different point than the f64 model)
    fn around(&self, n: Node, q: P3, scale: f64) -> (f64, f64) {
        let v = self.at(n, q);
        let d = 3e-5 * scale.max(linf(q)).max(1.0);
        let (mut lo, mut hi, mut nan) = (v, v, v.is_nan());
        let mut see = |p: P3| {
            let w = self.at(n, p);
            if w.is_nan() {
                nan = true;
            } else {
                lo = lo.min(w);
                hi = hi.max(w);
            }
        };
        for i in 0..3 {
            for s in [-d, d] {
                let mut p = q;
                p[i] += s;
                see(p);
            }
        }
        for c in 0..8 {
            let s = |b: usize| if c >> b & 1 == 1 { d } else { -d };
            see([q[0] + s(0), q[1] + s(1), q[2] + s(2)]);
        }
        if nan { (v, f64::NAN) } else { (v, hi - lo) }
    }
}

/// Outcome of comparing an observed value with the model value
fn value_ok(got: f64, want: f64, spread: f64) -> Option<bool> {
    if !want.is_finite() || !spread.is_finite() || spread > 0.05 * want.abs().max(1.0) {
        return None; // ill-conditioned sample (discontinuity, overflow)
    }
    let tol = VAL_TOL * want.abs().max(1.0) + 2.0 * spread;
    Some((got - want).abs() <= tol)
}

/// Error relative to the tolerance (diagnostic for the tolerance headroom)
fn value_ratio(got: f64, want: f64, spread: f64) -> f64 {
    (got - want).abs() / (VAL_TOL * want.abs().max(1.0) + 2.0 * spread)
}

////////////////////////////////////////////////////////////////////////////////
// per-case bookkeeping

struct Cx<'a> {
    case: u64,
    st: &'a mut Stats,
    kind: &'static str,
    sigs: Vec<String>,
    judged: u64,
}

impl Cx<'_> {
    fn judged(&mut self) {
        self.judged += 1;
    }
    fn skip(&mut self, why: &str) {
        self.st.inc(&format!("skipped_{why}"));
        self.st.inc(&format!("skipped_in_{}", self.kind));
    }
    /// Reports at most one witness per signature and case
    fn bad(&mut self, sig: &str, summary: String, detail: Value) {
        self.bad_keyed(sig, sig, summary, detail)
    }
    /// Same, but one witness per `key` (several manifestations of one
    /// signature)
    fn bad_keyed(&mut self, key: &str, sig: &str, summary: String, detail: Value) {
        self.st.inc("bad_points");
        if self.sigs.iter().any(|s| s == key) {
            return;
        }
        self.sigs.push(key.to_string());
        self.st.violation(self.case, sig, summary, detail);
    }
    /// Sign test: `inside` from the model, `v` from fidget
    fn sign(&mut self, sig: &str, inside: bool, margin: f64, v: f64, detail: impl FnOnce() -> Value) {
        if margin.abs() < SIGN_EPS || (v.abs() < SIGN_EPS && !v.is_nan()) {
            self.skip("near_surface");
            return;
        }
        self.judged();
        let ok = if inside { v < 0.0 } else { v > 0.0 };
        if !ok {
            let kind = self.kind;
            self.bad(
                sig,
                format!(
                    "{kind}: point is {} the documented solid but the fidget value is {v:e}",
                    if inside { "inside" } else { "outside" }
                ),
                detail(),
            );
        }
    }
}

////////////////////////////////////////////////////////////////////////////////
// primitives

#[derive(Clone, Debug)]
enum Prim {
    Circle { c: [f32; 2], r: f32 },
    Rectangle { lo: [f32; 2], hi: [f32; 2] },
    Sphere { c: [f32; 3], r: f32 },
    Box { lo: [f32; 3], hi: [f32; 3] },
}

impl Prim {
    fn random(rng: &mut Rng, name: &str) -> Prim {
        let c = coord3(rng);
        let h = [radius(rng), radius(rng), radius(rng)];
        let lo = [c[0] - h[0], c[1] - h[1], c[2] - h[2]];
        let hi = [c[0] + h[0], c[1] + h[1], c[2] + h[2]];
        match name {
            "Circle" => Prim::Circle { c: [c[0], c[1]], r: h[0] },
            "Rectangle" => Prim::Rectangle { lo: [lo[0], lo[1]], hi: [hi[0], hi[1]] },
            "Sphere" => Prim::Sphere { c, r: h[0] },
            "Box" => Prim::Box { lo, hi },
            _ => unreachable!(),
        }
    }
    fn tree(&self) -> Tree {
        match self.clone() {
            Prim::Circle { c, r } => {
                fs::Circle { center: Vec2::new(c[0], c[1]), radius: r }.into()
            }
            Prim::Rectangle { lo, hi } => fs::Rectangle {
                lower: Vec2::new(lo[0], lo[1]),
                upper: Vec2::new(hi[0], hi[1]),
            }
            .into(),
            Prim::Sphere { c, r } => fs::Sphere { center: v3(c), radius: r }.into(),
            Prim::Box { lo, hi } => fs::Box { lower: v3(lo), upper: v3(hi) }.into(),
        }
    }
    fn desc(&self) -> Value {
        match self {
            Prim::Circle { c, r } => json!({"Circle": {"center": c, "radius": r}}),
            Prim::Rectangle { lo, hi } => json!({"Rectangle": {"lower": lo, "upper": hi}}),
            Prim::Sphere { c, r } => json!({"Sphere": {"center": c, "radius": r}}),
            Prim::Box { lo, hi } => json!({"Box": {"lower": lo, "upper": hi}}),
        }
    }
    fn dims(&self) -> usize {
        match self {
            Prim::Circle { .. } | Prim::Rectangle { .. } => 2,
            _ => 3,
        }
    }
    /// (point is strictly inside the named solid, distance-like margin to
    /// its surface)
    fn classify(&self, p: P3) -> (bool, f64) {
        let ball = |c: &[f32], r: f32| {
            let mut d2 = 0.0;
            for i in 0..c.len() {
                d2 += (p[i] - c[i] as f64).powi(2);
            }
            let d = d2.sqrt();
            (d < r as f64, (d - r as f64).abs())
        };
        let brick = |lo: &[f32], hi: &[f32]| {
            let mut inside = true;
            let mut nearest_face = f64::INFINITY;
            let mut worst_excess = 0.0f64;
            for i in 0..lo.len() {
                let (l, h) = (lo[i] as f64, hi[i] as f64);
                inside &= l < p[i] && p[i] < h;
                nearest_face = nearest_face.min((p[i] - l).abs()).min((h - p[i]).abs());
                worst_excess = worst_excess.max(l - p[i]).max(p[i] - h);
            }
            (inside, if inside { nearest_face } else { worst_excess })
        };
        match self {
            Prim::Circle { c, r } => ball(c, *r),
            Prim::Sphere { c, r } => ball(c, *r),
            Prim::Rectangle { lo, hi } => brick(lo, hi),
            Prim::Box { lo, hi } => brick(lo, hi),
        }
    }
    /// A sample point at signed distance `e` from the surface (roughly)
    fn near_surface(&self, rng: &mut Rng, e: f64) -> P3 {
        let n = self.dims();
        let p = match self {
            Prim::Circle { c, r } => {
                let t = rng.uniform(0.0, std::f64::consts::TAU);
                let d = *r as f64 + e;
                [c[0] as f64 + d * t.cos(), c[1] as f64 + d * t.sin(), 0.0]
            }
            Prim::Sphere { c, r } => add(f3(*c), mul(dir(rng), *r as f64 + e)),
            Prim::Rectangle { .. } | Prim::Box { .. } => {
                let (lo, hi): (Vec<f32>, Vec<f32>) = match self {
                    Prim::Rectangle { lo, hi } => (lo.to_vec(), hi.to_vec()),
                    Prim::Box { lo, hi } => (lo.to_vec(), hi.to_vec()),
                    _ => unreachable!(),
                };
                let mut p = [0.0; 3];
                for i in 0..n {
                    let (l, h) = (lo[i] as f64, hi[i] as f64);
                    let w = h - l;
                    p[i] = if rng.chance(0.75) {
                        rng.uniform(l, h)
                    } else {
                        rng.uniform(l - 0.4 * w, h + 0.4 * w)
                    };
                }
                let i = rng.below(n);
                p[i] = if rng.chance(0.5) { lo[i] as f64 - e } else { hi[i] as f64 + e };
                p
            }
        };
        round32(p)
    }
}

fn check_primitive(cx: &mut Cx, rng: &mut Rng, name: &str) -> Value {
    let prim = Prim::random(rng, name);
    let mut ev = Ev::new();
    let n = ev.import(&prim.tree());
    for i in 0..48 {
        let mut p = if i % 2 == 0 {
            point(rng, 7.0)
        } else {
            let e = *rng.pick(&NEAR) * if rng.chance(0.5) { -1.0 } else { 1.0 };
            prim.near_surface(rng, e)
        };
        if prim.dims() == 2 {
            // the documentation defines 2D shapes in the XY plane only
            p[2] = 0.0;
        }
        let (inside, margin) = prim.classify(p);
        let v = ev.at(n, p);
        cx.sign(&format!("{name}:sign"), inside, margin, v, || {
            json!({"shape": prim.desc(), "point": p, "model_inside": inside,
                   "model_margin": margin, "fidget_value": v})
        });
    }
    prim.desc()
}

fn check_plane(cx: &mut Cx, rng: &mut Rng) -> Value {
    let (v, off) = (axis_vec(rng), coord(rng));
    let a = unit(f3(v));
    let plane = Plane { axis: axis_from(v), offset: off };
    let desc = json!({"Plane": {"axis_from_vec3": v, "offset": off}});
    let mut ev = Ev::new();
    let n = ev.import(&plane.into());
    // orthonormal frame of the plane
    let helper = if a[0].abs() < 0.6 { [1.0, 0.0, 0.0] } else { [0.0, 1.0, 0.0] };
    let u = unit(cross(a, helper));
    let w = cross(a, u);
    for i in 0..32 {
        let on = add(
            mul(a, off as f64),
            add(mul(u, rng.uniform(-5.0, 5.0)), mul(w, rng.uniform(-5.0, 5.0))),
        );
        if i % 2 == 0 {
            // points of the plane `axis . p = offset` are on the surface
            let p = round32(on);
            let val = ev.at(n, p);
            cx.judged();
            if !(val.abs() <= VAL_TOL * linf(p).max(1.0)) {
                cx.bad(
                    "Plane:zero_set",
                    format!("Plane: a point of the plane axis.p = offset evaluates to {val:e}"),
                    json!({"shape": desc, "point_on_plane": p, "fidget_value": val}),
                );
            }
        } else {
            // mirror images lie on opposite sides
            let h = *rng.pick(&NEAR[1..]);
            let (p1, p2) = (round32(add(on, mul(a, h))), round32(sub(on, mul(a, h))));
            let (v1, v2) = (ev.at(n, p1), ev.at(n, p2));
            cx.judged();
            if !(v1 * v2 < 0.0) {
                cx.bad(
                    "Plane:sides",
                    format!("Plane: two points at +-{h} from the plane along its axis are not on opposite sides ({v1:e}, {v2:e})"),
                    json!({"shape": desc, "points": [p1, p2], "fidget_values": [v1, v2]}),
                );
            }
        }
    }
    desc
}

////////////////////////////////////////////////////////////////////////////////
// CSG

fn child(rng: &mut Rng, flat: bool, used: &mut Vec<&'static str>) -> Shape {
    let depth = rng.below(4) as u32;
    gen_shape(rng, depth, flat, used)
}

fn check_csg(cx: &mut Cx, rng: &mut Rng, name: &str, used: &mut Vec<&'static str>) -> Value {
    let n_args = match name {
        "Union" | "Intersection" => {
            if rng.chance(0.08) { 0 } else { 1 + rng.below(5) }
        }
        "Difference" => 2,
        "Inverse" => 1,
        _ => unreachable!(),
    };
    // 25% of the reductions are wide (6..=24 inputs: the balanced reduction
    // has odd levels only from 6 inputs on): small spheres at distinct
    // centres for a union, their complements for an intersection, and every
    // centre is a sample point - only input i decides the sign there
    let mut centres: Vec<P3> = vec![];
    let wide = matches!(name, "Union" | "Intersection") && rng.chance(0.25);
    let n_args = if wide { 6 + rng.below(19) } else { n_args };
    let args: Vec<Shape> = if wide {
        cx.st.inc("wide_reductions");
        (0..n_args)
            .map(|i| {
                // one cell of a 3x3x3 grid of pitch 2 per input (jittered)
                let cell = [(i % 3) as f64 - 1.0, ((i / 3) % 3) as f64 - 1.0, ((i / 9) % 3) as f64 - 1.0];
                let c = round32([
                    2.0 * cell[0] + rng.uniform(-0.4, 0.4),
                    2.0 * cell[1] + rng.uniform(-0.4, 0.4),
                    2.0 * cell[2] + rng.uniform(-0.4, 0.4),
                ]);
                let r = (rng.uniform(0.2, 0.5) as f32) as f64;
                centres.push(c);
                let cf = [c[0] as f32, c[1] as f32, c[2] as f32];
                let sphere: Tree = fs::Sphere { center: v3(cf), radius: r as f32 }.into();
                let d = json!({"Sphere": {"center": c, "radius": r}});
                if name == "Union" {
                    Shape { tree: sphere, desc: d }
                } else {
                    Shape { tree: fs::Inverse { shape: sphere }.into(), desc: json!({"Inverse": {"shape": d}}) }
                }
            })
            .collect()
    } else {
        (0..n_args).map(|_| child(rng, false, used)).collect()
    };
    // operands that repeat or contain other operands of the same list (the
    // same tree handles): a shape clipped twice by the same bound, a hole
    // cut twice, a list entry given twice, an empty list as an operand.
    // Boolean algebra does not care; rewrites on the min/max graph might
    let mut args = args;
    if !wide && !args.is_empty() && name != "Inverse" && rng.chance(0.35) {
        cx.st.inc("csg_cases_with_repeated_or_nested_operands");
        let pick = |rng: &mut Rng, args: &Vec<Shape>| {
            let s = &args[rng.below(args.len())];
            (s.tree.clone(), s.desc.clone())
        };
        for _ in 0..1 + rng.below(2) {
            let (a, ad) = pick(rng, &args);
            let (b, bd) = pick(rng, &args);
            let derived = match rng.below(7) {
                0 => Shape { tree: a, desc: ad },
                1 => Shape { tree: fs::Union { input: vec![a, b] }.into(), desc: json!({"Union": {"input": [ad, bd]}}) },
                2 => Shape { tree: fs::Intersection { input: vec![a, b] }.into(), desc: json!({"Intersection": {"input": [ad, bd]}}) },
                3 => Shape { tree: fs::Difference { shape: a, cutout: b }.into(), desc: json!({"Difference": {"shape": ad, "cutout": bd}}) },
                4 => Shape { tree: fs::Union { input: vec![] }.into(), desc: json!({"Union": {"input": []}}) },
                5 => Shape { tree: fs::Intersection { input: vec![] }.into(), desc: json!({"Intersection": {"input": []}}) },
                _ => Shape { tree: fs::Inverse { shape: a }.into(), desc: json!({"Inverse": {"shape": ad}}) },
            };
            if name == "Difference" {
                // the derived operand replaces the shape or the cutout
                let k = rng.below(2);
                args[k] = derived;
            } else {
                let at = rng.below(args.len() + 1);
                args.insert(at, derived);
            }
        }
    }
    let n_args = args.len();
    let trees: Vec<Tree> = args.iter().map(|s| s.tree.clone()).collect();
    let descs: Vec<Value> = args.iter().map(|s| s.desc.clone()).collect();
    let (tree, desc): (Tree, Value) = match name {
        "Union" => (fs::Union { input: trees.clone() }.into(), json!({"Union": {"input": descs}})),
        "Intersection" => (
            fs::Intersection { input: trees.clone() }.into(),
            json!({"Intersection": {"input": descs}}),
        ),
        "Difference" => (
            fs::Difference { shape: trees[0].clone(), cutout: trees[1].clone() }.into(),
            json!({"Difference": {"shape": descs[0], "cutout": descs[1]}}),
        ),
        _ => (
            fs::Inverse { shape: trees[0].clone() }.into(),
            json!({"Inverse": {"shape": descs[0]}}),
        ),
    };
    let mut ev = Ev::new();
    let nt = ev.import(&tree);
    let na: Vec<Node> = trees.iter().map(|t| ev.import(t)).collect();
    for k in 0..48 + centres.len() {
        let p = if k < centres.len() { centres[k] } else { point(rng, 6.0) };
        let v = ev.at(nt, p);
        if n_args == 0 {
            // documented: empty union is empty (+inf), empty intersection
            // is full (-inf)
            let want = if name == "Union" { f64::INFINITY } else { f64::NEG_INFINITY };
            cx.judged();
            cx.st.inc("empty_reductions_checked");
            if v != want {
                cx.bad(
                    &format!("{name}:empty"),
                    format!("{name} of no shapes evaluates to {v:e}, documented {want}"),
                    json!({"shape": desc, "point": p, "fidget_value": v}),
                );
            }
            continue;
        }
        let a: Vec<f64> = na.iter().map(|n| ev.at(*n, p)).collect();
        if a.iter().any(|x| x.is_nan()) {
            cx.skip("argument_nan");
            continue;
        }
        let ins: Vec<bool> = a.iter().map(|x| *x < 0.0).collect();
        let inside = match name {
            "Union" => ins.iter().any(|b| *b),
            "Intersection" => ins.iter().all(|b| *b),
            "Difference" => ins[0] && !ins[1],
            _ => !ins[0],
        };
        let margin = a.iter().fold(f64::INFINITY, |m, x| m.min(x.abs()));
        cx.sign(&format!("{name}:sign_algebra"), inside, margin, v, || {
            json!({"shape": desc, "point": p, "argument_values": a,
                   "model_inside": inside, "fidget_value": v})
        });
    }
    desc
}

fn check_blend(cx: &mut Cx, rng: &mut Rng, used: &mut Vec<&'static str>) -> Value {
    let (a, b) = (child(rng, false, used), child(rng, false, used));
    let r = radius(rng);
    let desc = json!({"Blend": {"radius": r, "a": a.desc, "b": b.desc}});
    let tree: Tree = fs::Blend { a: a.tree.clone(), b: b.tree.clone(), radius: r }.into();
    let mut ev = Ev::new();
    let (nt, na, nb) = (ev.import(&tree), ev.import(&a.tree), ev.import(&b.tree));
    let r = r as f64;
    for _ in 0..48 {
        let p = point(rng, 6.0);
        let (v, va, vb) = (ev.at(nt, p), ev.at(na, p), ev.at(nb, p));
        if !(va.is_finite() && vb.is_finite()) {
            cx.skip("argument_nan");
            continue;
        }
        let m = va.min(vb);
        let tol = VAL_TOL * m.abs().max(1.0);
        let d = (va - vb).abs();
        let detail = || {
            json!({"shape": desc, "point": p, "a": va, "b": vb, "min": m,
                   "abs_a_minus_b": d, "fidget_value": v})
        };
        cx.judged();
        if !(v <= m + tol) {
            cx.bad("Blend:above_min", format!("Blend value {v:e} is larger than min(a, b) = {m:e}"), detail());
        } else if !(v >= m - r / 4.0 - tol) {
            cx.bad(
                "Blend:below_bound",
                format!("Blend value {v:e} is more than radius/4 below min(a, b) = {m:e}"),
                detail(),
            );
        } else if d >= r * 1.001 + SIGN_EPS {
            cx.st.inc("blend_points_outside_radius");
            if !((v - m).abs() <= tol) {
                cx.bad(
                    "Blend:not_min_outside_radius",
                    format!("Blend value {v:e} differs from min(a, b) = {m:e} although |a - b| = {d:e} exceeds the radius {r}"),
                    detail(),
                );
            }
        } else {
            cx.st.inc("blend_points_inside_radius");
        }
    }
    desc
}

////////////////////////////////////////////////////////////////////////////////
// point transforms: T(s)(p) == s(T^-1 p)

fn check_xf(cx: &mut Cx, rng: &mut Rng, name: &str, used: &mut Vec<&'static str>) -> Value {
    let s = child(rng, false, used);
    let mut ev = Ev::new();
    let ns = ev.import(&s.tree);
    if name == "ReflectXY" && rng.chance(0.3) {
        // a non-zero offset has no documented position; a reflection is
        // still its own inverse
        let off = coord(rng);
        let once: Tree = fs::ReflectXY { shape: s.tree.clone(), offset: off }.into();
        let twice: Tree = fs::ReflectXY { shape: once, offset: off }.into();
        let desc = json!({"ReflectXY": {"offset": off, "shape": {"ReflectXY": {"offset": off, "shape": s.desc}}}});
        let nt = ev.import(&twice);
        for _ in 0..32 {
            let p = point(rng, 6.0);
            let got = ev.at(nt, p);
            let (want, spread) = ev.around(ns, p, 6.0 + 2.0 * (off as f64).abs());
            match value_ok(got, want, spread) {
                None => cx.skip("ill_conditioned"),
                Some(ok) => {
                    cx.judged();
                    cx.st.inc("reflect_xy_involution_points");
                    if !ok {
                        cx.bad(
                            "ReflectXY:involution",
                            format!("reflecting twice about the same line does not give the shape back: {got:e} vs {want:e}"),
                            json!({"shape": desc, "point": p, "fidget_value": got, "original_shape_value": want}),
                        );
                    }
                }
            }
        }
        return desc;
    }
    let xf = Xf::random(rng, name, true, false);
    let desc = wrap(name, xf.desc(), vec![("shape", s.desc.clone())]);
    let nt = ev.import(&xf.apply(s.tree.clone()));
    for i in 0..40 {
        let p = if i % 2 == 0 {
            point(rng, 6.0)
        } else {
            round32(xf.map(point(rng, 5.0), false))
        };
        if !(linf(p) < 200.0) {
            cx.skip("far_point");
            continue;
        }
        let q = xf.map(p, true);
        // harness self-check of the model maps
        let back = xf.map(q, false);
        if norm(sub(back, p)) > 1e-9 * linf(p).max(linf(q)).max(1.0) {
            cx.st.inconclusive.push(format!(
                "harness: model maps of {name} are not inverse to each other ({:?})",
                xf
            ));
            return desc;
        }
        let got = ev.at(nt, p);
        // (a far rotation centre is subtracted and added back in f32)
        let (want, spread) = ev.around(ns, q, linf(p).max(xf.centre_magnitude() * 0.01));
        match value_ok(got, want, spread) {
            None => cx.skip("ill_conditioned"),
            Some(ok) => {
                cx.judged();
                cx.st.max("value_abs_error_point_transforms", (got - want).abs());
                if ok {
                    cx.st.max("largest_accepted_error_over_tolerance", value_ratio(got, want, spread));
                }
                if !ok {
                    cx.bad(
                        &format!("{name}:value"),
                        format!("{name}(s)(p) = {got:e} but s(T^-1 p) = {want:e}"),
                        json!({"shape": desc, "p": p, "model_T_inverse_p": q,
                               "fidget_value_at_p": got,
                               "argument_value_at_T_inverse_p": want,
                               "argument_spread_near_T_inverse_p": spread}),
                    );
                }
            }
        }
    }
    // the argument is imported into a context, the context is cleared, and
    // the transformed shape - which shares the argument's tree - is imported
    // into the same context: it must evaluate as in a new context
    if rng.chance(0.25) {
        let mut ctx = Context::new();
        let _ = ctx.import(&s.tree);
        let _ = ctx.import(&xf.apply(s.tree.clone()));
        ctx.clear();
        let again = guarded(|| {
            let n = ctx.import(&xf.apply(s.tree.clone()));
            (0..12)
                .map(|_| {
                    let p = point(rng, 5.0);
                    (p, ctx.eval_xyz(n, p[0] as f32, p[1] as f32, p[2] as f32).map(|v| v as f64))
                })
                .collect::<Vec<_>>()
        });
        cx.st.inc("reimports_after_clear");
        match again {
            Ok(vals) => {
                for (p, v) in vals {
                    let fresh = ev.at(nt, p);
                    match v {
                        Ok(v) if v.to_bits() == fresh.to_bits() || (v.is_nan() && fresh.is_nan()) => {}
                        other => {
                            cx.bad(
                                &format!("{name}:reimport_after_clear"),
                                format!("imported again into a cleared context the shape evaluates to {other:?}, in a new context to {fresh:e}"),
                                json!({"shape": desc, "p": p}),
                            );
                            break;
                        }
                    }
                }
            }
            Err(pi) => cx.bad(&format!("{name}:reimport_after_clear"), format!("import into a cleared context panicked: {}", pi.msg), json!({"shape": desc})),
        }
    }
    // extreme magnitudes: scale factors far outside [0.1, 10] (a model in
    // micrometres placed in a scene in kilometres), alone or as a nest of
    // two scales (which the builder flattens into one matrix). The sample
    // points are images of ordinary points of the argument, so T^-1 p is
    // an ordinary point and only the factors are extreme
    if (name == "Scale" || name == "ScaleUniform") && rng.chance(0.5) {
        let extreme = |rng: &mut Rng, lo: f64, hi: f64| -> f32 {
            let m = rng.uniform(lo.ln(), hi.ln()).exp();
            let m = if rng.chance(0.5) { m } else { 1.0 / m };
            (if rng.chance(0.3) { -m } else { m }) as f32
        };
        let make = |rng: &mut Rng, uniform: bool, lo: f64, hi: f64| -> Xf {
            if uniform {
                Xf::ScaleUniform(extreme(rng, lo, hi))
            } else if rng.chance(0.5) {
                // the same order of magnitude on every axis
                let k = extreme(rng, lo, hi);
                Xf::Scale([k, k * rng.uniform(0.5, 2.0) as f32, -k * rng.uniform(0.5, 2.0) as f32])
            } else {
                Xf::Scale([extreme(rng, lo, hi), extreme(rng, lo, hi), extreme(rng, lo, hi)])
            }
        };
        let outer = make(rng, name == "ScaleUniform", 1e2, 1e9);
        let inner_uniform = rng.chance(0.5);
        let inner = if rng.chance(0.5) { Some(make(rng, inner_uniform, 1e1, 1e5)) } else { None };
        let arg = match &inner {
            Some(i) => i.apply(s.tree.clone()),
            None => s.tree.clone(),
        };
        let edesc = json!({"outer": wrap(outer.name(), outer.desc(), vec![]), "inner": inner.as_ref().map(|i| wrap(i.name(), i.desc(), vec![])), "shape": s.desc.clone()});
        let ne = ev.import(&outer.apply(arg));
        cx.st.inc("extreme_scale_constructions");
        for _ in 0..24 {
            let base = point(rng, 5.0);
            let fwd = |b: P3| {
                let b = match &inner {
                    Some(i) => i.map(b, false),
                    None => b,
                };
                outer.map(b, false)
            };
            let p = round32(fwd(base));
            if !p.iter().all(|c| c.is_finite() && (*c == 0.0 || c.abs() > 1e-30)) {
                cx.skip("extreme_scale_out_of_f32_range");
                continue;
            }
            let q = {
                let b = outer.map(p, true);
                match &inner {
                    Some(i) => i.map(b, true),
                    None => b,
                }
            };
            let got = ev.at(ne, p);
            let (want, spread) = ev.around(ns, q, 1.0);
            match value_ok(got, want, spread) {
                None => cx.skip("ill_conditioned"),
                Some(ok) => {
                    cx.judged();
                    cx.st.inc("extreme_scale_points");
                    if !ok {
                        cx.bad(
                            &format!("{name}:extreme_factor_value"),
                            format!("scale by extreme factors: T(s)(p) = {got:e} but s(T^-1 p) = {want:e}"),
                            json!({"construction": edesc, "p": p, "model_T_inverse_p": q, "fidget_value_at_p": got,
                                   "argument_value_at_T_inverse_p": want, "argument_spread_near_T_inverse_p": spread}),
                        );
                    }
                }
            }
        }
    }
    // step and repeat: the transformed shape T(s) is used bare and also,
    // as the same tree (shared allocation), inside a second application of
    // the same transform: union[T(union[s, T(s)]), T(s)] is the solid
    // T(s) + T(T(s)), whatever the order of the inputs
    if rng.chance(0.35) {
        let a = xf.apply(s.tree.clone());
        let mut inner = vec![s.tree.clone(), a.clone()];
        if rng.chance(0.5) {
            inner.reverse();
        }
        let b = xf.apply(fs::Union { input: inner }.into());
        let mut outer = vec![b, a.clone()];
        if rng.chance(0.5) {
            outer.reverse();
        }
        let rep: Tree = fs::Union { input: outer }.into();
        let nr = ev.import(&rep);
        cx.st.inc("step_and_repeat_constructions");
        for i in 0..32 {
            // points near either copy
            let base = point(rng, 4.0);
            let p = round32(if i % 2 == 0 { xf.map(base, false) } else { xf.map(xf.map(base, false), false) });
            if !(linf(p) < 200.0) {
                cx.skip("far_point");
                continue;
            }
            let (q1, q2) = (xf.map(p, true), xf.map(xf.map(p, true), true));
            let got = ev.at(nr, p);
            let (w1, w2) = (ev.at(ns, q1), ev.at(ns, q2));
            if w1.is_nan() || w2.is_nan() {
                cx.skip("argument_nan");
                continue;
            }
            // the model points are exact only up to f32 rounding of the
            // transform: require a margin well above that
            let margin = w1.abs().min(w2.abs());
            if margin < 1e-3 * (1.0 + linf(p)) {
                cx.skip("near_surface");
                continue;
            }
            let inside = w1 < 0.0 || w2 < 0.0;
            cx.sign(&format!("{name}:step_and_repeat"), inside, margin, got, || {
                json!({"construction": "union[T(union[s, T(s)]), T(s)] with T(s) one shared tree", "transform": desc, "p": p,
                       "s_at_Tinv_p": w1, "s_at_Tinv_Tinv_p": w2, "fidget_value": got})
            });
        }
    }
    desc
}

fn check_repeat(cx: &mut Cx, rng: &mut Rng, used: &mut Vec<&'static str>) -> Value {
    let flat = rng.chance(0.3);
    let s = child(rng, flat, used);
    let (r, off) = (radius(rng), coord(rng));
    let desc = json!({"RepeatX": {"radius": r, "offset": off, "shape": s.desc}});
    let tree: Tree = fs::RepeatX { shape: s.tree.clone(), radius: r, offset: off }.into();
    let mut ev = Ev::new();
    let (nt, ns) = (ev.import(&tree), ev.import(&s.tree));
    let (r, off) = (r as f64, off as f64);
    let period = 2.0 * r;
    for i in 0..48 {
        // copy number k; k = 0 is the documented base region
        let k = if i % 3 == 0 { 0 } else { rng.range(-4, 4) };
        let xb = rng.uniform(off - r, off + r);
        let mut p = point(rng, 5.0);
        p[0] = xb + k as f64 * period;
        let p = round32(p);
        let xb = p[0] - k as f64 * period;
        let edge = (xb - (off - r)).min(off + r - xb);
        if edge < 1e-3 * (1.0 + p[0].abs()) {
            cx.skip("repeat_seam");
            continue;
        }
        let got = ev.at(nt, p);
        let (want, spread) = ev.around(ns, [xb, p[1], p[2]], linf(p));
        match value_ok(got, want, spread) {
            None => cx.skip("ill_conditioned"),
            Some(ok) => {
                cx.judged();
                cx.st.inc(if k == 0 { "repeat_base_points" } else { "repeat_copy_points" });
                if !ok {
                    cx.bad(
                        if k == 0 { "RepeatX:base_region" } else { "RepeatX:period" },
                        format!("RepeatX: copy {k} at x = {} evaluates to {got:e}, the shape at the base position x = {xb} to {want:e}", p[0]),
                        json!({"shape": desc, "p": p, "copy": k, "period_2_radius": period,
                               "base_position": [xb, p[1], p[2]], "fidget_value": got,
                               "argument_value_at_base_position": want}),
                    );
                }
            }
        }
    }
    desc
}

fn check_revolve(cx: &mut Cx, rng: &mut Rng, used: &mut Vec<&'static str>) -> Value {
    let s = child(rng, true, used);
    let off = if rng.chance(0.4) { 0.0 } else { coord(rng) };
    let desc = json!({"RevolveY": {"offset": off, "shape": s.desc}});
    let tree: Tree = fs::RevolveY { shape: s.tree.clone(), offset: off }.into();
    let mut ev = Ev::new();
    let (nt, ns) = (ev.import(&tree), ev.import(&s.tree));
    let o = off as f64;
    let tag = if off == 0.0 { "" } else { "offset_" };
    for _ in 0..32 {
        let rho = rng.uniform(0.05, 5.0);
        let y = rng.uniform(-5.0, 5.0);
        // profile half-plane z = 0, x >= offset
        let pp = round32([o + rho, y, 0.0]);
        let rho = pp[0] - o;
        if rho < 0.01 {
            cx.skip("revolve_axis");
            continue;
        }
        let vp = ev.at(nt, pp);
        let (want, spread) = ev.around(ns, pp, linf(pp));
        // diagnosis helpers: what the observation would be under
        // recognisable alternative readings
        let alt = |ev: &Ev, p: P3| {
            json!({
                "documented: s(offset + hypot(x - offset, z), y)":
                    ev.at(ns, [o + (p[0] - o).hypot(p[2]), p[1], 0.0]),
                "radius from x,z about x = -offset":
                    ev.at(ns, [(p[0] + o).hypot(p[2]) - o, p[1], 0.0]),
                "radius from x,y about x = -offset":
                    ev.at(ns, [(p[0] + o).hypot(p[1]) - o, p[1], 0.0]),
            })
        };
        match value_ok(vp, want, spread) {
            None => cx.skip("ill_conditioned"),
            Some(ok) => {
                cx.judged();
                cx.st.inc("revolve_profile_points");
                if !ok {
                    cx.bad(
                        &format!("RevolveY:{tag}profile"),
                        format!("RevolveY: on the half-plane z = 0, x > offset the solid has value {vp:e}, the revolved profile {want:e}"),
                        json!({"shape": desc, "p": pp, "fidget_value": vp, "profile_value": want,
                               "readings": alt(&ev, pp)}),
                    );
                }
            }
        }
        // rotational symmetry about the vertical line x = offset, z = 0
        let phi = rng.uniform(0.0, std::f64::consts::TAU);
        let pr = round32([o + rho * phi.cos(), y, rho * phi.sin()]);
        let vr = ev.at(nt, pr);
        let (_, spread) = ev.around(nt, pp, linf(pp));
        match value_ok(vr, vp, spread) {
            None => cx.skip("ill_conditioned"),
            Some(ok) => {
                cx.judged();
                cx.st.inc("revolve_symmetry_points");
                if !ok {
                    cx.bad(
                        &format!("RevolveY:{tag}symmetry"),
                        format!("RevolveY: value {vr:e} at a point differs from {vp:e} at the same point rotated about the vertical line x = offset"),
                        json!({"shape": desc, "p": pr, "fidget_value_at_p": vr,
                               "p_rotated_into_profile_half_plane": pp,
                               "fidget_value_there": vp, "rotation_deg": phi.to_degrees(),
                               "readings_at_p": alt(&ev, pr)}),
                    );
                }
            }
        }
    }
    desc
}

fn slab_z(rng: &mut Rng, lo: f64, hi: f64) -> f64 {
    let h = hi - lo;
    match rng.below(4) {
        0 => rng.uniform(lo, hi),
        1 => rng.uniform(lo - 1.0 - h, hi + 1.0 + h),
        _ => {
            let e = *rng.pick(&NEAR[..4]) * if rng.chance(0.5) { -1.0 } else { 1.0 };
            (if rng.chance(0.5) { lo } else { hi }) + e
        }
    }
}

fn check_extrude(cx: &mut Cx, rng: &mut Rng, used: &mut Vec<&'static str>) -> Value {
    // (30%: an argument that is not z-independent, e.g. a 2D shape tilted
    // about X or Y - the "XY shape" that is extruded is then its z = 0
    // cross-section, the only reading under which the term is defined)
    let flat = !rng.chance(0.3);
    if !flat {
        cx.st.inc("extrude_or_loft_of_non_flat_arguments");
    }
    let s = child(rng, flat, used);
    let (lo, h) = (coord(rng), radius(rng));
    let hi = lo + h;
    let desc = json!({"ExtrudeZ": {"lower": lo, "upper": hi, "shape": s.desc}});
    let tree: Tree = fs::ExtrudeZ { shape: s.tree.clone(), lower: lo, upper: hi }.into();
    let mut ev = Ev::new();
    let (nt, ns) = (ev.import(&tree), ev.import(&s.tree));
    let (lo, hi) = (lo as f64, hi as f64);
    for _ in 0..48 {
        let mut p = point(rng, 5.0);
        p[2] = slab_z(rng, lo, hi);
        let p = round32(p);
        let prof = ev.at(ns, [p[0], p[1], 0.0]);
        if prof.is_nan() {
            cx.skip("argument_nan");
            continue;
        }
        let in_slab = lo < p[2] && p[2] < hi;
        let inside = prof < 0.0 && in_slab;
        let margin = prof.abs().min((p[2] - lo).abs()).min((p[2] - hi).abs());
        let v = ev.at(nt, p);
        cx.st.inc(if in_slab { "extrude_points_in_slab" } else { "extrude_points_outside_slab" });
        cx.sign("ExtrudeZ:sign", inside, margin, v, || {
            json!({"shape": desc, "point": p, "profile_value_at_xy": prof,
                   "z_within_bounds": in_slab, "model_inside": inside, "fidget_value": v})
        });
    }
    desc
}

fn check_loft(cx: &mut Cx, rng: &mut Rng, used: &mut Vec<&'static str>) -> Value {
    let flat = !rng.chance(0.3);
    if !flat {
        cx.st.inc("extrude_or_loft_of_non_flat_arguments");
    }
    let (a, b) = (child(rng, flat, used), child(rng, flat, used));
    let (lo, h) = (coord(rng), radius(rng));
    let hi = lo + h;
    let desc = json!({"LoftZ": {"lower": lo, "upper": hi, "a": a.desc, "b": b.desc}});
    let tree: Tree =
        fs::LoftZ { a: a.tree.clone(), b: b.tree.clone(), lower: lo, upper: hi }.into();
    let mut ev = Ev::new();
    let (nt, na, nb) = (ev.import(&tree), ev.import(&a.tree), ev.import(&b.tree));
    let (lo, hi) = (lo as f64, hi as f64);
    let h = hi - lo;
    for i in 0..48 {
        let mut p = point(rng, 5.0);
        if i % 3 == 0 {
            // outside the slab: outside the loft
            let e = *rng.pick(&NEAR) + rng.uniform(0.0, 1.0) * (i % 2) as f64;
            p[2] = if rng.chance(0.5) { lo - e } else { hi + e };
            let p = round32(p);
            let margin = (lo - p[2]).max(p[2] - hi);
            let v = ev.at(nt, p);
            cx.st.inc("loft_points_outside_slab");
            cx.sign("LoftZ:slab", false, margin, v, || {
                json!({"shape": desc, "point": p, "fidget_value": v,
                       "note": "z is outside [lower, upper]"})
            });
            continue;
        }
        // just inside an end of the slab the cross-section is the end profile
        let lower_end = i % 3 == 1;
        p[2] = if lower_end { lo + 0.01 * h } else { hi - 0.01 * h };
        let p = round32(p);
        let (va, vb) = (ev.at(na, [p[0], p[1], 0.0]), ev.at(nb, [p[0], p[1], 0.0]));
        let (near, far) = if lower_end { (va, vb) } else { (vb, va) };
        if !(near.abs() >= 0.2 && far.abs() <= 10.0) {
            cx.skip("loft_end_undecided");
            continue;
        }
        let v = ev.at(nt, p);
        cx.st.inc("loft_end_profile_points");
        cx.sign(
            if lower_end { "LoftZ:lower_profile" } else { "LoftZ:upper_profile" },
            near < 0.0,
            near.abs().min(0.01 * h),
            v,
            || {
                json!({"shape": desc, "point": p, "a_at_xy": va, "b_at_xy": vb,
                       "end": if lower_end { "lower (a)" } else { "upper (b)" },
                       "fidget_value": v})
            },
        );
    }
    desc
}

////////////////////////////////////////////////////////////////////////////////
// named constants and axis normalisation

fn check_constants(cx: &mut Cx, rng: &mut Rng, used: &mut Vec<&'static str>) -> Value {
    // Axis::{X, Y, Z}
    for (i, (name, ax)) in [("X", Axis::X), ("Y", Axis::Y), ("Z", Axis::Z)].into_iter().enumerate() {
        let v = ax.vec();
        let got = [v.x, v.y, v.z];
        cx.judged();
        cx.st.set_insert("constants_checked", &format!("Axis::{name}"));
        if got != UNIT_AXES[i] {
            cx.bad(
                &format!("axis_const:{name}"),
                format!("Axis::{name} is {got:?}"),
                json!({"constant": format!("Axis::{name}"), "vector": got}),
            );
        }
    }
    // Plane::{XY, YZ, ZX}: contains both named axes and the origin
    let planes = [("XY", Plane::XY, 0usize, 1usize, 2usize), ("YZ", Plane::YZ, 1, 2, 0), ("ZX", Plane::ZX, 2, 0, 1)];
    let s = child(rng, false, used);
    for (name, plane, ia, ib, ic) in planes {
        let cname = format!("Plane::{name}");
        let sig = format!("plane_axis:{name}");
        cx.st.set_insert("constants_checked", &cname);
        let av = plane.axis.vec();
        let a = [av.x as f64, av.y as f64, av.z as f64];
        cx.judged();
        if a[ia].abs() > 1e-6 || a[ib].abs() > 1e-6 || plane.offset != 0.0 || !((norm(a) - 1.0).abs() < 1e-5) {
            cx.bad_keyed(
                &format!("{sig}:fields"),
                &sig,
                format!("{cname} has normal {a:?} and offset {}; it does not contain both named axes through the origin", plane.offset),
                json!({"constant": cname, "how": "fields", "axis": a, "offset": plane.offset}),
            );
        }
        let mut ev = Ev::new();
        let n = ev.import(&plane.into());
        for j in 0..12 {
            let mut p = point(rng, 5.0);
            if j % 2 == 0 {
                p[ic] = 0.0;
                let v = ev.at(n, p);
                cx.judged();
                if !(v.abs() <= 1e-5 * linf(p).max(1.0)) {
                    cx.bad_keyed(
                        &format!("{sig}:on"),
                        &sig,
                        format!("{cname}: the point {p:?} of the {name} plane evaluates to {v:e} instead of 0"),
                        json!({"constant": cname, "how": "Tree::from(plane) at a point of the named plane", "point": p, "fidget_value": v}),
                    );
                }
            } else {
                // the third axis pierces the plane
                let t = (0.1 + p[ic].abs()) * if p[ic] < 0.0 { -1.0 } else { 1.0 };
                let mut q = [0.0; 3];
                q[ic] = t;
                let q = round32(q);
                let v = ev.at(n, q);
                cx.judged();
                if !(v.abs() >= 1e-3) {
                    cx.bad_keyed(
                        &format!("{sig}:off"),
                        &sig,
                        format!("{cname}: the point {q:?} off the {name} plane evaluates to {v:e}"),
                        json!({"constant": cname, "how": "Tree::from(plane) at a point of the third axis", "point": q, "fidget_value": v}),
                    );
                }
            }
        }
        // reflecting about the named plane flips the third coordinate
        let tree: Tree = fs::Reflect { shape: s.tree.clone(), plane }.into();
        let (nt, ns) = (ev.import(&tree), ev.import(&s.tree));
        for _ in 0..12 {
            let p = point(rng, 5.0);
            let mut q = p;
            q[ic] = -q[ic];
            let got = ev.at(nt, p);
            let (want, spread) = ev.around(ns, q, linf(p));
            match value_ok(got, want, spread) {
                None => cx.skip("ill_conditioned"),
                Some(ok) => {
                    cx.judged();
                    if !ok {
                        cx.bad_keyed(
                            &format!("{sig}:reflect"),
                            &sig,
                            format!("Reflect about {cname}: value {got:e} at p differs from the shape's value {want:e} at p mirrored in the {name} plane"),
                            json!({"constant": cname, "how": "Reflect { plane }", "shape": s.desc,
                                   "p": p, "mirrored_p": q, "fidget_value": got, "argument_value_at_mirrored_p": want}),
                        );
                    }
                }
            }
        }
    }
    // Axis::try_from normalises ("Normalized 3D axis (of length 1)")
    for round in 0..16 {
        let mut d = dir(rng);
        if round % 4 == 3 {
            // exactly along a principal axis, either sign
            let i = rng.below(3);
            let s = if rng.chance(0.5) { 1.0 } else { -1.0 };
            d = [0.0; 3];
            d[i] = s;
        }
        let k = (10.0f64).powf(rng.uniform(-7.0, 7.0));
        let v = [(d[0] * k) as f32, (d[1] * k) as f32, (d[2] * k) as f32];
        let n = norm(f3(v));
        if !(n > 2e-8 && n < 5e7) {
            continue;
        }
        cx.judged();
        cx.st.inc("axis_normalisations");
        match Axis::try_from(v3(v)) {
            Ok(ax) => {
                let g = ax.vec();
                let g = [g.x as f64, g.y as f64, g.z as f64];
                let want = unit(f3(v));
                if !(norm(sub(g, want)) < 1e-5) {
                    cx.bad(
                        "Axis:normalise",
                        format!("Axis::try_from({v:?}) = {g:?}, expected the unit vector {want:?}"),
                        json!({"input": v, "axis": g, "expected": want}),
                    );
                }
            }
            Err(e) => cx.bad(
                "Axis:normalise",
                format!("Axis::try_from({v:?}) failed for a vector of length {n:e}: {e}"),
                json!({"input": v, "length": n, "error": e.to_string()}),
            ),
        }
    }
    json!({"Constants": {"reflected_shape": s.desc}})
}

////////////////////////////////////////////////////////////////////////////////
// nests of transforms over a primitive, judged by the closed form alone

fn check_chain(cx: &mut Cx, rng: &mut Rng, used: &mut Vec<&'static str>) -> Value {
    let pname = if rng.chance(0.5) { "Sphere" } else { "Box" };
    let prim = Prim::random(rng, pname);
    let n = 1 + rng.below(4);
    let xfs: Vec<Xf> = (0..n)
        .map(|_| {
            let name = XF_NAMES[rng.below(12)];
            Xf::random(rng, name, false, false)
        })
        .collect();
    // xfs[0] is applied first (innermost)
    let mut tree = prim.tree();
    let mut desc = prim.desc();
    for xf in &xfs {
        tree = xf.apply(tree);
        desc = wrap(xf.name(), xf.desc(), vec![("shape", desc)]);
        used.push(xf.name());
    }
    cx.st.max("chain_length", n as f64);
    let mut ev = Ev::new();
    let nt = ev.import(&tree);
    let to_local = |p: P3| xfs.iter().rev().fold(p, |p, xf| xf.map(p, true));
    let to_world = |q: P3| xfs.iter().fold(q, |q, xf| xf.map(q, false));
    for i in 0..48 {
        let p = if i % 2 == 0 {
            point(rng, 7.0)
        } else {
            let e = *rng.pick(&NEAR[2..]) * if rng.chance(0.5) { -1.0 } else { 1.0 };
            round32(to_world(prim.near_surface(rng, e)))
        };
        if !(linf(p) < 200.0) {
            cx.skip("far_point");
            continue;
        }
        let q = to_local(p);
        let (inside, margin) = prim.classify(q);
        // transported rounding error: be generous near the surface
        if margin < 2e-3 * linf(q).max(linf(p)).max(1.0) {
            cx.skip("near_surface");
            continue;
        }
        let v = ev.at(nt, p);
        cx.sign("Chain:sign", inside, margin, v, || {
            json!({"shape": desc, "point": p, "model_point_in_primitive_frame": q,
                   "model_inside": inside, "model_margin": margin, "fidget_value": v})
        });
    }
    desc
}

////////////////////////////////////////////////////////////////////////////////

fn n_kinds() -> usize {
    ALL_SHAPES.len() + EXTRA_KINDS.len()
}

fn kind_of(case: u64) -> &'static str {
    let k = (case % n_kinds() as u64) as usize;
    if k < ALL_SHAPES.len() { ALL_SHAPES[k] } else { EXTRA_KINDS[k - ALL_SHAPES.len()] }
}

/// Shape names listed in `visit_shapes` of the source under test (if the
/// source text is readable)
fn visited_in_source() -> Option<Vec<String>> {
    let src = std::fs::read_to_string("/repo/fidget-shapes/src/lib.rs").ok()?;
    let mut out = vec![];
    for line in src.lines() {
        let l = line.trim();
        if let Some(r) = l.strip_prefix("visitor.visit::<") {
            if let Some(name) = r.strip_suffix(">();") {
                out.push(name.to_string());
            }
        }
    }
    Some(out)
}

impl Prop for C16 {
    fn id(&self) -> &'static str {
        "C16"
    }
    fn mode(&self) -> Mode {
        Mode::Threads
    }
    fn n_cases(&self, tier: Tier) -> u64 {
        n_kinds() as u64 * tier.pick(30_000, 150_000)
    }
    fn time_cap_s(&self, tier: Tier) -> u64 {
        tier.pick(60, 900)
    }
    fn run_case(&self, case: u64, rng: &mut Rng, st: &mut Stats, _tier: Tier) {
        let kind = kind_of(case);
        let mut used: Vec<&'static str> = vec![];
        let mut cx = Cx { case, st, kind, sigs: vec![], judged: 0 };
        let r = guarded(|| match kind {
            "Circle" | "Rectangle" | "Sphere" | "Box" => check_primitive(&mut cx, rng, kind),
            "Plane" => check_plane(&mut cx, rng),
            "Union" | "Intersection" | "Difference" | "Inverse" => {
                check_csg(&mut cx, rng, kind, &mut used)
            }
            "Blend" => check_blend(&mut cx, rng, &mut used),
            "RepeatX" => check_repeat(&mut cx, rng, &mut used),
            "RevolveY" => check_revolve(&mut cx, rng, &mut used),
            "ExtrudeZ" => check_extrude(&mut cx, rng, &mut used),
            "LoftZ" => check_loft(&mut cx, rng, &mut used),
            "Constants" => check_constants(&mut cx, rng, &mut used),
            "Chain" => check_chain(&mut cx, rng, &mut used),
            _ => check_xf(&mut cx, rng, kind, &mut used),
        });
        let judged = cx.judged;
        match r {
            Ok(desc) => {
                st.add(&format!("judged_{kind}"), judged);
                st.add("points_judged", judged);
                if judged > 0 {
                    if ALL_SHAPES.contains(&kind) {
                        st.set_insert("shapes_exercised", kind);
                    }
                    st.inc(&format!("cases_{kind}"));
                    let text = desc.to_string();
                    st.distinct(hash_str(&text));
                    st.max("shape_description_bytes", text.len() as f64);
                }
                for u in &used {
                    st.set_insert("shapes_used_as_arguments", u);
                }
                if case % 997 == 5 {
                    st.sample(|| json!({"kind": kind, "judged_points": judged, "shape": desc}));
                }
            }
            Err(pi) => {
                if pi.in_repo() {
                    st.violation(
                        case,
                        format!("panic:{}:{}", pi.site(), pi.msg_class()),
                        format!("fidget panicked while building/evaluating a {kind} with in-range parameters: {}", pi.msg),
                        json!({"kind": kind, "panic_site": pi.site(), "message": pi.msg}),
                    );
                } else {
                    st.inconclusive.push(format!(
                        "harness error in case {case} ({kind}): {}:{} {}",
                        pi.file, pi.line, pi.msg
                    ));
                }
            }
        }
    }
    fn finish(&self, st: &mut Stats, tier: Tier) {
        // every struct of visit_shapes must have been judged as the item
        // under test
        let mut wanted: Vec<String> = ALL_SHAPES.iter().map(|s| s.to_string()).collect();
        match visited_in_source() {
            Some(v) if !v.is_empty() => {
                st.add("shapes_listed_by_visit_shapes", v.len() as u64);
                for name in v {
                    if !wanted.contains(&name) {
                        wanted.push(name);
                    }
                }
            }
            _ => st.inc("visit_shapes_source_unreadable"),
        }
        let floor = tier.pick(50_000, 750_000);
        for name in &wanted {
            let seen = st.sets.get("shapes_exercised").map(|s| s.contains(name)).unwrap_or(false);
            if !seen {
                st.inconclusive.push(format!("shape `{name}` of visit_shapes was never exercised"));
                continue;
            }
            let j = st.get(&format!("judged_{name}"));
            if j < floor {
                st.inconclusive.push(format!("only {j} judged sample points for `{name}` (floor {floor})"));
            }
        }
        for extra in EXTRA_KINDS {
            if st.get(&format!("judged_{extra}")) < floor {
                st.inconclusive.push(format!("too few judged points for kind `{extra}`"));
            }
        }
        if st.set_len("constants_checked") < 6 {
            st.inconclusive.push("not all six named constants were checked".into());
        }
        for k in ["repeat_copy_points", "repeat_base_points", "revolve_symmetry_points",
                  "revolve_profile_points", "loft_end_profile_points", "loft_points_outside_slab",
                  "extrude_points_in_slab", "extrude_points_outside_slab",
                  "blend_points_outside_radius", "blend_points_inside_radius",
                  "empty_reductions_checked", "reflect_xy_involution_points", "axis_normalisations"] {
            if st.get(k) < tier.pick(5000, 75_000) {
                st.inconclusive.push(format!("coverage counter {k} = {} is below its floor", st.get(k)));
            }
        }
    }
    fn rule(&self) -> String {
        "case c judges item kind c mod 28 (the 26 structs of visit_shapes + named constants + closed-form chains) with random parameters; arguments of transforms/CSG are random nests (depth <= 3) of the same library evaluated by fidget; 32-48 sample points per case (uniform and near-surface); distinct = hash of the full nested shape description".into()
    }
    fn assumptions(&self) -> Vec<String> {
        vec![
            "rotations by a positive angle are right-handed (counter-clockwise seen from the tip of the axis), as in the crate's own RotateZ test".into(),
            "2D primitives are judged in the plane z = 0 only; RevolveY is judged with z-independent profiles only; for ExtrudeZ/LoftZ the profile is the z = 0 cross-section of the argument (30% of the arguments are not z-independent)".into(),
            "Plane as a shape: its surface is axis.p = offset, orientation not judged".into(),
            "LoftZ: only the slab bounds and the cross-sections 1% inside either end are judged (|near profile| >= 0.2, |far profile| <= 10)".into(),
            "ReflectXY with non-zero offset: only the involution property is judged".into(),
            "Blend: value <= min, value >= min - radius/4, value == min where |a-b| >= radius".into(),
            "sample points closer than 1e-4 to a surface are not sign-judged; value comparisons use rel. tol 1e-4 plus twice the variation of the argument over a 3e-5-relative neighbourhood".into(),
        ]
    }
}
