//! Helpers shared by the evaluator-family monitors (C02-C05, C10, C11, C20)
use crate::gen_::prog::{Built, Prog};
use crate::refmodel::graph;
use fidget_core::context::{BinaryOpcode, Context, Node, Op};
use fidget_core::eval::{BulkEvaluator, Function, Tape, TracingEvaluator};
use fidget_core::types::{Grad, Interval};
use fidget_core::var::{Var, VarMap};
use fidget_core::vm::{Choice, VmTrace};
use std::collections::HashMap;

/// For each function input index, the program variable slot feeding it
pub fn slot_map(vars: &VarMap, built_vars: &[Var]) -> Option<Vec<usize>> {
    let mut slot_of = vec![usize::MAX; vars.len()];
    for (var, idx) in vars.iter() {
        if idx >= slot_of.len() {
            return None;
        }
        slot_of[idx] = built_vars.iter().position(|v| *v == var)?;
    }
    if slot_of.iter().any(|s| *s == usize::MAX) {
        return None;
    }
    Some(slot_of)
}

pub fn point_eval<F: Function<Trace = VmTrace>>(
    f: &F,
    input: &[f32],
) -> Result<(Vec<f32>, Option<Vec<Choice>>), String> {
    let tape = f.point_tape(Default::default());
    let mut ev = F::new_point_eval();
    let (out, tr) = ev.eval(&tape, input).map_err(|e| e.to_string())?;
    Ok((out.to_vec(), tr.map(|t| t.as_slice().to_vec())))
}

pub fn interval_eval<F: Function<Trace = VmTrace>>(
    f: &F,
    input: &[Interval],
) -> Result<(Vec<Interval>, Option<Vec<Choice>>), String> {
    let tape = f.interval_tape(Default::default());
    let mut ev = F::new_interval_eval();
    let (out, tr) = ev.eval(&tape, input).map_err(|e| e.to_string())?;
    Ok((out.to_vec(), tr.map(|t| t.as_slice().to_vec())))
}

/// Column-major inputs -> per-output vectors
pub fn float_slice_eval<F: Function, V: std::ops::Deref<Target = [f32]>>(
    f: &F,
    cols: &[V],
) -> Result<Vec<Vec<f32>>, String> {
    let tape = f.float_slice_tape(Default::default());
    let mut ev = F::new_float_slice_eval();
    let out = ev.eval(&tape, cols).map_err(|e| e.to_string())?;
    Ok((0..out.len()).map(|i| out[i].to_vec()).collect())
}

pub fn grad_slice_eval<F: Function, V: std::ops::Deref<Target = [Grad]>>(
    f: &F,
    cols: &[V],
) -> Result<Vec<Vec<Grad>>, String> {
    let tape = f.grad_slice_tape(Default::default());
    let mut ev = F::new_grad_slice_eval();
    let out = ev.eval(&tape, cols).map_err(|e| e.to_string())?;
    Ok((0..out.len()).map(|i| out[i].to_vec()).collect())
}

pub fn tape_output_count<T: Tape>(t: &T) -> usize {
    t.output_count()
}

/// Zero-sign taint analysis for the C02 exemption ("a min/max of two equal
/// zeros may differ in the sign of zero"): `Source` = min/max whose operand
/// values are both zero and whose operands are clean; `Tainted` = depends on
/// a source (the differing sign may legally propagate).
#[derive(Copy, Clone, PartialEq, Eq, Debug)]
pub enum Taint {
    Clean,
    Source,
    Tainted,
}

pub fn zero_taint(
    ctx: &Context,
    order: &[Node],
    vals: &HashMap<Node, f32>,
    zero_rule: bool,
) -> HashMap<Node, Taint> {
    use fidget_core::context::UnaryOpcode;
    let mut t: HashMap<Node, Taint> = HashMap::with_capacity(order.len());
    for &n in order {
        let op = ctx.get_op(n).unwrap();
        let child_dirty = op.iter_children().any(|c| t[&c] != Taint::Clean);
        let k = if child_dirty {
            Taint::Tainted
        } else {
            match *op {
                Op::Binary(BinaryOpcode::Min | BinaryOpcode::Max, a, b)
                    if zero_rule && vals[&a] == 0.0 && vals[&b] == 0.0 =>
                {
                    Taint::Source
                }
                // NaN payload bits hashed into a finite value: not a value
                // the statement can constrain (see graph::nan_feeds_hash)
                Op::Unary(UnaryOpcode::Rand, a) if vals[&a].is_nan() => {
                    Taint::Tainted
                }
                Op::Binary(BinaryOpcode::Mix, a, b)
                    if vals[&a].is_nan() || vals[&b].is_nan() =>
                {
                    Taint::Tainted
                }
                _ => Taint::Clean,
            }
        };
        t.insert(n, k);
    }
    t
}

/// Per-sample analysis of a built program at one input
pub struct SampleInfo {
    pub vals: HashMap<Node, f32>,
    pub nan_hash: bool,
    pub taint: HashMap<Node, Taint>,
}

pub fn analyse(b: &Built, order: &[Node], input_by_slot: &[f32]) -> SampleInfo {
    analyse_with(b, order, input_by_slot, true)
}

/// `zero_rule` = apply the min/max-of-two-zeros exemption (JIT comparisons)
pub fn analyse_with(
    b: &Built,
    order: &[Node],
    input_by_slot: &[f32],
    zero_rule: bool,
) -> SampleInfo {
    let vm = b.var_map(input_by_slot);
    let vals = graph::eval_graph(&b.ctx, order, &vm);
    let nan_hash = graph::nan_feeds_hash(&b.ctx, order, &vals);
    let taint = zero_taint(&b.ctx, order, &vals, zero_rule);
    SampleInfo {
        vals,
        nan_hash,
        taint,
    }
}

pub fn op_name(ctx: &Context, n: Node) -> String {
    match ctx.get_op(n) {
        Some(Op::Input(_)) => "input".into(),
        Some(Op::Const(_)) => "const".into(),
        Some(Op::Unary(o, _)) => format!("{o:?}").to_lowercase(),
        Some(Op::Binary(o, ..)) => format!("{o:?}").to_lowercase(),
        None => "?".into(),
    }
}

pub fn prog_with_all_outputs(p: &Prog, export_all: bool) -> Prog {
    if export_all { p.export_all() } else { p.clone() }
}

////////////////////////////////////////////////////////////////////////////////
// Backends

use fidget_core::compiler::RegOp;
use fidget_core::eval::MathFunction;
use fidget_core::vm::{GenericVmFunction, VmFunction};
use fidget_jit::JitFunction;

/// The two CPU backends behind one interface (register tape access included)
pub trait Backend: MathFunction + Function<Trace = VmTrace> {
    const NAME: &'static str;
    const REGS: usize;
    const IS_JIT: bool;
    fn ops(&self) -> Vec<RegOp>;
    fn slot_count(&self) -> usize;
    fn choice_count(&self) -> usize;
}

impl Backend for VmFunction {
    const NAME: &'static str = "vm";
    const REGS: usize = 255;
    const IS_JIT: bool = false;
    fn ops(&self) -> Vec<RegOp> {
        self.data().iter_asm().collect()
    }
    fn slot_count(&self) -> usize {
        self.data().slot_count()
    }
    fn choice_count(&self) -> usize {
        self.data().choice_count()
    }
}

impl Backend for JitFunction {
    const NAME: &'static str = "jit";
    const REGS: usize = 12;
    const IS_JIT: bool = true;
    fn ops(&self) -> Vec<RegOp> {
        let g: &GenericVmFunction<12> = self.into();
        g.data().iter_asm().collect()
    }
    fn slot_count(&self) -> usize {
        let g: &GenericVmFunction<12> = self.into();
        g.data().slot_count()
    }
    fn choice_count(&self) -> usize {
        let g: &GenericVmFunction<12> = self.into();
        g.data().choice_count()
    }
}

pub fn to_intervals(b: &[(f32, f32)]) -> Vec<Interval> {
    b.iter().map(|&(lo, hi)| Interval::new(lo, hi)).collect()
}

pub fn choice_name(c: Choice) -> &'static str {
    match c {
        Choice::Unknown => "Unknown",
        Choice::Left => "Left",
        Choice::Right => "Right",
        Choice::Both => "Both",
    }
}
