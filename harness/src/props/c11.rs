//! C11 - evaluation is total: finite inputs never crash an evaluator, argument
//! errors are error values, interval results are ordered or the NaN interval.
//! Every case runs in a child process (crash monitor); panics are caught and
//! classified, results are checked for well-formedness.
use crate::gen_::boxes::{self, BoxKind};
use crate::gen_::prog::{self, Consts, GenCfg, Inputs, PNode, Profile, Prog};
use crate::monitor::child;
use crate::props::evalutil::*;
use crate::refmodel::graph;
use crate::util::{PanicInfo, Rng, Stats, Tier, guarded};
use crate::{Mode, Prop};
use fidget_core::context::Node;
use fidget_core::eval::{BulkEvaluator, TracingEvaluator};
use fidget_core::shape::{Shape, ShapeVars};
use fidget_core::types::{Grad, Interval};
use fidget_core::var::Var;
use fidget_core::vm::VmFunction;
use fidget_jit::JitFunction;
use nalgebra::Matrix4;
use serde_json::{Value, json};

pub struct C11;

struct Viol {
    sig: String,
    msg: String,
    detail: Value,
}

fn well_formed(i: Interval) -> bool {
    i.lower() <= i.upper() || (i.lower().is_nan() && i.upper().is_nan())
}

/// First node (children before parents) whose interval evaluation by backend
/// F misbehaves on its own: panics, or returns an ill-formed interval.
fn culprit<F: Backend>(b: &prog::Built, order: &[Node], bx: &[(f32, f32)]) -> String {
    for (k, &n) in order.iter().enumerate() {
        if b.ctx.get_op(n).unwrap().iter_children().next().is_none() {
            continue;
        }
        let f = F::new(&b.ctx, &order[..=k]).unwrap();
        let Some(slot) = slot_map(f.vars(), &b.vars) else { continue };
        let input: Vec<Interval> = slot.iter().map(|&s| Interval::new(bx[s].0, bx[s].1)).collect();
        // only the VM is probed this way for panics (a JIT callback panic
        // aborts the process)
        match guarded(|| interval_eval(&f, &input)) {
            Ok(Ok((out, _))) => {
                if out.iter().any(|i| !well_formed(*i)) {
                    return op_name(&b.ctx, n);
                }
            }
            _ => return op_name(&b.ctx, n),
        }
    }
    "unlocalised".into()
}

fn panic_viol(kind: &str, name: &str, pi: &PanicInfo, extra: String, detail: Value) -> Viol {
    Viol {
        sig: format!("panic:{name}:{kind}:{}:{}{}", pi.site(), pi.msg_class(), extra),
        msg: format!("{name} {kind} evaluation panicked on finite input at {}: {}", pi.site(), pi.msg),
        detail,
    }
}

fn finite_matrix(rng: &mut Rng) -> Matrix4<f32> {
    let mut m = Matrix4::<f32>::identity();
    for i in 0..(if rng.chance(0.3) { 4 } else { 3 }) {
        for j in 0..4 {
            m[(i, j)] = match rng.below(4) {
                0 => rng.log_f32(-20.0, 100.0),
                1 => 0.0,
                _ => rng.uniform(-2.0, 2.0) as f32,
            };
        }
    }
    m
}

fn check_backend<F: Backend>(
    p: &Prog,
    b: &prog::Built,
    roots: &[Node],
    order: &[Node],
    rng: &mut Rng,
    vm_panicked_boxes: &mut Vec<usize>,
    bxs: &[Vec<(f32, f32)>],
    pts: &[Vec<f32>],
    st: &mut Stats,
) -> Result<(), Viol> {
    let name = F::NAME;
    let f = F::new(&b.ctx, roots).unwrap();
    let slot = slot_map(f.vars(), &b.vars).unwrap();
    let nv = slot.len();
    let pj = |q: &[f32]| q.iter().map(|v| format!("{v:?}")).collect::<Vec<_>>();

    // ---------------- single points
    for q in pts {
        let input: Vec<f32> = slot.iter().map(|&s| q[s]).collect();
        child::note(&format!("C11 {name} point eval | program {:016x}", p.hash()));
        match guarded(|| point_eval(&f, &input)) {
            Ok(Ok((out, _))) => {
                st.inc("point_evals");
                if out.len() != roots.len() {
                    return Err(Viol { sig: format!("shape:{name}:point"), msg: "wrong number of outputs".into(), detail: json!(null) });
                }
            }
            Ok(Err(e)) => return Err(Viol { sig: format!("spurious_error:{name}:point"), msg: format!("point evaluation returned an error for a well-formed call: {e}"), detail: json!(null) }),
            Err(pi) => return Err(panic_viol("point", name, &pi, String::new(), json!({"point_by_var_slot": pj(q)}))),
        }
    }
    // ---------------- many points and gradients
    if nv > 0 {
        let len = rng.below(20);
        let cols: Vec<Vec<f32>> = slot.iter().map(|&s| (0..len).map(|j| pts[j % pts.len()][s]).collect()).collect();
        child::note(&format!("C11 {name} float-slice eval | program {:016x}", p.hash()));
        // the caller's slices end right at a guard page: "no out-of-bounds
        // access" includes reads past the end of the inputs
        let gcols_f: Vec<crate::monitor::guard::GuardedSlice<f32>> =
            cols.iter().map(|c| crate::monitor::guard::GuardedSlice::new(c, crate::monitor::guard::Flush::End)).collect();
        match guarded(|| float_slice_eval(&f, &gcols_f)) {
            Ok(Ok(out)) => {
                st.inc("float_slice_evals");
                if out.len() != roots.len() || out.iter().any(|c| c.len() != len) {
                    return Err(Viol { sig: format!("shape:{name}:float_slice"), msg: "wrong output shape".into(), detail: json!({"len": len}) });
                }
            }
            Ok(Err(e)) => return Err(Viol { sig: format!("spurious_error:{name}:float_slice"), msg: e, detail: json!(null) }),
            Err(pi) => return Err(panic_viol("float_slice", name, &pi, String::new(), json!({"len": len}))),
        }
        let gcols: Vec<Vec<Grad>> = slot
            .iter()
            .map(|&s| {
                (0..len)
                    .map(|j| {
                        let v = pts[j % pts.len()][s];
                        Grad::new(v, rng.log_f32(-30.0, 100.0), if s == 1 { 1.0 } else { 0.0 }, rng.uniform(-1.0, 1.0) as f32)
                    })
                    .collect()
            })
            .collect();
        child::note(&format!("C11 {name} grad-slice eval | program {:016x}", p.hash()));
        let gcols_g: Vec<crate::monitor::guard::GuardedSlice<Grad>> =
            gcols.iter().map(|c| crate::monitor::guard::GuardedSlice::new(c, crate::monitor::guard::Flush::End)).collect();
        match guarded(|| grad_slice_eval(&f, &gcols_g)) {
            Ok(Ok(out)) => {
                st.inc("grad_slice_evals");
                if out.len() != roots.len() || out.iter().any(|c| c.len() != len) {
                    return Err(Viol { sig: format!("shape:{name}:grad_slice"), msg: "wrong output shape".into(), detail: json!({"len": len}) });
                }
            }
            Ok(Err(e)) => return Err(Viol { sig: format!("spurious_error:{name}:grad_slice"), msg: e, detail: json!(null) }),
            Err(pi) => return Err(panic_viol("grad_slice", name, &pi, String::new(), json!({"len": len}))),
        }
    }
    // ---------------- boxes
    for (bi, bx) in bxs.iter().enumerate() {
        if F::IS_JIT && vm_panicked_boxes.contains(&bi) {
            // the JIT calls the same Interval methods through extern "sysv64"
            // callbacks, where a panic aborts the process; already reported
            st.inc("jit_interval_skipped_after_vm_panic");
            continue;
        }
        let input: Vec<Interval> = slot.iter().map(|&s| Interval::new(bx[s].0, bx[s].1)).collect();
        child::note(&format!("C11 {name} interval eval | program {:016x}", p.hash()));
        let bj = || json!({"box_by_var_slot": bx.iter().map(|(l, u)| format!("[{l:?}, {u:?}]")).collect::<Vec<_>>()});
        match guarded(|| interval_eval(&f, &input)) {
            Ok(Ok((out, trace))) => {
                st.inc("interval_evals");
                // a returned trace is consumed by simplify() in every
                // pipeline (renderers, mesher); an undecided or NaN clause
                // must not make that step, or the evaluation of its result,
                // panic either
                if trace.is_some() {
                    child::note(&format!("C11 {name} simplify with the returned interval trace | program {:016x}", p.hash()));
                    let simplified = guarded(|| -> Result<Option<F>, String> {
                        let tape = f.interval_tape(Default::default());
                        let mut ev = F::new_interval_eval();
                        let (_, tr) = ev.eval(&tape, &input).map_err(|e| e.to_string())?;
                        let Some(tr) = tr else { return Ok(None) };
                        let mut ws = Default::default();
                        f.simplify(tr, Default::default(), &mut ws).map(Some).map_err(|e| e.to_string())
                    });
                    match simplified {
                        Ok(Ok(Some(g))) => {
                            st.inc("simplifications_of_interval_traces");
                            let by_slot = boxes::point_in(rng, bx);
                            let q: Vec<f32> = slot.iter().map(|&s| by_slot[s]).collect();
                            child::note(&format!("C11 {name} point eval of the simplified function | program {:016x}", p.hash()));
                            if let Err(pi) = guarded(|| point_eval(&g, &q)) {
                                return Err(panic_viol("point_after_simplify", name, &pi, String::new(), bj()));
                            }
                        }
                        Ok(Ok(None)) => {}
                        Ok(Err(e)) => return Err(Viol { sig: format!("spurious_error:{name}:simplify"), msg: format!("simplify rejected the trace the interval evaluator had just returned: {e}"), detail: bj() }),
                        Err(pi) => return Err(panic_viol("simplify_after_interval", name, &pi, String::new(), bj())),
                    }
                }
                if out.iter().any(|i| i.lower().is_infinite() || i.upper().is_infinite() || i.has_nan()) {
                    st.inc("interval_evals_with_overflow_or_nan_output");
                }
                if out.len() != roots.len() {
                    return Err(Viol { sig: format!("shape:{name}:interval"), msg: "wrong number of outputs".into(), detail: json!(null) });
                }
                if let Some(bad) = out.iter().find(|i| !well_formed(**i)) {
                    let c = culprit::<F>(b, order, bx);
                    return Err(Viol {
                        sig: format!("illformed:{name}:{c}"),
                        msg: format!("{name} interval evaluation returned {bad:?}, neither ordered nor the NaN interval (first ill-formed node: {c})"),
                        detail: bj(),
                    });
                }
            }
            Ok(Err(e)) => return Err(Viol { sig: format!("spurious_error:{name}:interval"), msg: e, detail: json!(null) }),
            Err(pi) => {
                if !F::IS_JIT {
                    vm_panicked_boxes.push(bi);
                }
                let c = culprit::<VmFunction>(b, order, bx);
                return Err(panic_viol("interval", name, &pi, format!(":{c}"), bj()));
            }
        }
    }
    // ---------------- shape wrappers with a transform
    if roots.len() == 1 {
        let m = finite_matrix(rng);
        let s = Shape::<F>::new(&b.ctx, roots[0]).unwrap();
        let mut vars: ShapeVars<f32> = ShapeVars::new();
        for (k, v) in b.vars.iter().enumerate() {
            if let Var::V(i) = v {
                vars.insert(*i, pts[0][k]);
            }
        }
        let q = &pts[0];
        let t = s.point_tape(Default::default());
        let mut ev = Shape::<F>::new_point_eval();
        child::note(&format!("C11 {name} shape point eval with transform | program {:016x}", p.hash()));
        match guarded(|| ev.eval_with_transform_and_vars(&t, q[0], q[1], q[2], &m, &vars).map(|r| r.0)) {
            Ok(Ok(_)) => st.inc("shape_point_evals"),
            Ok(Err(e)) => return Err(Viol { sig: format!("spurious_error:{name}:shape_point"), msg: e.to_string(), detail: json!(null) }),
            Err(pi) => return Err(panic_viol("shape_point", name, &pi, String::new(), json!({"matrix": format!("{m:?}")}))),
        }
        let bx = &bxs[0];
        if !(F::IS_JIT && vm_panicked_boxes.contains(&usize::MAX)) {
            let t = s.interval_tape(Default::default());
            let mut ev = Shape::<F>::new_interval_eval();
            let iv = |k: usize| Interval::new(bx[k].0, bx[k].1);
            let ivars: ShapeVars<f32> = {
                let mut h = ShapeVars::new();
                for (k, v) in b.vars.iter().enumerate() {
                    if let Var::V(i) = v {
                        h.insert(*i, bx[k].0);
                    }
                }
                h
            };
            child::note(&format!("C11 {name} shape interval eval with transform | program {:016x}", p.hash()));
            match guarded(|| ev.eval_with_transform_and_vars(&t, iv(0), iv(1), iv(2), &m, &ivars).map(|r| r.0)) {
                Ok(Ok(i)) => {
                    st.inc("shape_interval_evals");
                    if !well_formed(i) {
                        return Err(Viol { sig: format!("illformed:{name}:shape_transform"), msg: format!("shape interval evaluation with a transform returned {i:?}"), detail: json!({"matrix": format!("{m:?}")}) });
                    }
                }
                Ok(Err(e)) => return Err(Viol { sig: format!("spurious_error:{name}:shape_interval"), msg: e.to_string(), detail: json!(null) }),
                Err(pi) => {
                    if !F::IS_JIT {
                        vm_panicked_boxes.push(usize::MAX);
                    }
                    return Err(panic_viol("shape_interval_transform", name, &pi, String::new(), json!({"matrix": format!("{m:?}"), "box": format!("{bx:?}")})));
                }
            }
        }
    }
    Ok(())
}

/// Malformed argument lists must be reported as error values
fn check_arg_errors<F: Backend>(b: &prog::Built, roots: &[Node], rng: &mut Rng, st: &mut Stats) -> Result<(), Viol> {
    let name = F::NAME;
    let f = F::new(&b.ctx, roots).unwrap();
    let nv = f.vars().len();
    let expect_err = |what: &str, r: Result<bool, PanicInfo>| -> Result<(), Viol> {
        match r {
            Ok(true) => Ok(()),
            Ok(false) => Err(Viol { sig: format!("argerr:{name}:{what}:accepted"), msg: format!("{name}: {what} was accepted instead of being reported as an error"), detail: json!(null) }),
            Err(pi) => Err(Viol { sig: format!("argerr:{name}:{what}:panic:{}", pi.site()), msg: format!("{name}: {what} panicked instead of returning an error: {}", pi.msg), detail: json!(null) }),
        }
    };
    if nv > 0 {
        // too few variables
        let short = rng.below(nv);
        let pt = f.point_tape(Default::default());
        let vals = vec![0.5f32; short];
        expect_err("too_few_vars_point", guarded(|| F::new_point_eval().eval(&pt, &vals).is_err()))?;
        let it = f.interval_tape(Default::default());
        let ivals = vec![Interval::from(0.5); short];
        expect_err("too_few_vars_interval", guarded(|| F::new_interval_eval().eval(&it, &ivals).is_err()))?;
        let ft = f.float_slice_tape(Default::default());
        let cols = vec![vec![0.5f32; 4]; short];
        expect_err("too_few_vars_float_slice", guarded(|| F::new_float_slice_eval().eval(&ft, &cols).is_err()))?;
        let gt = f.grad_slice_tape(Default::default());
        let gcols = vec![vec![Grad::from(0.5); 4]; short];
        expect_err("too_few_vars_grad_slice", guarded(|| F::new_grad_slice_eval().eval(&gt, &gcols).is_err()))?;
        st.inc("argerr_too_few_checked");
        if nv >= 2 {
            // mismatched slice lengths (at a random position)
            let mut cols = vec![vec![0.5f32; 9]; nv];
            let k = 1 + rng.below(nv - 1);
            cols[k] = vec![0.5; *rng.pick(&[0usize, 1, 8, 10, 17])];
            expect_err("mismatched_float_slices", guarded(|| F::new_float_slice_eval().eval(&ft, &cols).is_err()))?;
            let mut gcols = vec![vec![Grad::from(0.5); 9]; nv];
            gcols[k] = vec![Grad::from(0.5); 3];
            expect_err("mismatched_grad_slices", guarded(|| F::new_grad_slice_eval().eval(&gt, &gcols).is_err()))?;
            st.inc("argerr_mismatch_checked");
        }
        // a mismatched length among the extra (unused) slices is still a
        // mismatch: the evaluators size their work from the slices
        for n in [3usize, 9] {
            let mut cols = vec![vec![0.5f32; n]; nv + 2];
            let k = nv + rng.below(2);
            cols[k] = vec![0.5; *rng.pick(&[0usize, 1, 8, 17])];
            expect_err("mismatched_extra_float_slice", guarded(|| F::new_float_slice_eval().eval(&ft, &cols).is_err()))?;
            let mut gcols = vec![vec![Grad::from(0.5); n]; nv + 2];
            gcols[k] = vec![Grad::from(0.5); n + 1];
            expect_err("mismatched_extra_grad_slice", guarded(|| F::new_grad_slice_eval().eval(&gt, &gcols).is_err()))?;
        }
        st.inc("argerr_extra_mismatch_checked");
        // extra variables and zero-length slices are fine
        let cols = vec![Vec::<f32>::new(); nv + 2];
        match guarded(|| F::new_float_slice_eval().eval(&ft, &cols).map(|o| o.len())) {
            Ok(Ok(_)) => st.inc("zero_length_with_extras_ok"),
            Ok(Err(e)) => return Err(Viol { sig: format!("argerr:{name}:extras_rejected"), msg: format!("extra variables / zero-length slices were rejected: {e}"), detail: json!(null) }),
            Err(pi) => return Err(panic_viol("zero_length", name, &pi, String::new(), json!(null))),
        }
    }
    // missing bound variable through the shape API
    if roots.len() == 1 {
        let free: Vec<_> = f.vars().iter().filter_map(|(v, _)| v.index()).collect();
        if !free.is_empty() {
            let s = Shape::<F>::new(&b.ctx, roots[0]).unwrap();
            let mut vars: ShapeVars<f32> = ShapeVars::new();
            let skip = rng.below(free.len());
            for (k, i) in free.iter().enumerate() {
                if k != skip {
                    vars.insert(*i, 1.0);
                }
            }
            vars.insert(Var::new().index().unwrap(), 3.0); // an extra one
            let t = s.point_tape(Default::default());
            expect_err("missing_shape_var_point", guarded(|| Shape::<F>::new_point_eval().eval_with_vars(&t, 0.1f32, 0.2f32, 0.3f32, &vars).is_err()))?;
            let ft = s.float_slice_tape(Default::default());
            let xs = [0.1f32, 0.2];
            expect_err("missing_shape_var_bulk", guarded(|| Shape::<F>::new_float_slice_eval().eval_with_vars(&ft, &xs, &xs, &xs, &vars).is_err()))?;
            expect_err("shape_bulk_without_vars", guarded(|| Shape::<F>::new_float_slice_eval().eval(&ft, &xs, &xs, &xs).is_err()))?;
            expect_err("bind_missing", guarded(|| s.bind(&vars).is_err()))?;
            // mismatched x/y/z lengths
            let ys = [0.1f32];
            vars.insert(free[skip], 2.0);
            expect_err("mismatched_xyz", guarded(|| Shape::<F>::new_float_slice_eval().eval_with_vars(&ft, &xs, &ys, &xs, &vars).is_err()))?;
            st.inc("argerr_missing_var_checked");
        }
    }
    Ok(())
}

/// Long-lived evaluators: one bulk evaluator of each kind is handed a
/// sequence of tapes with different variable counts on different numbers of
/// points (a well-formed use of the documented API: evaluators are scratch
/// space that may be reused across tapes).  Every call must return normally.
fn check_reuse<F: Backend>(b: &prog::Built, roots: &[Node], rng: &mut Rng, st: &mut Stats) -> Result<(), Viol> {
    let name = F::NAME;
    let mut cx = fidget_core::Context::new();
    let x = cx.x();
    let y = cx.y();
    let xy = cx.add(x, y).unwrap();
    let k = cx.constant(1.5);
    let small: Vec<Shape<F>> = [x, xy, k].iter().map(|n| Shape::<F>::new(&cx, *n).unwrap()).collect();
    let big = Shape::<F>::new(&b.ctx, roots[0]).unwrap();
    let mut vars: ShapeVars<f32> = ShapeVars::new();
    for v in b.vars.iter() {
        if let Var::V(i) = v {
            vars.insert(*i, rng.uniform(-2.0, 2.0) as f32);
        }
    }
    let mut fe = Shape::<F>::new_float_slice_eval();
    let mut ge = Shape::<F>::new_grad_slice_eval();
    let steps = 3 + rng.below(4);
    for step in 0..steps {
        let which = rng.below(4);
        let s = if which == 3 { &big } else { &small[which] };
        let n = *rng.pick(&[1usize, 2, 3, 7, 8, 9, 16, 17, 33]);
        let xs: Vec<f32> = (0..n).map(|_| rng.uniform(-3.0, 3.0) as f32).collect();
        child::note(&format!("C11 {name} reused shape bulk evaluators, step {step} | shape {which} on {n} points"));
        let ft = s.float_slice_tape(Default::default());
        match guarded(|| fe.eval_with_vars(&ft, &xs, &xs, &xs, &vars).map(|o| o.len())) {
            Ok(Ok(l)) if l == n => st.inc("reuse_float_calls"),
            Ok(Ok(l)) => return Err(Viol { sig: format!("reuse:{name}:float:length"), msg: format!("reused float-slice evaluator returned {l} values for {n} points"), detail: json!({"step": step}) }),
            Ok(Err(e)) => return Err(Viol { sig: format!("spurious_error:{name}:reuse_float"), msg: format!("step {step} (shape {which}, {n} points): {e}"), detail: json!(null) }),
            Err(pi) => return Err(panic_viol("reuse_float", name, &pi, String::new(), json!({"step": step, "shape": which, "points": n}))),
        }
        let gt = s.grad_slice_tape(Default::default());
        let gx: Vec<Grad> = xs.iter().map(|v| Grad::new(*v, 1.0, 0.0, 0.0)).collect();
        let gy: Vec<Grad> = xs.iter().map(|v| Grad::new(*v, 0.0, 1.0, 0.0)).collect();
        let gz: Vec<Grad> = xs.iter().map(|v| Grad::new(*v, 0.0, 0.0, 1.0)).collect();
        match guarded(|| ge.eval_with_vars(&gt, &gx, &gy, &gz, &vars).map(|o| o.len())) {
            Ok(Ok(l)) if l == n => st.inc("reuse_grad_calls"),
            Ok(Ok(l)) => return Err(Viol { sig: format!("reuse:{name}:grad:length"), msg: format!("reused grad-slice evaluator returned {l} values for {n} points"), detail: json!({"step": step}) }),
            Ok(Err(e)) => return Err(Viol { sig: format!("spurious_error:{name}:reuse_grad"), msg: format!("step {step} (shape {which}, {n} points): {e}"), detail: json!(null) }),
            Err(pi) => return Err(panic_viol("reuse_grad", name, &pi, String::new(), json!({"step": step, "shape": which, "points": n}))),
        }
    }
    Ok(())
}

/// Function-level bulk evaluators that live across tapes of tiny functions
/// with 1..4 outputs: most of these tapes use the same few registers, and
/// consecutive calls use the same number of samples - whatever an evaluator
/// keys its scratch on (slot count, sample count, output count), some pair of
/// consecutive tapes agrees on it while differing in the rest
fn check_reuse_outputs<F: Backend>(rng: &mut Rng, st: &mut Stats) -> Result<(), Viol> {
    let name = F::NAME;
    let mut cx = fidget_core::Context::new();
    let (x, y) = (cx.x(), cx.y());
    let (c2, c3) = (cx.constant(2.0), cx.constant(3.0));
    let s = cx.add(x, y).unwrap();
    let d = cx.sub(x, y).unwrap();
    let m = cx.mul(x, y).unwrap();
    let x2 = cx.mul(x, c2).unwrap();
    let y3 = cx.mul(y, c3).unwrap();
    let families: Vec<Vec<Node>> = vec![vec![s], vec![x2, y3], vec![x, y, s], vec![m, d], vec![s, d, m, x2], vec![m], vec![x2], vec![y3, x2, s]];
    let fns: Vec<F> = families.iter().map(|r| F::new(&cx, r).unwrap()).collect();
    let mut fe = F::new_float_slice_eval();
    let mut ge = F::new_grad_slice_eval();
    let mut n = *rng.pick(&[1usize, 3, 8, 9, 16, 17, 33]);
    for step in 0..8 {
        let k = rng.below(fns.len());
        if rng.chance(0.3) {
            n = *rng.pick(&[1usize, 3, 8, 9, 16, 17, 33]);
        }
        let f = &fns[k];
        let cols: Vec<Vec<f32>> = (0..f.vars().len()).map(|_| (0..n).map(|_| rng.uniform(-3.0, 3.0) as f32).collect()).collect();
        child::note(&format!("C11 {name} reused function-level bulk evaluators, step {step} | function {k} ({} outputs) on {n} samples", families[k].len()));
        let ft = f.float_slice_tape(Default::default());
        match guarded(|| fe.eval(&ft, &cols).map(|o| (o.len(), (0..o.len()).map(|i| o[i].len()).collect::<Vec<_>>()))) {
            Ok(Ok((l, lens))) if l == families[k].len() && lens.iter().all(|x| *x == n) => st.inc("reuse_output_count_float_calls"),
            Ok(Ok((l, lens))) => return Err(Viol { sig: format!("reuse:{name}:float:output_shape"), msg: format!("reused float-slice evaluator returned {l} outputs of lengths {lens:?} for a tape with {} outputs and {n} samples", families[k].len()), detail: json!({"step": step}) }),
            Ok(Err(e)) => return Err(Viol { sig: format!("spurious_error:{name}:reuse_outputs_float"), msg: format!("step {step}: {e}"), detail: json!(null) }),
            Err(pi) => return Err(panic_viol("reuse_outputs_float", name, &pi, String::new(), json!({"step": step, "function": k, "samples": n}))),
        }
        let gt = f.grad_slice_tape(Default::default());
        let gcols: Vec<Vec<Grad>> = cols.iter().map(|c| c.iter().map(|v| Grad::new(*v, 1.0, 0.5, 0.0)).collect()).collect();
        match guarded(|| ge.eval(&gt, &gcols).map(|o| (o.len(), (0..o.len()).map(|i| o[i].len()).collect::<Vec<_>>()))) {
            Ok(Ok((l, lens))) if l == families[k].len() && lens.iter().all(|x| *x == n) => st.inc("reuse_output_count_grad_calls"),
            Ok(Ok((l, lens))) => return Err(Viol { sig: format!("reuse:{name}:grad:output_shape"), msg: format!("reused grad-slice evaluator returned {l} outputs of lengths {lens:?} for a tape with {} outputs and {n} samples", families[k].len()), detail: json!({"step": step}) }),
            Ok(Err(e)) => return Err(Viol { sig: format!("spurious_error:{name}:reuse_outputs_grad"), msg: format!("step {step}: {e}"), detail: json!(null) }),
            Err(pi) => return Err(panic_viol("reuse_outputs_grad", name, &pi, String::new(), json!({"step": step, "function": k, "samples": n}))),
        }
    }
    Ok(())
}

/// Every binary operation with a special immediate on either side (infinite,
/// zero of either sign, the largest and smallest normal, a denormal), applied
/// to a variable over boxes whose bounds are exactly zero / infinite-free
/// edge cases, alone and fed into an out-of-line function: the interval
/// result must be well formed (both bounds NaN or neither, lower <= upper)
/// and nothing may panic (in generated code an assertion inside a callback
/// cannot unwind - the crash monitor attributes the abort to this case)
fn check_special_immediates<F: Backend>(st: &mut Stats) -> Result<(), Viol> {
    use fidget_core::context::Context;
    let name = F::NAME;
    let consts = [f32::INFINITY, f32::NEG_INFINITY, 0.0, -0.0, f32::MAX, f32::MIN, f32::MIN_POSITIVE, 1e-45, 1.0, -1.0];
    let boxes: [(f32, f32); 10] = [(0.0, 1.0), (-1.0, 0.0), (0.0, 0.0), (-0.0, 0.0), (-1.0, 1.0), (0.0, f32::MAX), (f32::MIN, 0.0), (1.0, 2.0), (-2.0, -1.0), (f32::MIN, f32::MAX)];
    type BinF = fn(&mut Context, Node, Node) -> Node;
    let ops: [(&str, BinF); 12] = [
        ("add", |c, a, b| c.add(a, b).unwrap()),
        ("sub", |c, a, b| c.sub(a, b).unwrap()),
        ("mul", |c, a, b| c.mul(a, b).unwrap()),
        ("div", |c, a, b| c.div(a, b).unwrap()),
        ("min", |c, a, b| c.min(a, b).unwrap()),
        ("max", |c, a, b| c.max(a, b).unwrap()),
        ("atan2", |c, a, b| c.atan2(a, b).unwrap()),
        ("mod", |c, a, b| c.modulo(a, b).unwrap()),
        ("compare", |c, a, b| c.compare(a, b).unwrap()),
        ("and", |c, a, b| c.and(a, b).unwrap()),
        ("or", |c, a, b| c.or(a, b).unwrap()),
        ("mix", |c, a, b| c.mix(a, b).unwrap()),
    ];
    for (opname, build) in ops {
        for k in consts {
            for imm_left in [false, true] {
                for wrap in [0u8, 1, 2] {
                    let mut cx = Context::new();
                    let x = cx.x();
                    let c = cx.constant(k);
                    let mut n = if imm_left { build(&mut cx, c, x) } else { build(&mut cx, x, c) };
                    n = match wrap {
                        1 => cx.exp(n).unwrap(),
                        2 => cx.atan(n).unwrap(),
                        _ => n,
                    };
                    if cx.get_const(n).is_ok() {
                        continue; // folded away
                    }
                    let f = F::new(&cx, &[n]).unwrap();
                    if f.vars().len() != 1 {
                        continue;
                    }
                    for bx in boxes {
                        child::note(&format!("C11 {name} special immediate | {opname} imm {k:?} left={imm_left} wrap={wrap} box {bx:?}"));
                        st.inc("special_immediate_interval_evals");
                        match guarded(|| interval_eval(&f, &[Interval::new(bx.0, bx.1)])) {
                            Ok(Ok((out, _))) => {
                                if !well_formed(out[0]) {
                                    return Err(Viol {
                                        sig: format!("ill_formed:{name}:special_immediate:{opname}"),
                                        msg: format!("{name}: {opname} with the immediate {k:?} on the {} over x = [{:?}, {:?}] (wrapper {wrap}) returned the ill-formed interval {:?}", if imm_left { "left" } else { "right" }, bx.0, bx.1, out[0]),
                                        detail: json!({"op": opname, "immediate_bits": k.to_bits(), "immediate_left": imm_left, "box": [format!("{:?}", bx.0), format!("{:?}", bx.1)]}),
                                    });
                                }
                            }
                            Ok(Err(e)) => return Err(Viol { sig: format!("spurious_error:{name}:special_immediate"), msg: e, detail: json!(null) }),
                            Err(pi) => return Err(panic_viol("special_immediate", name, &pi, format!(":{opname}"), json!({"op": opname, "immediate": format!("{k:?}"), "immediate_left": imm_left, "wrapper": wrap, "box": [format!("{:?}", bx.0), format!("{:?}", bx.1)]}))),
                        }
                    }
                }
            }
        }
    }
    Ok(())
}

fn check_prog(p: &Prog, seed: u64, st: &mut Stats) -> Option<Viol> {
    let mut rng = Rng::new(seed);
    let rng = &mut rng;
    let b = p.build();
    let roots = p.roots(&b);
    let order = graph::topo(&b.ctx, &roots);
    let pts: Vec<Vec<f32>> = (0..6)
        .map(|i| prog::gen_inputs(rng, p.n_vars, if i % 3 == 0 { Inputs::Tame } else { Inputs::FiniteWide }))
        .collect();
    let bxs: Vec<Vec<(f32, f32)>> = (0..6)
        .map(|i| {
            let k = match i % 3 {
                0 => boxes::random_tame_kind(rng),
                1 => BoxKind::MixedAll,
                _ => *rng.pick(&[BoxKind::Huge, BoxKind::TrigEdge, BoxKind::StraddleZero]),
            };
            boxes::gen_box(rng, p.n_vars, k)
        })
        .collect();
    let mut vm_panicked = vec![];
    if let Err(v) = check_backend::<VmFunction>(p, &b, &roots, &order, rng, &mut vm_panicked, &bxs, &pts, st) {
        return Some(v);
    }
    if let Err(v) = check_backend::<JitFunction>(p, &b, &roots, &order, rng, &mut vm_panicked, &bxs, &pts, st) {
        return Some(v);
    }
    if let Err(v) = check_arg_errors::<VmFunction>(&b, &roots, rng, st) {
        return Some(v);
    }
    if let Err(v) = check_arg_errors::<JitFunction>(&b, &roots, rng, st) {
        return Some(v);
    }
    if let Err(v) = check_reuse::<VmFunction>(&b, &roots, rng, st) {
        return Some(v);
    }
    if let Err(v) = check_reuse::<JitFunction>(&b, &roots, rng, st) {
        return Some(v);
    }
    if let Err(v) = check_reuse_outputs::<VmFunction>(rng, st) {
        return Some(v);
    }
    if let Err(v) = check_reuse_outputs::<JitFunction>(rng, st) {
        return Some(v);
    }
    None
}

fn finite_consts(p: &mut Prog, rng: &mut Rng) {
    for n in p.nodes.iter_mut() {
        if let PNode::Const(c) = n {
            // (an infinite constant is a legitimate part of an expression -
            // `max(x, -inf)`, a product of two large factors folded by the
            // context - and is kept now and then; NaN constants are not)
            if c.is_infinite() && rng.chance(0.35) {
                continue;
            }
            if !c.is_finite() {
                *c = if rng.chance(0.5) { f32::MAX } else { rng.log_f32(-20.0, 120.0) };
                if !c.is_finite() {
                    *c = 1.0;
                }
            }
        }
    }
}

impl Prop for C11 {
    fn id(&self) -> &'static str {
        "C11"
    }
    fn mode(&self) -> Mode {
        Mode::Children
    }
    fn n_cases(&self, tier: Tier) -> u64 {
        tier.pick(60_000, 1_500_000)
    }
    fn time_cap_s(&self, tier: Tier) -> u64 {
        tier.pick(100, 1200)
    }
    fn run_case(&self, case: u64, rng: &mut Rng, st: &mut Stats, tier: Tier) {
        let mut cfg = GenCfg::random(rng, tier.pick(60, 150));
        if rng.chance(0.5) {
            // overflow seeking
            cfg.profile = Profile::Arith;
        }
        cfg.consts = if rng.chance(0.5) { Consts::Hostile } else { Consts::Tame };
        cfg.n_outputs = if rng.chance(0.7) { 1 } else { 1 + rng.below(4) };
        let mut p = prog::generate(rng, &cfg);
        finite_consts(&mut p, rng);
        st.distinct(p.hash());
        st.sample(|| json!({"program": p.to_json()}));
        if case % 512 == 1 {
            for r in [check_special_immediates::<VmFunction>(st), check_special_immediates::<JitFunction>(st)] {
                if let Err(v) = r {
                    st.violation(case, v.sig, v.msg, json!({"detail": v.detail}));
                    return;
                }
            }
        }
        let seed = rng.next_u64();
        if let Some(v) = check_prog(&p, seed, st) {
            let sig = v.sig.clone();
            let mut scratch = Stats::default();
            // never re-run a JIT abort inside the shrinker: only shrink
            // violations that were caught in-process
            let small = crate::gen_::shrink::shrink(
                &p,
                &mut |q: &Prog| matches!(guarded(|| check_prog(q, seed, &mut scratch)), Ok(Some(w)) if w.sig == sig),
                200,
            );
            let v2 = check_prog(&small, seed, &mut scratch).filter(|w| w.sig == sig);
            let (v, pj) = match v2 {
                Some(w) => (w, small.to_json()),
                None => (v, p.to_json()),
            };
            st.violation(case, v.sig, v.msg, json!({"detail": v.detail, "program": pj, "check_seed": seed.to_string()}));
        }
    }
    fn finish(&self, st: &mut Stats, _tier: Tier) {
        if st.get("interval_evals_with_overflow_or_nan_output") * 10 < st.get("interval_evals") {
            st.inconclusive.push("fewer than 10% of interval evaluations overflowed or produced NaN".into());
        }
        for k in ["argerr_too_few_checked", "argerr_mismatch_checked", "argerr_missing_var_checked", "shape_interval_evals"] {
            if st.get(k) < 500 {
                st.inconclusive.push(format!("{k} = {} (floor 500)", st.get(k)));
            }
        }
    }
    fn rule(&self) -> String {
        "each case (in a child process) = one generated DAG with finite constants (overflow-seeking profile in half the cases), both backends: point / float-slice / gradient evaluation at 6 finite points up to f32::MAX, interval evaluation on 6 finite boxes (tame, mixed, huge, trig-edge, straddling zero), shape evaluation with a finite (affine or projective) matrix, and the malformed-argument matrix (too few variables, mismatched slice lengths, missing / extra bound variables, mismatched x/y/z); a panic, a process death, an Ok where an error value is due, or an interval that is neither ordered nor NaN is a violation; distinct = program hash".into()
    }
    fn assumptions(&self) -> Vec<String> {
        vec![
            "inputs and constants are finite by construction (the property's domain); NaN/inf results are fine".into(),
            "after the interpreter panicked on a box, the JIT interval evaluator is not run on that box (it calls the same Interval methods through callbacks that cannot unwind)".into(),
        ]
    }
}
