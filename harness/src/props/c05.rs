//! C05 - gradient evaluation returns the partial derivatives of the
//! expression. Local chain-rule obligation per node on the evaluator's own
//! operand duals, value equality with the point evaluator, and the symbolic
//! derivative against an f64 dual reference.
use crate::gen_::prog::{self, Consts, GenCfg, Inputs, Prog};
use crate::monitor::child;
use crate::props::evalutil::*;
use crate::refmodel::dual::{self, D};
use crate::refmodel::graph::{self, map_bin, map_un};
use crate::refmodel::op;
use crate::util::{Rng, Stats, Tier, guarded, same_bits};
use crate::{Mode, Prop};
use fidget_core::compiler::RegOp;
use fidget_core::context::{Context, Node, Op};
use fidget_core::types::Grad;
use fidget_core::var::Var;
use fidget_core::vm::VmFunction;
use fidget_jit::JitFunction;
use serde_json::{Value, json};
use std::collections::HashMap;

pub struct C05;

struct Viol {
    sig: String,
    msg: String,
    detail: Value,
}

const EPS32: f64 = f32::EPSILON as f64;

fn to_d(g: Grad) -> D {
    D {
        v: g.v as f64,
        d: [g.dx as f64, g.dy as f64, g.dz as f64],
    }
}

fn gen_seed(rng: &mut Rng, slot: usize) -> [f32; 3] {
    match rng.below(6) {
        // unit axis (the usual case)
        0 => {
            let mut s = [0.0; 3];
            s[slot % 3] = 1.0;
            s
        }
        1 => [0.0; 3],
        2 => [
            rng.log_f32(-20.0, 20.0),
            rng.log_f32(-20.0, 20.0),
            rng.log_f32(-20.0, 20.0),
        ],
        _ => [
            rng.uniform(-2.0, 2.0) as f32,
            rng.uniform(-2.0, 2.0) as f32,
            rng.uniform(-2.0, 2.0) as f32,
        ],
    }
}

fn check_backend<F: Backend>(
    p: &Prog,
    b: &prog::Built,
    order: &[Node],
    samples: &[Vec<Grad>], // per sample, per variable slot
    st: &mut Stats,
) -> Result<(), Viol> {
    let name = F::NAME;
    let idx: HashMap<Node, usize> = order.iter().enumerate().map(|(i, n)| (*n, i)).collect();
    let fa = F::new(&b.ctx, order).unwrap();
    let slot = slot_map(fa.vars(), &b.vars).unwrap();
    if fa.ops().iter().any(|o| matches!(o, RegOp::Load(..))) {
        st.inc(&format!("{name}_gradient_tapes_with_spills"));
    }
    if slot.is_empty() {
        return Ok(());
    }
    // one bulk call over all samples
    let cols: Vec<Vec<Grad>> = slot.iter().map(|&s| samples.iter().map(|smp| smp[s]).collect()).collect();
    child::note(&format!("C05 {name} grad slice eval | program {:016x}", p.hash()));
    let out = match guarded(|| grad_slice_eval(&fa, &cols)) {
        Ok(Ok(o)) => o,
        Ok(Err(e)) => return Err(Viol { sig: format!("{name}:eval_error"), msg: e, detail: json!(null) }),
        Err(pi) => return Err(Viol { sig: format!("{name}:panic:{}", pi.site()), msg: format!("gradient evaluation panicked: {}", pi.msg), detail: json!(null) }),
    };
    if out.len() != order.len() || out.iter().any(|c| c.len() != samples.len()) {
        return Err(Viol { sig: format!("{name}:shape"), msg: "gradient output has the wrong shape".into(), detail: json!(null) });
    }
    for (j, smp) in samples.iter().enumerate() {
        let by_slot: Vec<f32> = smp.iter().map(|g| g.v).collect();
        let info = analyse_with(b, order, &by_slot, false);
        // (1) value == point evaluator's value (same backend)
        let q: Vec<f32> = slot.iter().map(|&s| by_slot[s]).collect();
        let (pv, _) = point_eval(&fa, &q).map_err(|e| Viol { sig: format!("{name}:eval_error"), msg: e, detail: json!(null) })?;
        for (i, &n) in order.iter().enumerate() {
            if info.taint[&n] != Taint::Clean {
                st.inc("value_skipped_nan_into_rand_or_mix");
                continue;
            }
            st.inc("values_compared");
            let gv = out[i][j].v;
            if !same_bits(gv, pv[i]) {
                let opn = op_name(&b.ctx, n);
                return Err(Viol {
                    sig: format!("value:{name}:{opn}"),
                    msg: format!("{name}: the gradient evaluator's value {gv:?} differs from the point evaluator's value {:?} at node {opn}", pv[i]),
                    detail: json!({"node_op": opn, "grad_value": format!("{gv:?} (0x{:08x})", gv.to_bits()), "point_value": format!("{:?} (0x{:08x})", pv[i], pv[i].to_bits()),
                        "operands": b.ctx.get_op(n).unwrap().iter_children().map(|c| format!("{:?}", out[idx[&c]][j])).collect::<Vec<_>>(),
                        "inputs_by_var_slot": smp.iter().map(|g| format!("{g:?}")).collect::<Vec<_>>()}),
                });
            }
        }
        // (2) local chain rule on the evaluator's own operand duals
        for (i, &n) in order.iter().enumerate() {
            let got = out[i][j];
            let (rule, opn) = match *b.ctx.get_op(n).unwrap() {
                Op::Unary(o, a) => {
                    let o = map_un(o);
                    (dual::un_rule(o, to_d(out[idx[&a]][j])), o.name())
                }
                Op::Binary(o, a, c) => {
                    let o = map_bin(o);
                    (dual::bin_rule(o, to_d(out[idx[&a]][j]), to_d(out[idx[&c]][j])), o.name())
                }
                _ => continue,
            };
            if rule.skip {
                st.inc("partials_skipped_locus_or_range");
                continue;
            }
            st.inc(&format!("judged_{name}_{opn}"));
            st.inc("partial_nodes_judged");
            for k in 0..3 {
                let g = [got.dx, got.dy, got.dz][k] as f64;
                let want = rule.out.d[k];
                let tol = 64.0 * EPS32 * rule.t[k] + 1e-37;
                let err = (g - want).abs();
                if rule.t[k] > 0.0 {
                    st.max("max_partial_error_in_eps_T", err / (EPS32 * rule.t[k]));
                }
                if !(err <= tol) {
                    return Err(Viol {
                        sig: format!("partial:{name}:{opn}"),
                        msg: format!("{name}: partial {k} of {opn} is {g:e}, the derivative rule on the operands' duals gives {want:e} (tolerance {tol:e})"),
                        detail: json!({"op": opn, "partial_index": k, "got": format!("{got:?}"), "expected_partials": format!("{:?}", rule.out.d),
                            "operands": b.ctx.get_op(n).unwrap().iter_children().map(|c| format!("{:?}", out[idx[&c]][j])).collect::<Vec<_>>(),
                            "inputs_by_var_slot": smp.iter().map(|g| format!("{g:?}")).collect::<Vec<_>>()}),
                    });
                }
            }
        }
        // (the partial-export function is judged below, outside this loop)
        if smp.iter().any(|g| [g.dx, g.dy, g.dz].iter().filter(|d| **d != 0.0).count() != 1 || ![g.dx, g.dy, g.dz].iter().any(|d| *d == 1.0)) {
            st.inc("samples_with_non_axis_seeds");
        }
        st.inc("samples");
    }
    // ---- partial export: the all-nodes function keeps every value alive to
    // the end, which hides register-aliasing patterns (an operand dying at the
    // op that reuses its register). A second function exports a random subset;
    // each exported node is judged with the chain rule applied to the
    // operand duals of the all-nodes twin, and its value against the twin's.
    let mut r = crate::util::Rng::new(p.hash() ^ samples.len() as u64);
    // (20% of the functions, and every width-sweep program, export the root
    // alone: the register pressure of the expression itself)
    let root_only = order.len() > 400 || r.chance(0.2);
    let mut subset: Vec<usize> = (0..order.len()).filter(|i| *i + 1 == order.len() || (!root_only && r.chance(0.35))).collect();
    // the same node in more than one output slot (a Context deduplicates
    // equal expressions, so this is what exporting `f` twice looks like)
    if r.chance(0.3) {
        for _ in 0..1 + r.below(2) {
            let dup = subset[r.below(subset.len())];
            let at = r.below(subset.len() + 1);
            subset.insert(at, dup);
        }
        st.inc("partial_export_functions_with_repeated_outputs");
    }
    let sub_nodes: Vec<Node> = subset.iter().map(|&i| order[i]).collect();
    let fsub = F::new(&b.ctx, &sub_nodes).unwrap();
    let sslot = slot_map(fsub.vars(), &b.vars).unwrap();
    if !sslot.is_empty() {
        let scols: Vec<Vec<Grad>> = sslot.iter().map(|&s| samples.iter().map(|smp| smp[s]).collect()).collect();
        child::note(&format!("C05 {name} grad slice eval (partial export) | program {:016x}", p.hash()));
        let sout = match guarded(|| grad_slice_eval(&fsub, &scols)) {
            Ok(Ok(o)) => o,
            Ok(Err(e)) => return Err(Viol { sig: format!("{name}:eval_error"), msg: e, detail: json!(null) }),
            Err(pi) => return Err(Viol { sig: format!("{name}:panic:{}", pi.site()), msg: format!("gradient evaluation panicked: {}", pi.msg), detail: json!(null) }),
        };
        st.inc("partial_export_functions");
        for (j, smp) in samples.iter().enumerate() {
            let by_slot: Vec<f32> = smp.iter().map(|g| g.v).collect();
            let info = analyse_with(b, order, &by_slot, false);
            for (k, &i) in subset.iter().enumerate() {
                let n = order[i];
                let got = sout[k][j];
                if info.taint[&n] == Taint::Clean && !same_bits(got.v, out[i][j].v) {
                    let opn = op_name(&b.ctx, n);
                    return Err(Viol {
                        sig: format!("value_partial_export:{name}:{opn}"),
                        msg: format!("{name}: node {opn} evaluates to {:?} in a function exporting a subset of the nodes, but to {:?} when every node is exported", got.v, out[i][j].v),
                        detail: json!({"node_op": opn, "inputs_by_var_slot": smp.iter().map(|g| format!("{g:?}")).collect::<Vec<_>>()}),
                    });
                }
                let (rule, opn) = match *b.ctx.get_op(n).unwrap() {
                    Op::Unary(o, a) => {
                        let o = map_un(o);
                        (dual::un_rule(o, to_d(out[idx[&a]][j])), o.name())
                    }
                    Op::Binary(o, a, c) => {
                        let o = map_bin(o);
                        (dual::bin_rule(o, to_d(out[idx[&a]][j]), to_d(out[idx[&c]][j])), o.name())
                    }
                    _ => continue,
                };
                if rule.skip {
                    continue;
                }
                st.inc("partial_export_nodes_judged");
                for c in 0..3 {
                    let g = [got.dx, got.dy, got.dz][c] as f64;
                    let want = rule.out.d[c];
                    let tol = 64.0 * EPS32 * rule.t[c] + 1e-37;
                    if !((g - want).abs() <= tol) {
                        return Err(Viol {
                            sig: format!("partial_partial_export:{name}:{opn}"),
                            msg: format!("{name}: in a function exporting a subset of the nodes, partial {c} of {opn} is {g:e}; the derivative rule on the operands' duals gives {want:e}"),
                            detail: json!({"op": opn, "got": format!("{got:?}"), "inputs_by_var_slot": smp.iter().map(|g| format!("{g:?}")).collect::<Vec<_>>()}),
                        });
                    }
                }
            }
        }
    }
    Ok(())
}

/// f64 dual evaluation of a context graph (reference for the symbolic
/// derivative). Per node: the dual, whether a locus / range guard fired on
/// the way, and the running magnitude `S` of the chain-rule terms
/// (S_n = |k_a| S_a + |k_b| S_b), which scales the tolerance: the symbolic
/// derivative carries f32-rounded constants, so terms that cancel
/// mathematically leave a residue of order eps_f32 * S.
fn eval_dual(
    ctx: &Context,
    order: &[Node],
    vals: &HashMap<Var, f64>,
    wrt: Var,
) -> HashMap<Node, (D, bool, f64)> {
    let unit = |v: f64| D { v, d: [1.0, 0.0, 0.0] };
    let mut out: HashMap<Node, (D, bool, f64)> = HashMap::new();
    for &n in order {
        let r = match *ctx.get_op(n).unwrap() {
            Op::Input(v) => {
                let s = if v == wrt { 1.0 } else { 0.0 };
                (D { v: vals[&v], d: [s, 0.0, 0.0] }, false, s)
            }
            Op::Const(c) => (D::constant(c.0 as f64), false, 0.0),
            Op::Unary(o, a) => {
                let (da, sa, ma) = out[&a];
                let r = dual::un_rule(map_un(o), da);
                let k = dual::un_rule(map_un(o), unit(da.v)).out.d[0];
                (r.out, sa || r.skip, k.abs() * ma)
            }
            Op::Binary(o, a, c) => {
                let (da, sa, ma) = out[&a];
                let (dc, sc, mc) = out[&c];
                let r = dual::bin_rule(map_bin(o), da, dc);
                let ka = dual::bin_rule(map_bin(o), unit(da.v), D::constant(dc.v)).out.d[0];
                let kc = dual::bin_rule(map_bin(o), D::constant(da.v), unit(dc.v)).out.d[0];
                (r.out, sa || sc || r.skip, ka.abs() * ma + kc.abs() * mc)
            }
        };
        out.insert(n, r);
    }
    out
}

thread_local! {
    /// a context that lives for the whole run of a worker thread: every third
    /// symbolic check builds its program in it after `clear()`
    static LONG_CTX: std::cell::RefCell<Option<fidget_core::Context>> = const { std::cell::RefCell::new(None) };
}

/// Symbolic derivative: `Context::deriv(root, v)` evaluated in f64 must match
/// the f64 dual reference of the original program
fn check_symbolic(p: &Prog, rng: &mut Rng, st: &mut Stats) -> Result<(), Viol> {
    let reuse = rng.chance(0.34);
    let mut b = if reuse {
        // derivatives were taken in this context before it was cleared; node
        // handles restart from the beginning after a clear
        let mut ctx = LONG_CTX.with(|c| c.borrow_mut().take()).unwrap_or_default();
        ctx.clear();
        st.inc("symbolic_checks_in_a_cleared_long_lived_context");
        p.build_in(ctx, prog::fresh_vars(p.n_vars))
    } else {
        p.build()
    };
    let r = check_symbolic_in(p, &mut b, rng, st);
    if reuse {
        LONG_CTX.with(|c| *c.borrow_mut() = Some(b.ctx));
    }
    r
}

fn check_symbolic_in(p: &Prog, b: &mut prog::Built, rng: &mut Rng, st: &mut Stats) -> Result<(), Viol> {
    let root = p.roots(&b)[0];
    let order = graph::topo(&b.ctx, &[root]);
    let used: Vec<Var> = order
        .iter()
        .filter_map(|n| match b.ctx.get_op(*n) {
            Some(Op::Input(v)) => Some(*v),
            _ => None,
        })
        .collect();
    if used.is_empty() {
        return Ok(());
    }
    for _ in 0..2 {
        let wrt = *rng.pick(&used);
        let dnode = match guarded(|| b.ctx.deriv(root, wrt)) {
            Ok(Ok(d)) => d,
            Ok(Err(_)) => return Err(Viol { sig: "symbolic:error".into(), msg: "Context::deriv returned an error on a valid node".into(), detail: json!(null) }),
            Err(pi) => return Err(Viol { sig: format!("symbolic:panic:{}", pi.site()), msg: format!("Context::deriv panicked: {}", pi.msg), detail: json!(null) }),
        };
        let dorder = graph::topo(&b.ctx, &[dnode]);
        for _ in 0..6 {
            let vals: HashMap<Var, f64> = b
                .vars
                .iter()
                .map(|v| (*v, prog::gen_input(rng, Inputs::Tame) as f64))
                .collect();
            let reference = eval_dual(&b.ctx, &order, &vals, wrt);
            let (rd, rskip, rscale) = reference[&root];
            if rskip {
                st.inc("symbolic_skipped_locus_or_range");
                continue;
            }
            // evaluate the derivative expression in f64 (values only); a
            // locus inside the derivative expression itself also skips
            let dv = eval_dual(&b.ctx, &dorder, &vals, wrt);
            let (dd, dskip, _) = dv[&dnode];
            if dskip || !dd.v.is_finite() {
                st.inc("symbolic_skipped_locus_or_range");
                continue;
            }
            st.inc("symbolic_points_judged");
            let want = rd.d[0];
            if !rscale.is_finite() {
                st.inc("symbolic_skipped_locus_or_range");
                continue;
            }
            let scale = want.abs().max(rscale);
            st.max("max_symbolic_error_in_eps_S", (dd.v - want).abs() / (EPS32 * scale.max(1e-300)));
            if (dd.v - want).abs() > 32.0 * EPS32 * scale + 1e-30 {
                return Err(Viol {
                    sig: format!("symbolic:{}", op_name(&b.ctx, root)),
                    msg: format!("Context::deriv evaluates to {:e}, the dual-number reference to {want:e}", dd.v),
                    detail: json!({"wrt_var_slot": b.vars.iter().position(|v| *v == wrt),
                        "inputs_by_var_slot": b.vars.iter().map(|v| format!("{:?}", vals[v])).collect::<Vec<_>>()}),
                });
            }
        }
    }
    let _ = op::spec_rand(0.0);
    Ok(())
}

fn check_prog(p: &Prog, seed: u64, st: &mut Stats) -> Option<Viol> {
    let mut rng = Rng::new(seed);
    let rng = &mut rng;
    let b = p.build();
    let roots = p.roots(&b);
    let order = graph::topo(&b.ctx, &roots);
    let n_samples = 1 + rng.below(9);
    let samples: Vec<Vec<Grad>> = (0..n_samples)
        .map(|i| {
            (0..p.n_vars)
                .map(|s| {
                    let v = prog::gen_input(rng, if i % 4 == 3 { Inputs::Hostile } else { Inputs::Tame });
                    let d = gen_seed(rng, s);
                    Grad::new(v, d[0], d[1], d[2])
                })
                .collect()
        })
        .collect();
    if let Err(v) = check_backend::<VmFunction>(p, &b, &order, &samples, st) {
        return Some(v);
    }
    if let Err(v) = check_backend::<JitFunction>(p, &b, &order, &samples, st) {
        return Some(v);
    }
    if p.nodes.len() <= 40 {
        if let Err(v) = check_symbolic(p, rng, st) {
            return Some(v);
        }
    }
    None
}

impl Prop for C05 {
    fn id(&self) -> &'static str {
        "C05"
    }
    fn mode(&self) -> Mode {
        Mode::Children
    }
    fn n_cases(&self, tier: Tier) -> u64 {
        tier.pick(200_000, 1_000_000)
    }
    fn time_cap_s(&self, tier: Tier) -> u64 {
        tier.pick(100, 900)
    }
    fn run_case(&self, case: u64, rng: &mut Rng, st: &mut Stats, tier: Tier) {
        let mut cfg = GenCfg::random(rng, tier.pick(100, 200));
        cfg.n_outputs = 1;
        if rng.chance(0.7) {
            cfg.consts = Consts::Tame;
        }
        if rng.chance(0.01) {
            cfg = GenCfg::wide_sweep(rng);
            cfg.n_outputs = 1;
            st.inc("width_sweep_programs");
        }
        let p = prog::generate(rng, &cfg);
        st.distinct(p.hash());
        st.sample(|| json!({"program": p.to_json()}));
        let seed = rng.next_u64();
        if let Some(v) = check_prog(&p, seed, st) {
            let sig = v.sig.clone();
            let mut scratch = Stats::default();
            let small = crate::gen_::shrink::shrink(
                &p,
                &mut |q: &Prog| matches!(guarded(|| check_prog(q, seed, &mut scratch)), Ok(Some(w)) if w.sig == sig),
                300,
            );
            let v2 = check_prog(&small, seed, &mut scratch).filter(|w| w.sig == sig);
            let (v, pj) = match v2 {
                Some(w) => (w, small.to_json()),
                None => (v, p.to_json()),
            };
            st.violation(case, v.sig, v.msg, json!({"detail": v.detail, "program": pj, "check_seed": seed.to_string()}));
        }
    }
    fn finish(&self, st: &mut Stats, _tier: Tier) {
        for be in ["vm", "jit"] {
            for o in prog::UNS.iter().map(|o| o.name()).chain(prog::BINS.iter().map(|o| o.name())) {
                let k = format!("judged_{be}_{o}");
                if st.get(&k) < 200 {
                    st.inconclusive.push(format!("{k} = {} (floor 200)", st.get(&k)));
                }
            }
            // (the interpreter has 255 registers: only the JIT spills here)
            if be == "jit" && st.get(&format!("{be}_gradient_tapes_with_spills")) < 300 {
                st.inconclusive.push(format!("{be}: fewer than 300 gradient tapes with spills"));
            }
        }
        if st.get("samples_with_non_axis_seeds") * 10 < st.get("samples") * 3 {
            st.inconclusive.push("fewer than 30% samples with non-axis seeds".into());
        }
        if st.get("symbolic_points_judged") < 1000 {
            st.inconclusive.push("fewer than 1000 symbolic derivative points judged".into());
        }
    }
    fn rule(&self) -> String {
        "each case = one generated DAG with every node exported, 1..9 samples with arbitrary seed gradients per variable, both backends: (1) gradient value bit-equal to the same backend's point value per node; (2) per node, each partial within 64*eps*T of the opcode's derivative rule applied (in f64) to the f32 duals the evaluator produced for the operands (T = magnitude of the rule's terms; nodes on/near non-differentiable loci or outside f32's comfortable range skipped and counted); (3) for programs <= 40 nodes, Context::deriv w.r.t. a random variable evaluated in f64 vs an f64 dual-number reference at 6 points (rel 1e-6); distinct = program hash".into()
    }
    fn assumptions(&self) -> Vec<String> {
        vec![
            "non-differentiable loci guard: ties of min/max/compare within 1e-4 relative, |x|<1e-4 for abs/and/or/not/sqrt/ln/recip/div denominator/atan2 radius, within 1e-4 of a jump for floor/ceil/round/mod, |cos|<0.05 for tan, 1-v^2<0.01 for asin/acos, trig arguments > 1e4, non-finite or > 1e37 / < 1e-37 terms".into(),
        ]
    }
}
