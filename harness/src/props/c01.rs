//! C01 - compiled tapes compute exactly the expression they were built from.
//! Oracle: `Context::eval` on the same context (bit-for-bit, NaN~NaN), plus
//! the shadow interpreter with structural tape invariants.
use crate::gen_::prog::{self, GenCfg, Inputs, PNode, Prog};
use crate::refmodel::{graph, tape_shadow};
use crate::util::{Rng, Stats, Tier, fbits, guarded, same_bits};
use crate::{Mode, Prop};
use fidget_core::compiler::RegOp;
use fidget_core::context::Node;
use fidget_core::eval::{BulkEvaluator, MathFunction, TracingEvaluator};
use fidget_core::vm::{
    GenericVmFunction, VmFloatSliceEval, VmPointEval,
};
use serde_json::json;

pub struct C01;

const SLICE_LENS: [usize; 6] = [0, 1, 7, 8, 9, 33];

fn class(v: f32) -> &'static str {
    if v.is_nan() {
        "nan"
    } else if v == 0.0 {
        if v.is_sign_negative() { "-0" } else { "+0" }
    } else if v.is_infinite() {
        if v > 0.0 { "+inf" } else { "-inf" }
    } else if v.abs() < f32::MIN_POSITIVE {
        "denorm"
    } else {
        "normal"
    }
}

/// Finds the first program node where the compiled tape (all nodes exported)
/// and the graph disagree and describes it narrowly.
fn localise<const N: usize>(p: &Prog, vals: &[f32]) -> (String, serde_json::Value) {
    let pa = p.export_all();
    let b = pa.build();
    let roots = pa.roots(&b);
    let Ok(Ok(f)) = guarded(|| GenericVmFunction::<N>::new(&b.ctx, &roots)) else {
        return ("mismatch:unlocalised".into(), json!(null));
    };
    let vm = b.var_map(vals);
    let mut input = vec![0f32; f.data().vars.len()];
    for (var, idx) in f.data().vars.iter() {
        let slot = b.vars.iter().position(|v| *v == var).unwrap();
        input[idx] = vals[slot];
    }
    let mut ev = VmPointEval::<N>::new();
    let tape = f.tape();
    let Ok(Ok((out, _))) = guarded(|| ev.eval(&tape, &input).map(|(o, t)| (o.to_vec(), t.cloned()))) else {
        return ("mismatch:unlocalised".into(), json!(null));
    };
    for (i, n) in pa.nodes.iter().enumerate() {
        let want = b.ctx.eval(b.nodes[i], &vm).unwrap();
        if !same_bits(out[i], want) {
            let describe = |k: u32| -> String {
                let v = b.ctx.eval(b.nodes[k as usize], &vm).unwrap();
                let kind = if b.ctx.get_const(b.nodes[k as usize]).is_ok() {
                    "const"
                } else {
                    "reg"
                };
                format!("{kind}({})", class(v))
            };
            let sig = match *n {
                PNode::Un(o, a) => format!("mismatch:{}:{}", o.name(), describe(a)),
                PNode::Bin(o, a, c) => {
                    format!("mismatch:{}:{},{}", o.name(), describe(a), describe(c))
                }
                PNode::Var(_) => "mismatch:var".to_string(),
                PNode::Const(_) => "mismatch:const".to_string(),
            };
            return (
                sig,
                json!({"node": i, "tape": fbits(out[i]), "graph": fbits(want)}),
            );
        }
    }
    ("mismatch:unlocalised".into(), json!(null))
}

fn check_budget<const N: usize>(
    case: u64,
    p: &Prog,
    b: &prog::Built,
    roots: &[Node],
    inputs: &[Vec<f32>],
    expected: &[Vec<f32>],
    skip: &[Vec<bool>],
    st: &mut Stats,
) {
    let f = match guarded(|| GenericVmFunction::<N>::new(&b.ctx, roots)) {
        Ok(Ok(f)) => f,
        Ok(Err(_)) => {
            st.violation(case, format!("build_error:N{N}"), "BadNode from valid nodes", json!({"budget": N, "program": p.to_json()}));
            return;
        }
        Err(pi) => {
            if N < 3 {
                st.inc("small_budget_failed_loudly");
            } else {
                st.violation(
                    case,
                    format!("build_panic:{}:{}", pi.site(), pi.msg_class()),
                    format!("tape construction panicked with budget {N}: {}", pi.msg),
                    json!({"budget": N, "program": p.to_json()}),
                );
            }
            return;
        }
    };
    if N < 3 {
        st.inc("small_budget_built");
    }
    st.inc(&format!("budget_{N}"));
    let data = f.data();
    let ops: Vec<RegOp> = data.iter_asm().collect();
    let mut spills = 0;
    for op in &ops {
        let name = tape_shadow::variant_name(op);
        if matches!(op, RegOp::Load(..) | RegOp::Store(..)) {
            spills += 1;
        }
        st.inc(&format!("op_{name}"));
    }
    if spills > 0 {
        st.inc("tapes_with_spills");
    }
    st.inc("tapes");

    // map program variable slots to function inputs
    let nv = data.vars.len();
    let mut slot_of = vec![usize::MAX; nv];
    for (var, idx) in data.vars.iter() {
        slot_of[idx] = b.vars.iter().position(|v| *v == var).unwrap();
    }
    if slot_of.iter().any(|s| *s == usize::MAX) {
        st.violation(case, "varmap:hole", "VarMap indices are not 0..len", json!({"program": p.to_json()}));
        return;
    }
    let tape = f.tape();
    let mut pe = VmPointEval::<N>::new();
    let report = |st: &mut Stats, kind: &str, i: usize, o: usize, got: f32, want: f32| {
        let (sig, loc) = localise::<N>(p, &inputs[i]);
        st.violation(
            case,
            sig,
            format!("{kind} evaluation with budget {N} differs from graph evaluation: output {o} got {got:?} want {want:?}"),
            json!({"budget": N, "evaluator": kind, "output": o,
                   "got": fbits(got), "want": fbits(want),
                   "inputs_by_var_slot": inputs[i].iter().map(|v| fbits(*v)).collect::<Vec<_>>(),
                   "first_bad_node": loc,
                   "program": p.to_json()}),
        );
    };
    let mut any_bad = false;
    for (i, vals) in inputs.iter().enumerate() {
        let input: Vec<f32> = slot_of.iter().map(|&s| vals[s]).collect();
        let r = pe.eval(&tape, &input);
        let (out, _) = match r {
            Ok(x) => x,
            Err(e) => {
                st.violation(case, "eval_error", format!("point eval error {e}"), json!({"program": p.to_json()}));
                return;
            }
        };
        if out.len() != roots.len() {
            st.violation(case, "output_len", "wrong number of outputs", json!({"program": p.to_json()}));
            return;
        }
        let out = out.to_vec();
        for (o, (&got, &want)) in out.iter().zip(expected[i].iter()).enumerate() {
            if skip[i][o] {
                continue;
            }
            st.inc("point_comparisons");
            if !same_bits(got, want) && !any_bad {
                any_bad = true;
                report(st, "point", i, o, got, want);
            }
        }
        // independent shadow on the same op stream (first 4 inputs)
        if i < 4 {
            let sh = tape_shadow::run(&ops, &input, N, data.slot_count(), roots.len());
            if let Some(pr) = sh.problems.first() {
                st.violation(
                    case,
                    format!("structure:{}", pr.split(':').nth(1).unwrap_or("").split_whitespace().take(2).collect::<Vec<_>>().join("_")),
                    format!("tape structure (budget {N}): {pr}"),
                    json!({"budget": N, "problems": sh.problems, "program": p.to_json()}),
                );
                return;
            }
            for (o, want) in expected[i].iter().enumerate() {
                if skip[i][o] {
                    continue;
                }
                st.inc("shadow_comparisons");
                let got = sh.outputs[o].unwrap_or(f32::NAN);
                if !same_bits(got, *want) && !any_bad {
                    any_bad = true;
                    st.violation(
                        case,
                        "shadow_mismatch",
                        format!("independent interpretation of the tape (budget {N}) differs from the graph: output {o} got {got:?} want {want:?}"),
                        json!({"budget": N, "program": p.to_json(),
                               "inputs_by_var_slot": vals.iter().map(|v| fbits(*v)).collect::<Vec<_>>()}),
                    );
                }
            }
        }
    }
    // many-point evaluation
    let mut fe = VmFloatSliceEval::<N>::new();
    for &len in &SLICE_LENS {
        let cols: Vec<Vec<f32>> = slot_of
            .iter()
            .map(|&s| (0..len).map(|j| inputs[j % inputs.len()][s]).collect())
            .collect();
        let out = match fe.eval(&tape, &cols) {
            Ok(o) => o,
            Err(e) => {
                st.violation(case, "eval_error", format!("float slice eval error {e}"), json!({"program": p.to_json()}));
                return;
            }
        };
        if out.len() != roots.len() {
            st.violation(case, "output_len", "wrong number of bulk outputs", json!({"program": p.to_json()}));
            return;
        }
        // with zero variables the evaluator cannot know the length
        let exp_len = if nv == 0 { 0 } else { len };
        for o in 0..roots.len() {
            if out[o].len() != exp_len {
                st.violation(case, "bulk_len", format!("bulk output has {} samples, wanted {exp_len}", out[o].len()), json!({"budget": N, "program": p.to_json()}));
                return;
            }
            for j in 0..exp_len {
                if skip[j % inputs.len()][o] {
                    continue;
                }
                st.inc("slice_comparisons");
                let want = expected[j % inputs.len()][o];
                let got = out[o][j];
                if !same_bits(got, want) && !any_bad {
                    any_bad = true;
                    report(st, "float-slice", j % inputs.len(), o, got, want);
                }
            }
        }
    }
}

impl Prop for C01 {
    fn id(&self) -> &'static str {
        "C01"
    }
    fn mode(&self) -> Mode {
        Mode::Threads
    }
    fn n_cases(&self, tier: Tier) -> u64 {
        tier.pick(200_000, 1_500_000)
    }
    fn time_cap_s(&self, tier: Tier) -> u64 {
        tier.pick(90, 1200)
    }
    fn run_case(&self, case: u64, rng: &mut Rng, st: &mut Stats, tier: Tier) {
        let mut cfg = GenCfg::random(rng, tier.pick(400, 400));
        if rng.chance(0.01) {
            // hundreds of values live at once: budgets up to 255 spill, too
            cfg = GenCfg::wide_sweep(rng);
            cfg.profile = prog::Profile::Uniform;
            st.inc("width_sweep_programs");
        }
        let p = prog::generate(rng, &cfg);
        let b = p.build();
        let roots = p.roots(&b);
        let n_inputs = 12;
        let inputs: Vec<Vec<f32>> = (0..n_inputs)
            .map(|i| {
                prog::gen_inputs(
                    rng,
                    p.n_vars,
                    if p.nodes.len() < 12 && i % 2 == 0 {
                        Inputs::Special
                    } else if i % 3 == 2 {
                        Inputs::Tame
                    } else {
                        Inputs::Hostile
                    },
                )
            })
            .collect();
        let expected: Vec<Vec<f32>> = inputs
            .iter()
            .map(|vals| {
                let vm = b.var_map(vals);
                roots.iter().map(|r| b.ctx.eval(*r, &vm).unwrap()).collect()
            })
            .collect();
        let order = graph::topo(&b.ctx, &roots);
        let skip: Vec<Vec<bool>> = inputs
            .iter()
            .map(|vals| {
                let info = crate::props::evalutil::analyse_with(&b, &order, vals, false);
                roots
                    .iter()
                    .map(|r| info.taint[r] != crate::props::evalutil::Taint::Clean)
                    .collect()
            })
            .collect();
        st.add(
            "outputs_skipped_nan_into_rand_or_mix",
            skip.iter().flatten().filter(|s| **s).count() as u64,
        );
        st.add("output_samples_total", skip.iter().map(|s| s.len() as u64).sum());
        st.distinct(p.hash());
        st.sample(|| json!({"program": p.to_json(), "input0": inputs[0].iter().map(|v| format!("{v:?}")).collect::<Vec<_>>(), "expected0": expected[0].iter().map(|v| format!("{v:?}")).collect::<Vec<_>>()}));
        if p.outputs.len() > 1 {
            st.inc("multi_output_programs");
        }
        macro_rules! budgets {
            ($($n:literal),*) => {
                $( check_budget::<$n>(case, &p, &b, &roots, &inputs, &expected, &skip, st); )*
            };
        }
        budgets!(1, 2, 3, 4, 5, 6, 7, 8, 12, 16, 32, 64, 255);
    }
    fn finish(&self, st: &mut Stats, tier: Tier) {
        let floor_spills = tier.pick(1000, 1000);
        if st.get("tapes_with_spills") < floor_spills {
            st.inconclusive.push(format!(
                "only {} tapes with Load/Store (floor {floor_spills})",
                st.get("tapes_with_spills")
            ));
        }
        for n in [3, 4, 5, 6, 7, 8, 12, 16, 32, 64, 255] {
            if st.get(&format!("budget_{n}")) == 0 {
                st.inconclusive.push(format!("budget {n} never compiled"));
            }
        }
        let seen = st.counters.keys().filter(|k| k.starts_with("op_")).count();
        st.add("regop_variants_seen", seen as u64);
        if seen < 53 {
            st.inconclusive.push(format!("only {seen} RegOp variants seen"));
        }
    }
    fn rule(&self) -> String {
        "each case = one generated expression DAG (random profile/topology/size<=400, 3..40 variables, 1..8 outputs) compiled with budgets N in {1,2,3,4,5,6,7,8,12,16,32,64,255}, evaluated at 12 inputs (hostile+tame) by VmPointEval and by VmFloatSliceEval at slice lengths 0,1,7,8,9,33, compared bit-for-bit with Context::eval; distinct = structural hash of the program".into()
    }
    fn assumptions(&self) -> Vec<String> {
        vec![
            "Context::eval is the 'graph evaluated operation by operation' of the statement".into(),
            "libm results are deterministic within one process".into(),
        ]
    }
}
