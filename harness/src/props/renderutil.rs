//! Helpers shared by the rendering / meshing monitors (C06-C09)
use crate::gen_::prog::{Built, Prog};
use crate::util::Rng;
use fidget_core::context::{Context, Node};
use fidget_core::render::{ThreadPool, TileSizes};
use std::sync::OnceLock;

pub const POOL_SIZES: [usize; 6] = [1, 2, 3, 5, 8, 16];

static POOLS: OnceLock<Vec<ThreadPool>> = OnceLock::new();

/// Long-lived rayon pools of the sizes in `POOL_SIZES`
pub fn pool(i: usize) -> &'static ThreadPool {
    let pools = POOLS.get_or_init(|| {
        POOL_SIZES
            .iter()
            .map(|&n| {
                ThreadPool::Custom(
                    rayon::ThreadPoolBuilder::new()
                        .num_threads(n)
                        .build()
                        .expect("rayon pool"),
                )
            })
            .collect()
    });
    &pools[i % pools.len()]
}

/// A random valid tile-size list (descending, each divisible by the next)
pub fn random_tile_sizes(rng: &mut Rng, min_tile: usize, max_tile: usize) -> (TileSizes, Vec<usize>) {
    // 35%: any valid divisor chain (sizes that are not powers of two, down
    // to a smallest tile of 1..12), otherwise the usual powers of two
    if rng.chance(0.35) {
        let mut pick = vec![*rng.pick(&[1usize, 2, 3, 4, 5, 6, 7, 8, 12])];
        let levels = 1 + rng.below(4);
        while pick.len() < levels {
            let next = pick[0] * *rng.pick(&[2usize, 3, 4, 5]);
            if next > max_tile {
                break;
            }
            pick.insert(0, next);
        }
        return (TileSizes::new(&pick).expect("valid tile sizes"), pick);
    }
    let all: Vec<usize> = [4usize, 8, 16, 32, 64, 128]
        .into_iter()
        .filter(|t| *t >= min_tile && *t <= max_tile)
        .collect();
    let levels = 1 + rng.below(4.min(all.len()));
    // choose `levels` distinct sizes
    let mut idx: Vec<usize> = (0..all.len()).collect();
    rng.shuffle(&mut idx);
    let mut pick: Vec<usize> = idx[..levels].iter().map(|&i| all[i]).collect();
    pick.sort_unstable_by(|a, b| b.cmp(a));
    (TileSizes::new(&pick).expect("valid tile sizes"), pick)
}

pub struct Model {
    pub name: &'static str,
    pub ctx: Context,
    pub root: Node,
}

/// The bundled models (parsed once per process)
pub fn models() -> &'static Vec<Model> {
    static M: OnceLock<Vec<Model>> = OnceLock::new();
    M.get_or_init(|| {
        let mut out = vec![];
        for name in ["hi", "quarter", "tanglecube", "bear", "colonnade", "prospero"] {
            let path = format!("/repo/models/{name}.vm");
            if let Ok(bytes) = std::fs::read(&path) {
                if let Ok((ctx, root)) = Context::from_text(bytes.as_slice()) {
                    out.push(Model {
                        name: Box::leak(name.to_string().into_boxed_str()),
                        ctx,
                        root,
                    });
                }
            }
        }
        out
    })
}

pub fn built_root(p: &Prog, b: &Built) -> Node {
    b.nodes[p.outputs[0] as usize]
}

/// Compares a screen-to-model matrix with `world_to_model * screen_to_world`
/// computed here in f64 from the documented screen-to-world map (RegionSize
/// docs: the shorter side spans -1..+1, `+1` lies one pixel beyond the right /
/// top edge, Y is reversed, +z points out of the screen). Every entry must
/// agree within a few f32 roundings of the terms it sums. `size` and the
/// matrices are `N`-dimensional with homogeneous coordinates (row-major).
pub fn check_documented_mat(size: &[u32], world_to_model: &[Vec<f64>], got: &[Vec<f64>]) -> Option<String> {
    let n = size.len();
    let s = 2.0 / *size.iter().min().unwrap() as f64;
    let mut sw = vec![vec![0f64; n + 1]; n + 1];
    for a in 0..n {
        let (scale, centre) = if a == 1 { (-s, size[a] as f64 / 2.0 - 1.0) } else { (s, size[a] as f64 / 2.0) };
        sw[a][a] = scale;
        sw[a][n] = -centre * scale;
    }
    sw[n][n] = 1.0;
    for r in 0..=n {
        for c in 0..=n {
            let (mut want, mut mag) = (0f64, 0f64);
            for k in 0..=n {
                want += world_to_model[r][k] * sw[k][c];
                mag += (world_to_model[r][k] * sw[k][c]).abs();
            }
            if !((got[r][c] - want).abs() <= 16.0 * f32::EPSILON as f64 * mag + 1e-38) {
                return Some(format!(
                    "entry ({r},{c}) of the screen-to-model matrix is {:e}, world_to_model * (documented screen_to_world) gives {want:e}",
                    got[r][c]
                ));
            }
        }
    }
    None
}
