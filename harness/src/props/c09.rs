//! C09 - parallel execution and cancellation are unobservable in results.
//! Native stage: same scene under no pool and pools of 1..16 threads with
//! seeded delays injected at the hook points, results compared bit for bit;
//! cancellation before / at every poll / from a timer thread / never; offline
//! checker over the hook event log; shared-tape stress from 16 threads.
//! Sanitizer stage: the same workload under ThreadSanitizer (see `tsan`).
use crate::gen_::prog::{self, Consts, GenCfg, Inputs, Prog};
use crate::gen_::shape::{self, ShapeCfg};
use crate::monitor::child;
use crate::props::c08::{MeshSetup, build_mesh};
use crate::props::evalutil::*;
use crate::props::renderutil::*;
use crate::util::{Rng, Stats, Tier, guarded, hash_u64s, same_bits};
use crate::{Mode, Prop};
use fidget_core::context::{Context, Node};
use fidget_core::eval::{BulkEvaluator, Function, MathFunction, TracingEvaluator};
use fidget_core::render::verif::{SchedPoint, set_hook};
use fidget_core::render::{CancelToken, ImageSize, RenderHints, TileSizes, VoxelSize};
use fidget_core::shape::Shape;
use fidget_core::types::{Grad, Interval};
use fidget_core::vm::VmFunction;
use fidget_jit::JitFunction;
use fidget_mesh::Mesh;
use fidget_raster::pixel::DistancePixel;
use nalgebra::{Matrix3, Matrix4};
use serde_json::{Value, json};
use std::collections::{BTreeMap, HashMap};
use std::sync::atomic::{AtomicBool, AtomicU64, Ordering};
use std::sync::{Arc, Mutex};

pub struct C09;

////////////////////////////////////////////////////////////////////////////////
// Hook-driven monitor: event log + fault/delay injection

#[derive(Clone, Copy, Debug)]
pub struct Event {
    pub seq: u64,
    pub thread: u64,
    pub point: SchedPoint,
}

#[derive(Default)]
pub struct MonitorCfg {
    /// seed for injected delays (0 = none)
    pub delay_seed: u64,
    /// cancel when the k-th poll (1-based) is reached
    pub cancel_at_poll: Option<u64>,
    pub token: Option<CancelToken>,
}

pub struct Monitor {
    log: Mutex<Vec<Event>>,
    seq: AtomicU64,
    polls: AtomicU64,
    cfg: Mutex<MonitorCfg>,
    /// seq of the poll at which the hook cancelled
    cancel_seq: AtomicU64,
    enabled: AtomicBool,
}

fn thread_num() -> u64 {
    use std::hash::{Hash, Hasher};
    let mut h = std::collections::hash_map::DefaultHasher::new();
    std::thread::current().id().hash(&mut h);
    h.finish()
}

impl Monitor {
    fn hook(&self, p: &SchedPoint) {
        if !self.enabled.load(Ordering::Acquire) {
            return;
        }
        if matches!(p, SchedPoint::VoxelTileDecision { .. }) {
            return;
        }
        // One lock orders everything the monitor does: sequence numbers, the
        // poll count, the injected cancel and the log entry. A poll whose seq
        // is larger than the cancel's seq therefore reads the flag after it
        // was set (the read happens after this hook returns).
        let delay_seed = {
            let cfg = self.cfg.lock().unwrap();
            let seq = self.seq.fetch_add(1, Ordering::SeqCst);
            if matches!(p, SchedPoint::CancelPoll) {
                let k = self.polls.fetch_add(1, Ordering::SeqCst) + 1;
                if cfg.cancel_at_poll == Some(k) {
                    if let Some(t) = &cfg.token {
                        t.cancel();
                        self.cancel_seq.store(seq, Ordering::SeqCst);
                    }
                }
            }
            self.log.lock().unwrap().push(Event { seq, thread: thread_num(), point: *p });
            cfg.delay_seed
        };
        let seq = self.seq.load(Ordering::Relaxed);
        if delay_seed != 0 {
            let r = hash_u64s(&[delay_seed, seq, thread_num()]);
            match r % 8 {
                0 => std::thread::yield_now(),
                1 => std::thread::sleep(std::time::Duration::from_micros(r >> 8 & 0xff)),
                2 => {
                    for _ in 0..(r >> 8 & 0x3ff) {
                        std::hint::spin_loop();
                    }
                }
                _ => (),
            }
        }
    }
    pub fn begin(&self, cfg: MonitorCfg) {
        self.log.lock().unwrap().clear();
        self.seq.store(0, Ordering::SeqCst);
        self.polls.store(0, Ordering::SeqCst);
        self.cancel_seq.store(u64::MAX, Ordering::SeqCst);
        *self.cfg.lock().unwrap() = cfg;
        self.enabled.store(true, Ordering::Release);
    }
    pub fn end(&self) -> (Vec<Event>, u64, u64) {
        self.enabled.store(false, Ordering::Release);
        let log = std::mem::take(&mut *self.log.lock().unwrap());
        (log, self.polls.load(Ordering::SeqCst), self.cancel_seq.load(Ordering::SeqCst))
    }
}

pub fn monitor() -> &'static Arc<Monitor> {
    static M: std::sync::OnceLock<Arc<Monitor>> = std::sync::OnceLock::new();
    M.get_or_init(|| {
        let m = Arc::new(Monitor {
            log: Mutex::new(vec![]),
            seq: AtomicU64::new(0),
            polls: AtomicU64::new(0),
            cfg: Mutex::new(MonitorCfg::default()),
            cancel_seq: AtomicU64::new(u64::MAX),
            enabled: AtomicBool::new(false),
        });
        let m2 = m.clone();
        set_hook(Some(Arc::new(move |p: &SchedPoint| m2.hook(p))));
        m
    })
}

////////////////////////////////////////////////////////////////////////////////
// Workloads with canonical (bit-level) results

#[derive(Clone, Copy, Debug, PartialEq, Eq)]
pub enum Kind {
    Image2,
    Image3,
    Mesh,
}

pub struct Scene {
    pub kind: Kind,
    pub prog: Prog,
    pub w: u32,
    pub h: u32,
    pub d: u32,
    pub tiles: Vec<usize>,
    pub depth: u8,
    pub jit: bool,
    /// world-to-model views (2D image, 3D image / mesh); identity in half
    /// of the scenes
    pub view2: Matrix3<f32>,
    pub view3: Matrix4<f32>,
    /// 2D: every pixel carries its value (interval fills are not used)
    pub pixel_perfect: bool,
}

/// Canonical result: a vector of words that is equal iff the results are
/// equal in the sense of the property
pub type Canon = Vec<u64>;

fn canon_mesh(m: &Mesh) -> Canon {
    let key = |i: usize| -> [u32; 3] {
        let v = m.vertices[i];
        [v.x.to_bits(), v.y.to_bits(), v.z.to_bits()]
    };
    let mut tris: Vec<[[u32; 3]; 3]> = m
        .triangles
        .iter()
        .map(|t| {
            let ks = [key(t.x), key(t.y), key(t.z)];
            // rotate so that the smallest vertex comes first (keeps winding)
            let r = (0..3).min_by_key(|&k| ks[k]).unwrap();
            [ks[r], ks[(r + 1) % 3], ks[(r + 2) % 3]]
        })
        .collect();
    tris.sort_unstable();
    tris.iter().flat_map(|t| t.iter().map(|k| hash_u64s(&[k[0] as u64, k[1] as u64, k[2] as u64]))).collect()
}

pub fn run_scene<F: Function + MathFunction + RenderHints + Clone>(
    ctx: &Context,
    root: Node,
    sc: &Scene,
    pool_idx: Option<usize>,
    cancel: CancelToken,
) -> Option<Canon> {
    match sc.kind {
        Kind::Image2 => {
            let shape = Shape::<F>::new(ctx, root).unwrap();
            let bound = shape.try_into().ok()?;
            let cfg = fidget_raster::pixel::RenderConfig {
                image_size: ImageSize::new(sc.w, sc.h),
                world_to_model: sc.view2,
                pixel_perfect: sc.pixel_perfect,
                z: 0.1,
            };
            let ec = fidget_raster::pixel::EvalConfig {
                tile_sizes: Some(TileSizes::new(&sc.tiles).unwrap()),
                threads: pool_idx.map(pool),
                cancel,
            };
            let threads = pool_idx.map(pool);
            fidget_raster::pixel::render(bound, &cfg, &ec).map(|img| {
                let mut out: Canon = img
                    .iter()
                    .map(|p| match p.unpack() {
                        DistancePixel::Value(v) => v.to_bits() as u64,
                        DistancePixel::Fill { depth, inside } => (1u64 << 40) | ((depth as u64) << 1) | inside as u64,
                    })
                    .collect();
                // the row-parallel post-processing passes, with the same pool
                // (not on images without pixels: `apply_effect` chunks rows
                // by the width and panics for width 0, pool or no pool -
                // outside what this property states)
                use fidget_raster::effects;
                if sc.w == 0 || sc.h == 0 {
                    return out;
                }
                for bmp in [
                    effects::to_rgba_bitmap(img.clone(), false, threads),
                    effects::to_rgba_bitmap(img.clone(), true, threads),
                    effects::to_debug_bitmap(img.clone(), threads),
                    effects::to_rgba_distance(img.clone(), threads),
                ] {
                    out.push(0xEFFEC7);
                    out.extend(bmp.iter().map(|p| u32::from_le_bytes(*p) as u64));
                }
                out
            })
        }
        Kind::Image3 => {
            let shape = Shape::<F>::new(ctx, root).unwrap();
            let bound = shape.try_into().ok()?;
            let cfg = fidget_raster::voxel::RenderConfig { image_size: VoxelSize::new(sc.w, sc.h, sc.d), world_to_model: sc.view3 };
            let ec = fidget_raster::voxel::EvalConfig {
                tile_sizes: Some(TileSizes::new(&sc.tiles).unwrap()),
                threads: pool_idx.map(pool),
                cancel,
            };
            let threads = pool_idx.map(pool);
            fidget_raster::voxel::render(bound, &cfg, &ec).map(|img| {
                let px = |p: &fidget_raster::voxel::GeometryPixel| {
                    [p.depth as u64, hash_u64s(&[p.normal[0].to_bits() as u64, p.normal[1].to_bits() as u64, p.normal[2].to_bits() as u64])]
                };
                let mut out: Canon = img.iter().flat_map(px).collect();
                // the row-parallel post-processing passes, with the same pool
                // (the SSAO kernel is drawn from the thread RNG, so only the
                // deterministic passes are compared; blur_ssao gets a
                // deterministic occlusion image made from the depths)
                use fidget_raster::effects;
                if sc.w == 0 || sc.h == 0 {
                    return out;
                }
                let den = effects::denoise_normals(&img, threads);
                out.push(0xEFFEC7);
                out.extend(den.iter().flat_map(px));
                let shaded = effects::apply_shading(&img, false, threads);
                out.push(0xEFFEC7);
                out.extend(shaded.iter().map(|p| u32::from_le_bytes([p[0], p[1], p[2], 0]) as u64));
                let occ: Vec<f32> = img.iter().map(|p| if p.depth == 0 { f32::NAN } else { (p.depth % 7) as f32 / 7.0 }).collect();
                let occ = fidget_raster::Image::<f32>::build(occ, ImageSize::new(sc.w, sc.h)).expect("pixel count");
                let blurred = effects::blur_ssao(&occ, threads);
                out.push(0xEFFEC7);
                out.extend(blurred.iter().map(|v| v.to_bits() as u64));
                out
            })
        }
        Kind::Mesh => {
            let su = MeshSetup { depth: sc.depth, mat: sc.view3, jit: sc.jit, pool: pool_idx };
            build_mesh::<F>(ctx, root, &su, cancel).ok()?.map(|m| canon_mesh(&m))
        }
    }
}

pub fn run_scene_dyn(ctx: &Context, root: Node, sc: &Scene, pool_idx: Option<usize>, cancel: CancelToken) -> Option<Canon> {
    if sc.jit {
        run_scene::<JitFunction>(ctx, root, sc, pool_idx, cancel)
    } else {
        run_scene::<VmFunction>(ctx, root, sc, pool_idx, cancel)
    }
}

pub fn gen_scene(rng: &mut Rng) -> Scene {
    let kind = *rng.pick(&[Kind::Image2, Kind::Image2, Kind::Image3, Kind::Mesh]);
    let mut cfg = if kind == Kind::Mesh { ShapeCfg::mesh() } else { ShapeCfg::render() };
    cfg.max_depth = 1 + rng.below(2);
    cfg.flat = kind == Kind::Image2 && rng.chance(0.3);
    let prog = shape::generate(rng, &cfg);
    let (w, h, d, tiles) = match kind {
        Kind::Image2 => {
            let t = rng.pick(&[vec![8usize, 4], vec![16, 4], vec![8], vec![16, 8, 4]]).clone();
            (16 + rng.below(64) as u32, 16 + rng.below(48) as u32, 0, t)
        }
        Kind::Image3 => {
            let t = rng.pick(&[vec![8usize, 4], vec![8], vec![16, 8, 4]]).clone();
            (8 + rng.below(32) as u32, 8 + rng.below(32) as u32, 8 + rng.below(24) as u32, t)
        }
        Kind::Mesh => (0, 0, 0, vec![]),
    };
    let mut prog = prog;
    if kind != Kind::Mesh && rng.chance(0.2) {
        // many values live at once and choices that every tile decides
        // differently (see C06): simplifications that are not shorter than
        // their parent, caches keyed by the trace - what one worker carries
        // from tile to tile depends on how the tiles are split into runs
        prog = crate::props::c06::pressure_scene(rng, kind == Kind::Image3);
    }
    let mut keep_identity = false;
    if kind == Kind::Image3 && rng.chance(0.3) {
        keep_identity = true;
        // something just beyond the top of the grid (world z > 1): when the
        // depth is not a multiple of the root tile, the top slab reaches into
        // it and the columns below come out saturated - with or without a pool
        use crate::gen_::prog::{Bin, PNode, Un};
        let mut push = |n: PNode| {
            prog.nodes.push(n);
            (prog.nodes.len() - 1) as u32
        };
        let z = push(PNode::Var(2));
        let above = if rng.chance(0.5) {
            // a ceiling: negative for z > 1 + e
            let c = push(PNode::Const(1.0 + rng.uniform(0.01, 0.2) as f32));
            push(PNode::Bin(Bin::Sub, c, z))
        } else {
            // a ball hanging over part of the image
            let (x, y) = (push(PNode::Var(0)), push(PNode::Var(1)));
            let (cx, cy, cz) = (push(PNode::Const(rng.uniform(-0.6, 0.6) as f32)), push(PNode::Const(rng.uniform(-0.6, 0.6) as f32)), push(PNode::Const(1.0 + rng.uniform(0.35, 0.6) as f32)));
            let (dx, dy, dz) = (push(PNode::Bin(Bin::Sub, x, cx)), push(PNode::Bin(Bin::Sub, y, cy)), push(PNode::Bin(Bin::Sub, z, cz)));
            let (x2, y2, z2) = (push(PNode::Un(Un::Square, dx)), push(PNode::Un(Un::Square, dy)), push(PNode::Un(Un::Square, dz)));
            let s = push(PNode::Bin(Bin::Add, x2, y2));
            let s = push(PNode::Bin(Bin::Add, s, z2));
            let r = push(PNode::Un(Un::Sqrt, s));
            let rad = push(PNode::Const(rng.uniform(0.25, 0.33) as f32));
            push(PNode::Bin(Bin::Sub, r, rad))
        };
        let old = prog.outputs[0];
        let root = push(PNode::Bin(Bin::Min, old, above));
        prog.outputs = vec![root];
    }
    let (mut w, mut h, mut d, mut tiles) = (w, h, d, tiles);
    if kind == Kind::Image3 && rng.chance(0.15) {
        keep_identity = true;
        // a body that fills most of the view volume, and a ball far above
        // the grid: over the whole view volume the union is decided (the
        // body), but the top slab of a grid whose depth is just above a
        // multiple of the root tile reaches up to the ball, which saturates
        // the columns below it - with or without a pool
        use crate::gen_::shape::B;
        let mut b = B::new();
        let (x, y, z) = (b.var(0), b.var(1), b.var(2));
        let ball = |b: &mut B, c: [f32; 3], r: f32| {
            let (dx, dy, dz) = (b.subc(x, c[0]), b.subc(y, c[1]), b.subc(z, c[2]));
            let (x2, y2, z2) = (b.sq(dx), b.sq(dy), b.sq(dz));
            let s = b.add(x2, y2);
            let s = b.add(s, z2);
            let q = b.sqrt(s);
            b.subc(q, r)
        };
        let body = ball(&mut b, [0.0, 0.0, 0.0], rng.uniform(1.1, 1.4) as f32);
        let far = ball(&mut b, [rng.uniform(-0.5, 0.5) as f32, rng.uniform(-0.5, 0.5) as f32, 1.0 + rng.uniform(0.9, 1.6) as f32], rng.uniform(0.2, 0.35) as f32);
        let root = if rng.chance(0.5) { b.min(body, far) } else { b.min(far, body) };
        prog = Prog { nodes: b.nodes, n_vars: 3, outputs: vec![root] };
        tiles = rng.pick(&[vec![8usize], vec![8, 4], vec![16, 4], vec![16, 8, 4]]).clone();
        let root_tile = tiles[0] as u32;
        d = root_tile * (1 + rng.below(2) as u32) + 1 + rng.below(3) as u32;
        w = d + rng.below(8) as u32;
        h = d + rng.below(8) as u32;
    }
    // half of the scenes are looked at through a non-identity view (the
    // far-ball scenes above keep the identity: their geometry is placed in
    // world coordinates)
    let plain = rng.chance(0.5) || keep_identity;
    let view2 = if plain { Matrix3::identity() } else { crate::props::c06::random_mat3(rng) };
    let view3 = if plain {
        Matrix4::identity()
    } else if kind == Kind::Mesh {
        crate::props::c08::random_mesh_mat(rng)
    } else {
        crate::props::c07::random_mat4(rng)
    };
    Scene { kind, prog, w, h, d, tiles, depth: 2 + rng.below(3) as u8, jit: rng.chance(0.5), view2, view3, pixel_perfect: rng.chance(0.5) }
}

////////////////////////////////////////////////////////////////////////////////
// Offline checker over the event log

struct LogVerdict {
    problems: Vec<String>,
    signature: u64,
    units: usize,
}

fn check_log(log: &[Event], cancelled_at: u64, uncancelled: bool, expected_units: Option<usize>) -> LogVerdict {
    let mut problems = vec![];
    let mut starts: BTreeMap<(u8, usize, usize), Vec<(u64, u64)>> = BTreeMap::new();
    let mut ends: BTreeMap<(u8, usize, usize), u64> = BTreeMap::new();
    let mut last_poll: HashMap<u64, u64> = HashMap::new();
    let mut order = vec![];
    for e in log {
        match e.point {
            SchedPoint::CancelPoll => {
                last_poll.insert(e.thread, e.seq);
            }
            SchedPoint::RasterTileStart { x, y } => {
                starts.entry((0, x, y)).or_default().push((e.seq, e.thread));
                order.push(hash_u64s(&[x as u64, y as u64]));
                // the poll that let this tile through must precede the cancel
                if let Some(p) = last_poll.get(&e.thread) {
                    if *p >= cancelled_at {
                        problems.push(format!("tile ({x},{y}) started although its worker's poll (seq {p}) came at/after the cancel (seq {cancelled_at})"));
                    }
                }
            }
            SchedPoint::RasterTileEnd { x, y } => {
                *ends.entry((0, x, y)).or_default() += 1;
            }
            SchedPoint::OctreeTaskStart { depth, index } => {
                starts.entry((1, depth, index)).or_default().push((e.seq, e.thread));
                order.push(hash_u64s(&[depth as u64, index as u64, 7]));
            }
            SchedPoint::OctreeTaskEnd { depth, index } => {
                *ends.entry((1, depth, index)).or_default() += 1;
            }
            _ => (),
        }
    }
    for (k, s) in &starts {
        if s.len() != 1 {
            problems.push(format!("unit {k:?} started {} times", s.len()));
        }
        let e = ends.get(k).copied().unwrap_or(0);
        if e != 1 && uncancelled {
            problems.push(format!("unit {k:?} started once but ended {e} times"));
        }
        if e > 1 {
            problems.push(format!("unit {k:?} ended {e} times"));
        }
    }
    for k in ends.keys() {
        if !starts.contains_key(k) {
            problems.push(format!("unit {k:?} ended without a start"));
        }
    }
    if let (true, Some(n)) = (uncancelled, expected_units) {
        if starts.len() != n {
            problems.push(format!("{} units started, expected {n}", starts.len()));
        }
    }
    // schedule signature: unit -> thread map and global start order
    let mut threads: Vec<u64> = starts.values().map(|s| s[0].1).collect();
    // thread ids renamed in order of first appearance
    let mut names: HashMap<u64, u64> = HashMap::new();
    for t in threads.iter_mut() {
        let n = names.len() as u64;
        *t = *names.entry(*t).or_insert(n);
    }
    let signature = hash_u64s(&[hash_u64s(&threads), hash_u64s(&order)]);
    LogVerdict { problems, signature, units: starts.len() }
}

////////////////////////////////////////////////////////////////////////////////

fn scene_json(sc: &Scene) -> Value {
    json!({"kind": format!("{:?}", sc.kind), "w": sc.w, "h": sc.h, "d": sc.d, "tiles": sc.tiles, "mesh_depth": sc.depth,
        "backend": if sc.jit { "jit" } else { "vm" }, "shape": sc.prog.to_json(),
        "pixel_perfect": sc.pixel_perfect, "view_2d": format!("{:?}", sc.view2), "view_3d": format!("{:?}", sc.view3)})
}

fn expected_units(sc: &Scene) -> Option<usize> {
    match sc.kind {
        Kind::Mesh => None,
        _ => {
            // the renderer picks its root tile from the list and the image size
            let max = sc.w.max(sc.h) as usize;
            let i = sc.tiles.iter().position(|t| *t < max).unwrap_or(sc.tiles.len()).saturating_sub(1);
            let t = sc.tiles[i];
            Some((sc.w as usize).div_ceil(t) * (sc.h as usize).div_ceil(t))
        }
    }
}

/// The deterministic / cancellation part for one scene
pub fn check_scene(sc: &Scene, rng: &mut Rng, st: &mut Stats, light: bool) -> Option<(String, String, Value)> {
    let mon = monitor();
    let b = sc.prog.build();
    let root = built_root(&sc.prog, &b);
    let kname = format!("{:?}", sc.kind).to_lowercase();
    // ---- reference: no pool, never cancelled
    mon.begin(MonitorCfg::default());
    let reference = guarded(|| run_scene_dyn(&b.ctx, root, sc, None, CancelToken::new()));
    let (log0, polls0, _) = mon.end();
    let reference = match reference {
        Ok(Some(r)) => r,
        Ok(None) => return Some((format!("{kname}:none_without_cancel"), "a run whose token was never set returned no result".into(), scene_json(sc))),
        Err(pi) => return Some((format!("panic:{}", pi.site()), pi.msg, scene_json(sc))),
    };
    let v0 = check_log(&log0, u64::MAX, true, expected_units(sc));
    if let Some(p) = v0.problems.first() {
        return Some((format!("{kname}:event_log"), format!("unpooled run: {p}"), scene_json(sc)));
    }
    st.inc(&format!("{kname}_scenes"));
    st.add(&format!("{kname}_units"), v0.units as u64);
    // ---- pools with injected delays
    let pools: Vec<usize> = if light { vec![rng.below(POOL_SIZES.len()), rng.below(POOL_SIZES.len())] } else { (0..POOL_SIZES.len()).collect() };
    for pi in pools {
        for rep in 0..(if light { 1 } else { 2 }) {
            mon.begin(MonitorCfg { delay_seed: if rep == 0 { 0 } else { rng.next_u64() | 1 }, ..Default::default() });
            child::note(&format!("C09 {kname} pooled run | pool {}", POOL_SIZES[pi]));
            let r = guarded(|| run_scene_dyn(&b.ctx, root, sc, Some(pi), CancelToken::new()));
            let (log, _, _) = mon.end();
            let r = match r {
                Ok(r) => r,
                Err(p) => return Some((format!("panic:{}", p.site()), p.msg, scene_json(sc))),
            };
            st.inc(&format!("pool_{}_runs", POOL_SIZES[pi]));
            let Some(r) = r else {
                return Some((format!("{kname}:none_without_cancel"), format!("pool of {} threads: a run whose token was never set returned no result", POOL_SIZES[pi]), scene_json(sc)));
            };
            if r != reference {
                let first = r.iter().zip(reference.iter()).position(|(a, b)| a != b);
                return Some((format!("{kname}:pool_result_differs"),
                    format!("pool of {} threads: result differs from the unpooled run (lengths {} vs {}, first difference at word {:?})", POOL_SIZES[pi], r.len(), reference.len(), first),
                    scene_json(sc)));
            }
            let v = check_log(&log, u64::MAX, true, expected_units(sc));
            if let Some(p) = v.problems.first() {
                return Some((format!("{kname}:event_log"), format!("pool of {}: {p}", POOL_SIZES[pi]), scene_json(sc)));
            }
            st.set_insert(&format!("{kname}_schedules"), &format!("{:016x}", v.signature));
        }
    }
    // ---- cancelled before the call
    {
        let t = CancelToken::new();
        t.cancel();
        mon.begin(MonitorCfg::default());
        let r = guarded(|| run_scene_dyn(&b.ctx, root, sc, Some(rng.below(POOL_SIZES.len())), t));
        mon.end();
        st.inc("cancel_before_runs");
        match r {
            Ok(None) => (),
            Ok(Some(_)) => return Some((format!("{kname}:result_after_cancel_before"), "a run whose token was set before the call returned a result".into(), scene_json(sc))),
            Err(p) => return Some((format!("panic:{}", p.site()), p.msg, scene_json(sc))),
        }
    }
    // ---- cancel at poll k, for every k of the unpooled run (enumerated) and
    // sampled k under pools
    let ks: Vec<u64> = if polls0 <= 40 && !light { (1..=polls0).collect() } else { (0..6).map(|_| 1 + rng.below(polls0.max(1) as usize) as u64).collect() };
    if polls0 <= 40 && !light {
        st.inc("scenes_with_cancel_enumerated_at_every_poll");
    }
    for k in ks {
        for pooled in [false, true] {
            let t = CancelToken::new();
            mon.begin(MonitorCfg { delay_seed: 0, cancel_at_poll: Some(k), token: Some(t.clone()) });
            let pi = if pooled { Some(rng.below(POOL_SIZES.len())) } else { None };
            child::note(&format!("C09 {kname} cancel at poll {k} | pooled {pooled}"));
            let r = guarded(|| run_scene_dyn(&b.ctx, root, sc, pi, t));
            let (log, polls, cancel_seq) = mon.end();
            st.inc("cancel_at_poll_runs");
            let r = match r {
                Ok(r) => r,
                Err(p) => return Some((format!("panic:{}", p.site()), p.msg, scene_json(sc))),
            };
            let fired = cancel_seq != u64::MAX;
            match (fired, r) {
                (true, Some(_)) => {
                    return Some((format!("{kname}:result_although_cancelled"),
                        format!("the token was set during poll {k} of {polls} (so that poll observed it) but the run returned a result"), scene_json(sc)));
                }
                (false, None) => {
                    return Some((format!("{kname}:none_without_cancel"), format!("poll {k} was never reached ({polls} polls) yet the run returned no result"), scene_json(sc)));
                }
                (false, Some(r)) => {
                    if r != reference {
                        return Some((format!("{kname}:pool_result_differs"), "uncancelled run differs from the reference".into(), scene_json(sc)));
                    }
                }
                (true, None) => {
                    let v = check_log(&log, cancel_seq, false, None);
                    if let Some(p) = v.problems.first() {
                        return Some((format!("{kname}:event_log_cancelled"), p.clone(), scene_json(sc)));
                    }
                }
            }
        }
    }
    // ---- cancel from a timer thread: None or the full result, never partial
    for _ in 0..(if light { 1 } else { 3 }) {
        let t = CancelToken::new();
        let t2 = t.clone();
        let delay = rng.below(1500) as u64;
        mon.begin(MonitorCfg { delay_seed: rng.next_u64() | 1, ..Default::default() });
        let pi = Some(rng.below(POOL_SIZES.len()));
        let r = std::thread::scope(|s| {
            s.spawn(move || {
                std::thread::sleep(std::time::Duration::from_micros(delay));
                t2.cancel();
            });
            guarded(|| run_scene_dyn(&b.ctx, root, sc, pi, t))
        });
        mon.end();
        st.inc("timer_cancel_runs");
        match r {
            Ok(None) => st.inc("timer_cancel_runs_cancelled"),
            Ok(Some(r)) => {
                if r != reference {
                    return Some((format!("{kname}:partial_result_on_cancel"), "a run cancelled from another thread returned a result that differs from the complete one".into(), scene_json(sc)));
                }
            }
            Err(p) => return Some((format!("panic:{}", p.site()), p.msg, scene_json(sc))),
        }
    }
    None
}

/// One tape evaluated concurrently from many threads gives each thread the
/// results it would get alone
pub fn shared_tape_stress<F: Backend>(rng: &mut Rng, st: &mut Stats) -> Option<(String, String, Value)>
where
    <F::PointEval as TracingEvaluator>::Tape: Send + Sync,
{
    let name = F::NAME;
    let mut cfg = GenCfg::random(rng, 120);
    cfg.consts = Consts::Tame;
    cfg.n_outputs = 1 + rng.below(3);
    let p = prog::generate(rng, &cfg);
    let b = p.build();
    let roots = p.roots(&b);
    let f = F::new(&b.ctx, &roots).unwrap();
    let slot = slot_map(f.vars(), &b.vars)?;
    if slot.is_empty() {
        return None;
    }
    let n_threads = 16;
    let per = 12;
    // inputs and sequential results
    let inputs: Vec<Vec<Vec<f32>>> = (0..n_threads)
        .map(|_| (0..per).map(|_| slot.iter().map(|_| prog::gen_input(rng, Inputs::Tame)).collect()).collect())
        .collect();
    let pt = f.point_tape(Default::default());
    let it = f.interval_tape(Default::default());
    let ft = f.float_slice_tape(Default::default());
    let gt = f.grad_slice_tape(Default::default());
    type R = (Vec<u32>, Vec<u8>, Vec<u32>, Vec<u32>, Vec<u32>);
    let eval_all = |pt: &<F::PointEval as TracingEvaluator>::Tape,
                    it: &<F::IntervalEval as TracingEvaluator>::Tape,
                    ft: &<F::FloatSliceEval as BulkEvaluator>::Tape,
                    gt: &<F::GradSliceEval as BulkEvaluator>::Tape,
                    ins: &Vec<Vec<f32>>|
     -> R {
        let mut pe = F::new_point_eval();
        let mut ie = F::new_interval_eval();
        let mut fe = F::new_float_slice_eval();
        let mut ge = F::new_grad_slice_eval();
        let mut pv = vec![];
        let mut tr = vec![];
        let mut iv = vec![];
        for q in ins {
            let (o, t) = pe.eval(pt, q).unwrap();
            pv.extend(o.iter().map(|v| v.to_bits()));
            tr.extend(t.map(|t| t.as_slice().iter().map(|c| *c as u8).collect::<Vec<_>>()).unwrap_or_default());
            let ii: Vec<Interval> = q.iter().map(|v| Interval::new(*v - 0.125, *v + 0.125)).collect();
            if let Ok(Ok((o, _))) = guarded(|| ie.eval(it, &ii).map(|(o, t)| (o.to_vec(), t.is_some()))) {
                iv.extend(o.iter().flat_map(|i| [i.lower().to_bits(), i.upper().to_bits()]));
            }
        }
        let cols: Vec<Vec<f32>> = (0..ins[0].len()).map(|v| ins.iter().map(|q| q[v]).collect()).collect();
        let fo = fe.eval(ft, &cols).unwrap();
        let fv: Vec<u32> = (0..fo.len()).flat_map(|i| fo[i].iter().map(|v| v.to_bits()).collect::<Vec<_>>()).collect();
        let gcols: Vec<Vec<Grad>> = cols.iter().map(|c| c.iter().map(|v| Grad::new(*v, 1.0, 0.5, 0.0)).collect()).collect();
        let go = ge.eval(gt, &gcols).unwrap();
        let gv: Vec<u32> = (0..go.len()).flat_map(|i| go[i].iter().flat_map(|g| [g.v.to_bits(), g.dx.to_bits(), g.dy.to_bits(), g.dz.to_bits()]).collect::<Vec<_>>()).collect();
        (pv, tr, iv, fv, gv)
    };
    let sequential: Vec<R> = inputs.iter().map(|ins| eval_all(&pt, &it, &ft, &gt, ins)).collect();
    child::note(&format!("C09 {name} shared tape stress | program {:016x}", p.hash()));
    let results: Vec<R> = std::thread::scope(|s| {
        let hs: Vec<_> = (0..n_threads)
            .map(|k| {
                let (pt, it, ft, gt) = (pt.clone(), it.clone(), ft.clone(), gt.clone());
                let ins = &inputs[k];
                let eval_all = &eval_all;
                s.spawn(move || {
                    let mut r = eval_all(&pt, &it, &ft, &gt, ins);
                    for _ in 0..3 {
                        let again = eval_all(&pt, &it, &ft, &gt, ins);
                        if again != r {
                            r.0.push(0xdead);
                        }
                    }
                    // drop the clones on this thread, at different times
                    if k % 2 == 0 {
                        drop(pt);
                        std::thread::yield_now();
                    }
                    r
                })
            })
            .collect();
        hs.into_iter().map(|h| h.join().unwrap()).collect()
    });
    // the original tapes are dropped last, after all clones
    st.inc(&format!("{name}_shared_tape_rounds"));
    for k in 0..n_threads {
        if results[k] != sequential[k] {
            let which = if results[k].0 != sequential[k].0 { "point" } else if results[k].1 != sequential[k].1 { "trace" } else if results[k].2 != sequential[k].2 { "interval" } else if results[k].3 != sequential[k].3 { "float_slice" } else { "grad_slice" };
            return Some((format!("{name}:shared_tape:{which}"), format!("thread {k} evaluating a shared {name} tape concurrently got different {which} results than alone"), json!({"program": p.to_json()})));
        }
    }
    let _ = same_bits(0.0, 0.0);
    None
}

impl Prop for C09 {
    fn id(&self) -> &'static str {
        "C09"
    }
    fn mode(&self) -> Mode {
        Mode::Children
    }
    fn workers(&self) -> usize {
        // each case drives its own pools of up to 16 threads
        4
    }
    fn n_cases(&self, tier: Tier) -> u64 {
        tier.pick(400, 12_000)
    }
    fn time_cap_s(&self, tier: Tier) -> u64 {
        tier.pick(100, 1200)
    }
    fn run_case(&self, case: u64, rng: &mut Rng, st: &mut Stats, _tier: Tier) {
        if case % 4 == 3 {
            let r = if rng.chance(0.5) { shared_tape_stress::<VmFunction>(rng, st) } else { shared_tape_stress::<JitFunction>(rng, st) };
            if let Some((sig, msg, detail)) = r {
                st.violation(case, sig, msg, detail);
            }
            st.distinct(rng.next_u64());
            return;
        }
        let sc = gen_scene(rng);
        st.distinct(sc.prog.hash() ^ (sc.w as u64) << 20 ^ (sc.h as u64) << 8 ^ sc.d as u64);
        st.sample(|| scene_json(&sc));
        if let Some((sig, msg, detail)) = check_scene(&sc, rng, st, false) {
            st.violation(case, sig, msg, detail);
            return;
        }
        // an image without pixels is still a render whose token is never
        // set: it returns an (empty) result with or without a pool
        if sc.kind != Kind::Mesh && rng.chance(0.25) {
            let mut e = Scene { kind: sc.kind, prog: sc.prog.clone(), w: sc.w, h: sc.h, d: sc.d, tiles: sc.tiles.clone(), depth: sc.depth, jit: sc.jit, view2: sc.view2, view3: sc.view3, pixel_perfect: sc.pixel_perfect };
            match rng.below(3) {
                0 => e.w = 0,
                1 => e.h = 0,
                _ => {
                    e.w = 0;
                    e.h = 0;
                }
            }
            let b = e.prog.build();
            let root = built_root(&e.prog, &b);
            let kname = format!("{:?}", e.kind).to_lowercase();
            for pool_idx in [None, Some(rng.below(POOL_SIZES.len())), Some(rng.below(POOL_SIZES.len()))] {
                child::note(&format!("C09 {kname} empty image | pool {pool_idx:?}"));
                st.inc("empty_image_runs");
                match guarded(|| run_scene_dyn(&b.ctx, root, &e, pool_idx, CancelToken::new())) {
                    Ok(Some(_)) => {}
                    Ok(None) => {
                        st.violation(case, format!("{kname}:none_without_cancel:empty_image"),
                            format!("a {}x{} render whose token was never set returned no result (pool {:?})", e.w, e.h, pool_idx.map(|i| POOL_SIZES[i])), scene_json(&e));
                        return;
                    }
                    Err(pi) => {
                        st.violation(case, format!("panic:{}", pi.site()), format!("empty image: {}", pi.msg), scene_json(&e));
                        return;
                    }
                }
            }
        }
    }
    fn extra_stage(&self, st: &mut Stats, tier: Tier, seed: u64) {
        crate::props::tsan::run_tsan_stage(st, tier, seed);
        // pooled 2D/3D/mesh toy workloads under Miri's data-race detector,
        // four preemption schedules picked by the seed
        if tier == Tier::Thorough {
            let base = (seed % 1000) * 4;
            crate::props::miri::run_miri_stage(st, "sched", 0, Some((base, base + 4)), 4 * 3600);
        }
    }
    fn finish(&self, st: &mut Stats, _tier: Tier) {
        for k in ["image2", "image3", "mesh"] {
            let n = st.set_len(&format!("{k}_schedules"));
            st.add(&format!("{k}_distinct_schedules"), n as u64);
            if n < 50 {
                st.inconclusive.push(format!("only {n} distinct {k} schedules observed (floor 50)"));
            }
        }
        for n in POOL_SIZES {
            if st.get(&format!("pool_{n}_runs")) == 0 {
                st.inconclusive.push(format!("pool size {n} never run"));
            }
        }
        if st.get("scenes_with_cancel_enumerated_at_every_poll") < 20 {
            st.inconclusive.push(format!("cancel enumerated at every poll for only {} scenes", st.get("scenes_with_cancel_enumerated_at_every_poll")));
        }
        // keep the evidence small: schedule signatures are counted, not listed
        for k in ["image2", "image3", "mesh"] {
            st.sets.remove(&format!("{k}_schedules"));
        }
    }
    fn rule(&self) -> String {
        "each case = one small 2D / 3D / mesh scene (VM or JIT): reference run without a pool, then pools of 1,2,3,5,8,16 threads with and without seeded yields/sleeps/spins injected at the hook points (cancel poll, tile start/end, octree task start/end) - results compared bit for bit (images) or as triangle multisets over vertex bit patterns (meshes); cancellation before the call, at poll k for every k of the unpooled run (and sampled k under pools), and from a timer thread (result None or complete, never partial); offline checker over the hook event log (every unit started and ended exactly once, no unit started after its worker's poll saw the cancel, None iff some poll saw the flag); every 4th case: one tape of each kind cloned into 16 threads, each with its own evaluators and inputs, compared with the sequential results; then the same workload once more under ThreadSanitizer; distinct = scene hash".into()
    }
    fn assumptions(&self) -> Vec<String> {
        vec![
            "TSan cannot see accesses made by JIT-generated code (they touch per-thread buffers only)".into(),
            "liveness (a never-cancelled run returns) is observed as bounded progress under the harness watchdog".into(),
        ]
    }
}
