//! C04 - simplifying with a trace never changes values on the traced domain.
use crate::gen_::boxes;
use crate::gen_::prog::{self, Consts, GenCfg, Profile, Prog};
use crate::monitor::child;
use crate::props::evalutil::*;
use crate::refmodel::graph;
use crate::util::{Rng, Stats, Tier, fbits, guarded, same_bits};
use crate::{Mode, Prop};
use fidget_core::compiler::RegOp;
use fidget_core::context::Node;
use fidget_core::eval::Function;
use fidget_core::types::{Grad, Interval};
use fidget_core::vm::{
    Choice, GenericVmFunction, VmData, VmFunction, VmTrace, VmWorkspace,
};
use fidget_jit::JitFunction;
use serde_json::{Value, json};

pub struct C04;

struct Viol {
    sig: String,
    msg: String,
    detail: Value,
}

fn grad_bits_eq(a: Grad, b: Grad) -> bool {
    same_bits(a.v, b.v) && same_bits(a.dx, b.dx) && same_bits(a.dy, b.dy) && same_bits(a.dz, b.dz)
}

fn iv_bits_eq(a: Interval, b: Interval) -> bool {
    same_bits(a.lower(), b.lower()) && same_bits(a.upper(), b.upper())
}

fn same_varmap(a: &fidget_core::var::VarMap, b: &fidget_core::var::VarMap) -> bool {
    a.len() == b.len() && a.iter().all(|(v, i)| b.get(&v) == Some(i))
}

/// Compares parent and child at the given points (function-input order)
/// under the point, float-slice and gradient evaluators. Returns the first
/// mismatch as (evaluator, point index, output index, parent, child).
fn compare_points<P: Function<Trace = VmTrace>, C: Function<Trace = VmTrace>>(
    parent: &P,
    child_f: &C,
    pts: &[Vec<f32>],
    skip: &[Vec<bool>],
    st: &mut Stats,
) -> Result<Option<(String, usize, usize, String, String)>, String> {
    let n_out = parent.output_count();
    // point
    for (i, q) in pts.iter().enumerate() {
        let (a, _) = point_eval(parent, q)?;
        let (b, _) = point_eval(child_f, q)?;
        if b.len() != n_out {
            return Ok(Some(("point".into(), i, 0, format!("{} outputs", a.len()), format!("{} outputs", b.len()))));
        }
        for o in 0..n_out {
            if skip[i][o] {
                st.inc("skipped_nan_into_rand_or_mix");
                continue;
            }
            st.inc("cmp_point");
            if !same_bits(a[o], b[o]) {
                return Ok(Some(("point".into(), i, o, format!("{:?}", a[o]), format!("{:?}", b[o]))));
            }
        }
    }
    if pts.is_empty() {
        return Ok(None);
    }
    // float slice (columns)
    let nv = pts[0].len();
    let cols: Vec<Vec<f32>> = (0..nv).map(|v| pts.iter().map(|q| q[v]).collect()).collect();
    if nv > 0 {
        let a = float_slice_eval(parent, &cols)?;
        let b = float_slice_eval(child_f, &cols)?;
        for o in 0..n_out {
            if b.len() != n_out || b[o].len() != pts.len() {
                return Ok(Some(("float_slice".into(), 0, o, "shape".into(), "shape".into())));
            }
            for i in 0..pts.len() {
                if skip[i][o] {
                    continue;
                }
                st.inc("cmp_float_slice");
                if !same_bits(a[o][i], b[o][i]) {
                    return Ok(Some(("float_slice".into(), i, o, format!("{:?}", a[o][i]), format!("{:?}", b[o][i]))));
                }
            }
        }
        // gradients with per-variable seeds (variable k seeds d/d(k mod 3))
        let gcols: Vec<Vec<Grad>> = (0..nv)
            .map(|v| {
                pts.iter()
                    .map(|q| {
                        let mut g = Grad::new(q[v], 0.0, 0.0, 0.0);
                        match v % 3 {
                            0 => g.dx = 1.0,
                            1 => g.dy = 1.0,
                            _ => g.dz = 1.0,
                        }
                        g
                    })
                    .collect()
            })
            .collect();
        let a = grad_slice_eval(parent, &gcols)?;
        let b = grad_slice_eval(child_f, &gcols)?;
        for o in 0..n_out {
            for i in 0..pts.len() {
                if skip[i][o] {
                    continue;
                }
                st.inc("cmp_grad_slice");
                if !grad_bits_eq(a[o][i], b[o][i]) {
                    return Ok(Some(("grad_slice".into(), i, o, format!("{:?}", a[o][i]), format!("{:?}", b[o][i]))));
                }
            }
        }
    }
    Ok(None)
}

/// Enclosure guard (DESIGN.md C04): true when, at point `q` (by variable
/// slot), some graph node's point value lies outside the interval the backend
/// computes for that node on box `bx` - then a parent/child discrepancy at `q`
/// is an interval-rounding effect (C03's "few ulps"), not a simplification
/// error.
fn enclosure_slack<F: Backend>(
    b: &prog::Built,
    order: &[Node],
    bx: &[(f32, f32)],
    q_by_slot: &[f32],
    ev: &str,
) -> bool {
    let twin = F::new(&b.ctx, order).unwrap();
    let tslot = slot_map(twin.vars(), &b.vars).unwrap();
    let input: Vec<Interval> = tslot.iter().map(|&s| Interval::new(bx[s].0, bx[s].1)).collect();
    let Ok(Ok((ivs, _))) = guarded(|| interval_eval(&twin, &input)) else {
        return true;
    };
    // node values as computed by this backend's own point evaluator
    let q: Vec<f32> = tslot.iter().map(|&s| q_by_slot[s]).collect();
    // (each evaluator kind has its own zero-sign behaviour on min/max ties,
    // so the values are taken from the kind that showed the discrepancy)
    let vals: Vec<f32> = match ev {
        "float_slice" => {
            let cols: Vec<Vec<f32>> = q.iter().map(|v| vec![*v]).collect();
            match guarded(|| float_slice_eval(&twin, &cols)) {
                Ok(Ok(o)) if q.is_empty() || o.iter().all(|c| c.len() == 1) => {
                    o.iter().map(|c| c.first().copied().unwrap_or(f32::NAN)).collect()
                }
                _ => return true,
            }
        }
        "grad_slice" => {
            let cols: Vec<Vec<Grad>> = q.iter().map(|v| vec![Grad::new(*v, 0.0, 0.0, 0.0)]).collect();
            match guarded(|| grad_slice_eval(&twin, &cols)) {
                Ok(Ok(o)) if q.is_empty() || o.iter().all(|c| c.len() == 1) => {
                    o.iter().map(|c| c.first().map(|g| g.v).unwrap_or(f32::NAN)).collect()
                }
                _ => return true,
            }
        }
        _ => match guarded(|| point_eval(&twin, &q)) {
            Ok(Ok((v, _))) => v,
            _ => return true,
        },
    };
    if vals.len() != order.len() {
        return true;
    }
    for (i, _n) in order.iter().enumerate() {
        let v = vals[i];
        let iv = ivs[i];
        let inside = if v.is_nan() {
            iv.has_nan()
        } else if iv.has_nan() {
            true
        } else {
            iv.lower() <= v && v <= iv.upper()
        };
        if !inside {
            return true;
        }
    }
    false
}

/// Per output: does a NaN reach rand/mix on the way to it (payload bits are
/// not values; see graph::nan_feeds_hash)
fn hash_taint(b: &prog::Built, order: &[Node], roots: &[Node], q_by_slot: &[f32]) -> Vec<bool> {
    let info = analyse_with(b, order, q_by_slot, false);
    roots.iter().map(|r| info.taint[r] != Taint::Clean).collect()
}

fn count_decided(t: &[Choice]) -> usize {
    t.iter().filter(|c| **c != Choice::Both).count()
}

fn has_copyreg(ops: &[RegOp]) -> bool {
    ops.iter().any(|o| matches!(o, RegOp::CopyReg(..)))
}

fn check_backend<F: Backend>(
    p: &Prog,
    b: &prog::Built,
    roots: &[Node],
    order: &[Node],
    rng: &mut Rng,
    st: &mut Stats,
) -> Result<(), Viol>
where
    F::Storage: Default,
{
    let name = F::NAME;
    let f = F::new(&b.ctx, roots).unwrap();
    let slot_of = slot_map(f.vars(), &b.vars).ok_or_else(|| Viol { sig: format!("{name}:varmap"), msg: "bad varmap".into(), detail: json!(null) })?;
    let to_fn = |by_slot: &[f32]| -> Vec<f32> { slot_of.iter().map(|&s| by_slot[s]).collect() };
    let mut workspace = F::Workspace::default();
    let mut spare: Option<F::Storage> = None;

    let simplify = |parent: &F,
                    t: &VmTrace,
                    ws: &mut F::Workspace,
                    spare: &mut Option<F::Storage>,
                    rng: &mut Rng,
                    what: &str|
     -> Result<F, Viol> {
        let storage = if rng.chance(0.5) { spare.take().unwrap_or_default() } else { F::Storage::default() };
        child::note(&format!("C04 {name} simplify ({what}) | program {:016x}", p.hash()));
        let mut fresh_ws = F::Workspace::default();
        let use_fresh = rng.chance(0.3);
        let r = guarded(|| parent.simplify(t, storage, if use_fresh { &mut fresh_ws } else { ws }));
        match r {
            Ok(Ok(c)) => Ok(c),
            Ok(Err(e)) => Err(Viol {
                sig: format!("{name}:simplify_rejected:{what}"),
                msg: format!("simplify rejected a trace returned by the {what} evaluator: {e}"),
                detail: json!({"trace": t.as_slice().iter().map(|c| choice_name(*c)).collect::<Vec<_>>()}),
            }),
            Err(pi) => Err(Viol {
                sig: format!("{name}:simplify_panic:{}:{}", pi.site(), pi.msg_class()),
                msg: format!("simplify panicked on a trace returned by the {what} evaluator at {}: {}", pi.site(), pi.msg),
                detail: json!({"trace": t.as_slice().iter().map(|c| choice_name(*c)).collect::<Vec<_>>(), "outputs": roots.len()}),
            }),
        }
    };
    let meta = |parent_outputs: usize, c: &F, parent_size: usize| -> Result<(), Viol> {
        if c.output_count() != parent_outputs {
            return Err(Viol { sig: format!("{name}:child_output_count"), msg: "simplified function changed output_count".into(), detail: json!(null) });
        }
        if !same_varmap(c.vars(), f.vars()) {
            return Err(Viol { sig: format!("{name}:child_vars"), msg: "simplified function does not keep the variable numbering of its parent".into(), detail: json!(null) });
        }
        let _ = parent_size;
        Ok(())
    };

    // ------------------------------------------------------------ point traces
    for _ in 0..3 {
        let ik = if rng.chance(0.3) { prog::Inputs::Hostile } else { prog::Inputs::Tame };
        let mut q = prog::gen_inputs(rng, p.n_vars, ik);
        if p.nodes.len() <= 12 && rng.chance(0.6) {
            // small programs: operands that tie (zeros of either sign, equal
            // values) - how a tie is resolved is part of what a trace means
            for v in q.iter_mut() {
                *v = *rng.pick(&[0.0f32, -0.0, 0.0, -0.0, 1.0, -1.0]);
            }
        }
        let qf = to_fn(&q);
        let (_, tr) = point_eval(&f, &qf).map_err(|e| Viol { sig: format!("{name}:eval_error"), msg: e, detail: json!(null) })?;
        let Some(tr) = tr else {
            st.inc("point_traces_none");
            continue;
        };
        let t = {
            let mut t = VmTrace::default();
            t.resize(tr.len(), Choice::Unknown);
            t.as_mut_slice().copy_from_slice(&tr);
            t
        };
        st.inc(&format!("{name}_point_traces"));
        if tr.len() >= 2 {
            st.inc(&format!("{name}_point_traces_2plus_clauses"));
        }
        let c = simplify(&f, &t, &mut workspace, &mut spare, rng, "point")?;
        meta(f.output_count(), &c, f.size())?;
        if has_copyreg(&c.ops()) {
            st.inc("children_with_copyreg");
        }
        let skip = vec![hash_taint(b, order, roots, &q)];
        let r = compare_points(&f, &c, &[qf.clone()], &skip, st).map_err(|e| Viol { sig: format!("{name}:eval_error"), msg: e, detail: json!(null) })?;
        if let Some((ev, _i, o, pv, cv)) = r {
            return Err(Viol {
                sig: format!("{name}:point_trace:{ev}"),
                msg: format!("{name}: after simplifying with a point trace, the {ev} evaluator returns {cv} instead of {pv} for output {o} at the traced point"),
                detail: json!({"point_by_var_slot": q.iter().map(|v| fbits(*v)).collect::<Vec<_>>(),
                    "trace": tr.iter().map(|c| choice_name(*c)).collect::<Vec<_>>()}),
            });
        }
        spare = c.recycle();
    }

    // --------------------------------------------------- interval traces, chains
    for _ in 0..3 {
        let kind = boxes::random_tame_kind(rng);
        let b0 = boxes::gen_box(rng, p.n_vars, kind);
        let mut chain_boxes = vec![b0];
        let depth = 1 + rng.below(3);
        for _ in 1..depth {
            let nb = boxes::shrink(rng, chain_boxes.last().unwrap());
            chain_boxes.push(nb);
        }
        let mut cur: F = f.clone();
        let mut level = 0;
        for (li, bx) in chain_boxes.iter().enumerate() {
            let input: Vec<Interval> = slot_of.iter().map(|&s| Interval::new(bx[s].0, bx[s].1)).collect();
            child::note(&format!("C04 {name} interval eval | program {:016x}", p.hash()));
            let r = guarded(|| interval_eval(&cur, &input));
            let (piv, tr) = match r {
                Ok(Ok(x)) => x,
                Ok(Err(e)) => return Err(Viol { sig: format!("{name}:eval_error"), msg: e, detail: json!(null) }),
                Err(_) => {
                    st.inc("interval_evals_panicked(C11)");
                    break;
                }
            };
            let Some(tr) = tr else {
                st.inc("interval_traces_none");
                break;
            };
            let t = {
                let mut t = VmTrace::default();
                t.resize(tr.len(), Choice::Unknown);
                t.as_mut_slice().copy_from_slice(&tr);
                t
            };
            st.inc(&format!("{name}_interval_traces"));
            if count_decided(&tr) >= 10 {
                st.inc("traces_with_10plus_decided");
            }
            let c = simplify(&cur, &t, &mut workspace, &mut spare, rng, "interval")?;
            meta(f.output_count(), &c, cur.size())?;
            if has_copyreg(&c.ops()) {
                st.inc("children_with_copyreg");
            }
            level = li + 1;
            // interval evaluator on the traced box itself: bit-identical
            let civ = match guarded(|| interval_eval(&c, &input)) {
                Ok(Ok((civ, _))) => civ,
                _ => {
                    st.inc("interval_evals_panicked(C11)");
                    break;
                }
            };
            for o in 0..piv.len() {
                st.inc("cmp_interval");
                if !iv_bits_eq(piv[o], civ[o]) {
                    return Err(Viol {
                        sig: format!("{name}:interval_trace:interval"),
                        msg: format!("{name}: the simplified function's interval result on the traced box is {:?}, the parent's is {:?} (output {o}, chain level {level})", civ[o], piv[o]),
                        detail: json!({"box_by_var_slot": bx.iter().map(|(l, u)| format!("[{l:?}, {u:?}]")).collect::<Vec<_>>(),
                            "trace": tr.iter().map(|c| choice_name(*c)).collect::<Vec<_>>(), "level": level}),
                    });
                }
            }
            // points of the traced box, against the immediate parent and the
            // original function
            let pts_slot: Vec<Vec<f32>> = (0..8).map(|_| boxes::point_in(rng, bx)).collect();
            let pts: Vec<Vec<f32>> = pts_slot.iter().map(|q| to_fn(q)).collect();
            let skip: Vec<Vec<bool>> = pts_slot.iter().map(|q| hash_taint(b, order, roots, q)).collect();
            for (pname, r) in [
                ("parent", compare_points(&cur, &c, &pts, &skip, st)),
                ("original", compare_points(&f, &c, &pts, &skip, st)),
            ] {
                let r = r.map_err(|e| Viol { sig: format!("{name}:eval_error"), msg: e, detail: json!(null) })?;
                if let Some((ev, i, o, pv, cv)) = r {
                    // guard: attribute to C04 only when every node value at
                    // the point is enclosed by its interval on every box of
                    // the chain so far
                    let slack = chain_boxes[..=li].iter().any(|bb| enclosure_slack::<F>(b, order, bb, &pts_slot[i], &ev));
                    if slack {
                        st.inc("excused_enclosure_slack");
                        continue;
                    }
                    return Err(Viol {
                        sig: format!("{name}:interval_trace:{ev}"),
                        msg: format!("{name}: after {level} simplification(s) with interval traces, the {ev} evaluator returns {cv} where the {pname} returns {pv} (output {o}) at a point of the traced box"),
                        detail: json!({"point_by_var_slot": pts_slot[i].iter().map(|v| fbits(*v)).collect::<Vec<_>>(),
                            "boxes_by_var_slot": chain_boxes[..=li].iter().map(|bb| bb.iter().map(|(l, u)| format!("[{l:?}, {u:?}]")).collect::<Vec<_>>()).collect::<Vec<_>>(),
                            "trace": tr.iter().map(|c| choice_name(*c)).collect::<Vec<_>>(), "level": level}),
                    });
                }
            }
            st.inc("points_compared_after_interval_simplify");
            if li > 0 {
                // drop the intermediate function, keeping its storage
                let old = std::mem::replace(&mut cur, c);
                if let Some(s) = old.recycle() {
                    spare = Some(s);
                }
            } else {
                cur = c;
            }
        }
        if level >= 3 {
            st.inc("chains_depth3");
        }
        if level >= 1 && roots.len() > 1 {
            st.inc("multi_output_simplifications");
        }
    }
    Ok(())
}

/// Simplification into a different register budget (VM only)
fn check_budgets(
    p: &Prog,
    b: &prog::Built,
    roots: &[Node],
    rng: &mut Rng,
    st: &mut Stats,
) -> Result<(), Viol> {
    let f = VmFunction::new_from(&b.ctx, roots);
    let slot_of = slot_map(f.vars(), &b.vars).unwrap();
    let kind = boxes::random_tame_kind(rng);
    let bx = boxes::gen_box(rng, p.n_vars, kind);
    let input: Vec<Interval> = slot_of.iter().map(|&s| Interval::new(bx[s].0, bx[s].1)).collect();
    let Ok(Ok((_, Some(tr)))) = guarded(|| interval_eval(&f, &input)) else {
        return Ok(());
    };
    let mut t = VmTrace::default();
    t.resize(tr.len(), Choice::Unknown);
    t.as_mut_slice().copy_from_slice(&tr);
    let pts_slot: Vec<Vec<f32>> = (0..6).map(|_| boxes::point_in(rng, &bx)).collect();
    let pts: Vec<Vec<f32>> = pts_slot.iter().map(|q| slot_of.iter().map(|&s| q[s]).collect()).collect();
    let order = graph::topo(&b.ctx, roots);
    let skip: Vec<Vec<bool>> = pts_slot.iter().map(|q| hash_taint(b, &order, roots, q)).collect();
    macro_rules! budget {
        ($m:literal) => {{
            child::note(&format!("C04 vm simplify_with::<{}> | program {:016x}", $m, p.hash()));
            let r = guarded(|| f.simplify_with::<$m>(&t, VmData::<$m>::default(), &mut VmWorkspace::<$m>::default()));
            let c: GenericVmFunction<$m> = match r {
                Ok(Ok(c)) => c,
                Ok(Err(e)) => return Err(Viol { sig: format!("vm:simplify_with_rejected:{}", $m), msg: format!("{e}"), detail: json!(null) }),
                Err(pi) => return Err(Viol {
                    sig: format!("vm:simplify_with_panic:{}:{}", pi.site(), pi.msg_class()),
                    msg: format!("simplify_with::<{}> panicked at {}: {}", $m, pi.site(), pi.msg),
                    detail: json!({"outputs": roots.len()}),
                }),
            };
            st.inc(&format!("simplify_with_{}", $m));
            if c.data().iter_asm().any(|o| matches!(o, RegOp::Load(..))) {
                st.inc("budget_children_with_spills");
            }
            let r = compare_points(&f, &c, &pts, &skip, st).map_err(|e| Viol { sig: "vm:eval_error".into(), msg: e, detail: json!(null) })?;
            if let Some((ev, i, o, pv, cv)) = r {
                if !enclosure_slack::<VmFunction>(b, &graph::topo(&b.ctx, roots), &bx, &pts_slot[i], &ev) {
                    return Err(Viol {
                        sig: format!("vm:simplify_with:{}:{ev}", $m),
                        msg: format!("simplifying into budget {} changed the {ev} result from {pv} to {cv} (output {o})", $m),
                        detail: json!({"point_by_var_slot": pts_slot[i].iter().map(|v| fbits(*v)).collect::<Vec<_>>(),
                            "box_by_var_slot": bx.iter().map(|(l, u)| format!("[{l:?}, {u:?}]")).collect::<Vec<_>>()}),
                    });
                }
                st.inc("excused_enclosure_slack");
            }
        }};
    }
    budget!(3);
    budget!(8);
    budget!(255);
    Ok(())
}

fn check_prog(p: &Prog, seed: u64, st: &mut Stats) -> Option<Viol> {
    let mut rng = Rng::new(seed);
    let rng = &mut rng;
    let b = p.build();
    let roots = p.roots(&b);
    let order = graph::topo(&b.ctx, &roots);
    if let Err(v) = check_backend::<VmFunction>(p, &b, &roots, &order, rng, st) {
        return Some(v);
    }
    if let Err(v) = check_backend::<JitFunction>(p, &b, &roots, &order, rng, st) {
        return Some(v);
    }
    if let Err(v) = check_budgets(p, &b, &roots, rng, st) {
        return Some(v);
    }
    None
}

trait NewFrom {
    fn new_from(ctx: &fidget_core::Context, roots: &[Node]) -> Self;
}
impl NewFrom for VmFunction {
    fn new_from(ctx: &fidget_core::Context, roots: &[Node]) -> Self {
        use fidget_core::eval::MathFunction;
        VmFunction::new(ctx, roots).unwrap()
    }
}

impl Prop for C04 {
    fn id(&self) -> &'static str {
        "C04"
    }
    fn mode(&self) -> Mode {
        Mode::Children
    }
    fn crash_is_violation(&self) -> bool {
        // totality of the evaluators is C11's subject
        false
    }
    fn n_cases(&self, tier: Tier) -> u64 {
        tier.pick(60_000, 300_000)
    }
    fn time_cap_s(&self, tier: Tier) -> u64 {
        tier.pick(100, 1200)
    }
    fn run_case(&self, case: u64, rng: &mut Rng, st: &mut Stats, tier: Tier) {
        let mut cfg = GenCfg::random(rng, tier.pick(250, 500));
        cfg.profile = if rng.chance(0.8) { Profile::Choice } else { cfg.profile };
        if rng.chance(0.7) {
            cfg.consts = Consts::Tame;
        }
        cfg.n_outputs = if rng.chance(0.5) { 1 } else { 2 + rng.below(5) };
        if rng.chance(0.06) {
            // "unit" choice programs: one to three min/max/and/or (and sign
            // flips) applied directly to the variables
            cfg = GenCfg::new(1 + rng.below(3));
            cfg.profile = Profile::Choice;
            cfg.const_p = 0.2;
            cfg.allow_un = vec![prog::Un::Neg, prog::Un::Abs];
            cfg.n_outputs = 1;
            st.inc("unit_choice_programs");
        }
        let p = prog::generate(rng, &cfg);
        st.distinct(p.hash());
        st.sample(|| json!({"program": p.to_json()}));
        let seed = rng.next_u64();
        if let Some(v) = check_prog(&p, seed, st) {
            // shrink the witness while the same signature is reported
            let sig = v.sig.clone();
            let mut scratch = Stats::default();
            let small = crate::gen_::shrink::shrink(
                &p,
                &mut |q: &Prog| {
                    matches!(guarded(|| check_prog(q, seed, &mut scratch)), Ok(Some(w)) if w.sig == sig)
                },
                400,
            );
            let v2 = check_prog(&small, seed, &mut scratch).filter(|w| w.sig == sig);
            let (v, prog_json) = match v2 {
                Some(w) => (w, small.to_json()),
                None => (v, p.to_json()),
            };
            st.violation(case, v.sig, v.msg, json!({"detail": v.detail, "program": prog_json, "check_seed": seed.to_string()}));
        }
    }
    fn finish(&self, st: &mut Stats, _tier: Tier) {
        for (k, floor) in [
            ("multi_output_simplifications", 200),
            ("traces_with_10plus_decided", 200),
            ("children_with_copyreg", 200),
            ("chains_depth3", 200),
            ("jit_point_traces_2plus_clauses", 200),
            ("simplify_with_3", 200),
        ] {
            if st.get(k) < floor {
                st.inconclusive.push(format!("{k} = {} (floor {floor})", st.get(k)));
            }
        }
        let cmp = st.get("points_compared_after_interval_simplify");
        if st.get("excused_enclosure_slack") * 1000 > cmp.max(1) * 8 {
            st.inconclusive.push(format!("excused_enclosure_slack = {} of {cmp} comparisons (> 0.8%)", st.get("excused_enclosure_slack")));
        }
    }
    fn rule(&self) -> String {
        "each case = one choice-heavy generated DAG (1..6 outputs) on both backends: 3 point traces (simplify, compare point/float-slice/gradient evaluators bit-for-bit at the traced point) and 3 chains of 1..3 nested boxes (interval trace of the current function, simplify with reused or fresh storage/workspace, compare interval result on the traced box and point/float-slice/gradient results at 8 points of the box against both the immediate parent and the original); VM additionally simplified into budgets 3, 8, 255; child must keep vars()/output_count and not grow; distinct = program hash".into()
    }
    fn assumptions(&self) -> Vec<String> {
        vec![
            "a parent/child discrepancy at a point is attributed to C04 only if every graph node's value at the point is enclosed by the interval the backend computes for it on every traced box (otherwise it is C03's rounding slack, counted as excused_enclosure_slack)".into(),
            "interval evaluations that panic are counted and left to C11".into(),
        ]
    }
}
