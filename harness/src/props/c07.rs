//! C07 - 3D rendering equals the brute-force heightmap of the shape.
use crate::gen_::prog::Prog;
use crate::gen_::shape::{self, ShapeCfg};
use crate::props::renderutil::*;
use crate::refmodel::dual::{self, D};
use crate::refmodel::graph;
use crate::util::{Rng, Stats, Tier, guarded, same_bits};
use crate::Prop;
use fidget_core::context::{Context, Node};
use fidget_core::eval::{BulkEvaluator, Function, MathFunction};
use fidget_core::render::verif::{SchedPoint, VoxelDecision};
use fidget_core::render::{CancelToken, RenderHints, TileSizes, VoxelSize};
use fidget_core::shape::Shape;
use fidget_core::var::Var;
use fidget_core::vm::VmFunction;
use fidget_jit::JitFunction;
use fidget_raster::voxel::{EvalConfig, RenderConfig, render};
use nalgebra::{Matrix4, Point3};
use serde_json::{Value, json};
use std::cell::RefCell;
use std::collections::HashMap;
use std::sync::Arc;

pub struct C07;

thread_local! {
    // decisions observed on this thread (only meaningful for unpooled renders)
    static DECISIONS: RefCell<[u64; 5]> = const { RefCell::new([0; 5]) };
}

pub fn install_decision_hook() {
    static ONCE: std::sync::Once = std::sync::Once::new();
    ONCE.call_once(|| {
        fidget_core::render::verif::set_hook(Some(Arc::new(|p: &SchedPoint| {
            if let SchedPoint::VoxelTileDecision { decision, .. } = p {
                let k = match decision {
                    VoxelDecision::Occluded => 0,
                    VoxelDecision::Full => 1,
                    VoxelDecision::Empty => 2,
                    VoxelDecision::Recurse => 3,
                    VoxelDecision::Pixels => 4,
                };
                DECISIONS.with(|d| d.borrow_mut()[k] += 1);
            }
        })));
    });
}

struct Setup {
    w: u32,
    h: u32,
    d: u32,
    tiles: Vec<usize>,
    mat: Matrix4<f32>,
    jit: bool,
    pool: Option<usize>,
}

fn run_render<F: Function + MathFunction + RenderHints>(
    ctx: &Context,
    root: Node,
    su: &Setup,
) -> Result<Option<fidget_raster::voxel::Image>, String> {
    let shape = Shape::<F>::new(ctx, root).map_err(|_| "bad node".to_string())?;
    let bound = shape.try_into().map_err(|_| "free variables".to_string())?;
    let cfg = RenderConfig {
        image_size: VoxelSize::new(su.w, su.h, su.d),
        world_to_model: su.mat,
    };
    let ec = EvalConfig {
        tile_sizes: Some(TileSizes::new(&su.tiles).unwrap()),
        threads: su.pool.map(pool),
        cancel: CancelToken::new(),
    };
    Ok(render(bound, &cfg, &ec))
}

pub fn random_mat4(rng: &mut Rng) -> Matrix4<f32> {
    if rng.chance(0.25) {
        return Matrix4::identity();
    }
    let mut m = Matrix4::identity();
    // sometimes a homogeneous scale w != 1 (bottom row 0,0,0,w)
    if rng.chance(0.15) {
        m[(3, 3)] = *rng.pick(&[0.5f32, 0.75, 2.0]);
    }
    // rotation about a random axis + non-uniform scale + translation
    // (30%: exactly about one coordinate axis, 15%: no rotation at all -
    // matrices with zeros / antisymmetric pairs in the linear part)
    let axis = if rng.chance(0.3) {
        let mut a = nalgebra::Vector3::zeros();
        a[rng.below(3)] = if rng.chance(0.5) { 1.0 } else { -1.0 };
        nalgebra::Unit::new_normalize(a)
    } else {
        nalgebra::Unit::new_normalize(nalgebra::Vector3::new(
            rng.uniform(-1.0, 1.0) as f32,
            rng.uniform(-1.0, 1.0) as f32,
            rng.uniform(-1.0, 1.0) as f32 + 1e-3,
        ))
    };
    let angle = if rng.chance(0.15) { 0.0 } else { rng.uniform(-0.8, 0.8) as f32 };
    let rot = nalgebra::Rotation3::from_axis_angle(&axis, angle);
    let mut s = [rng.uniform(0.6, 1.6) as f32, rng.uniform(0.6, 1.6) as f32, rng.uniform(0.6, 1.6) as f32];
    if rng.chance(0.2) {
        s = [s[0]; 3]; // uniform scale
    }
    if rng.chance(0.1) {
        s[rng.below(2)] *= -1.0; // mirrored in x or y
    }
    let no_translation = rng.chance(0.2);
    for i in 0..3 {
        for j in 0..3 {
            m[(i, j)] = rot[(i, j)] * s[j];
        }
        m[(i, 3)] = if no_translation { 0.0 } else { rng.uniform(-0.3, 0.3) as f32 };
    }
    // sometimes a perspective view: the homogeneous weight varies over the
    // grid (it stays positive: world coordinates are within [-1, 1])
    if rng.chance(0.15) {
        let only = if rng.chance(0.4) { Some(rng.below(3)) } else { None };
        for j in 0..3 {
            if only.is_none() || only == Some(j) {
                m[(3, j)] = rng.uniform(-0.2, 0.2) as f32;
            }
        }
    }
    m
}

/// The first operations (in evaluation order) whose result is NaN although no
/// operand is: (opcode name, true when an operand is infinite)
fn nan_origins(ctx: &Context, order: &[Node], q: Point3<f32>) -> Vec<(String, bool)> {
    use fidget_core::context::Op;
    let vars: HashMap<Var, f32> = [(Var::X, q.x), (Var::Y, q.y), (Var::Z, q.z)].into_iter().collect();
    let vals = graph::eval_graph(ctx, order, &vars);
    let mut out = vec![];
    for &n in order {
        if !vals[&n].is_nan() {
            continue;
        }
        let ops: Vec<f32> = match *ctx.get_op(n).unwrap() {
            Op::Unary(_, a) => vec![vals[&a]],
            Op::Binary(_, a, b) => vec![vals[&a], vals[&b]],
            _ => vec![],
        };
        if ops.iter().any(|v| v.is_nan()) {
            continue;
        }
        out.push((crate::props::evalutil::op_name(ctx, n), ops.iter().any(|v| v.is_infinite())));
    }
    out
}

fn check_prog(p: &Prog, seed: u64, tier: Tier, st: &mut Stats, view_scale: f32) -> Option<(String, String, Value)> {
    check_prog__(p, seed, tier, st, true, view_scale)
}

fn check_prog_(p: &Prog, seed: u64, tier: Tier, st: &mut Stats, dual_normals: bool) -> Option<(String, String, Value)> {
    check_prog__(p, seed, tier, st, dual_normals, 1.0)
}

/// `dual_normals`: judge normals against the f64 dual-number gradient (CSG
/// scenes, well conditioned); otherwise against the interpreter's gradient
/// evaluator on the unsimplified shape (random expressions, where f32 and
/// f64 derivatives legitimately differ by conditioning)
/// `view_scale`: the model lives at this scale (see `shape::rescale`); the
/// view matrix maps the world cube onto it
fn check_prog__(p: &Prog, seed: u64, tier: Tier, st: &mut Stats, dual_normals: bool, view_scale: f32) -> Option<(String, String, Value)> {
    let mut rng = Rng::new(seed);
    let rng = &mut rng;
    let max_side = tier.pick(44, 64);
    let w = 1 + rng.below(max_side) as u32;
    let h = if rng.chance(0.25) { w } else { 1 + rng.below(max_side) as u32 };
    let d = if rng.chance(0.25) { w } else { 1 + rng.below(max_side) as u32 };
    let (_, mut tiles) = random_tile_sizes(rng, 4, 64);
    if rng.chance(0.5) && *tiles.last().unwrap() > 4 && *tiles.last().unwrap() % 4 == 0 {
        tiles.push(4);
    }
    let su = Setup {
        w,
        h,
        d,
        tiles,
        mat: {
            let mut m = random_mat4(rng);
            for r in 0..3 {
                for c in 0..4 {
                    m[(r, c)] *= view_scale;
                }
            }
            // the longer sides of a non-cubic grid reach beyond +-1 in world
            // coordinates: the perspective terms are scaled down so that the
            // homogeneous weight stays well away from zero over the whole
            // grid, beyond-the-top slab included (found by the thorough
            // tier: a 52x8x53 grid, weight nearly 0 at one end, normals of
            // 1e6 compared at 1e-3)
            let extent = 2.0 * w.max(h).max(d) as f32 / w.min(h).min(d) as f32 + 1.0;
            for c in 0..3 {
                m[(3, c)] /= extent;
            }
            m
        },
        jit: rng.chance(0.5),
        pool: if rng.chance(0.5) { None } else { Some(rng.below(POOL_SIZES.len())) },
    };
    check_with_setup(p, &su, rng, st, dual_normals)
}

fn check_with_setup(p: &Prog, su: &Setup, rng: &mut Rng, st: &mut Stats, dual_normals: bool) -> Option<(String, String, Value)> {
    let b = p.build();
    let root = built_root(p, &b);
    let (w, h, d) = (su.w, su.h, su.d);
    let setup_json = json!({"width": w, "height": h, "depth": d, "tile_sizes": su.tiles, "world_to_model": format!("{:?}", su.mat),
        "backend": if su.jit { "jit" } else { "vm" }, "threads": su.pool.map(|i| POOL_SIZES[i % POOL_SIZES.len()]),
        "normal_reference": if dual_normals { "f64_dual" } else { "backend_gradient" }});
    DECISIONS.with(|dd| *dd.borrow_mut() = [0; 5]);
    let r = guarded(|| if su.jit { run_render::<JitFunction>(&b.ctx, root, &su) } else { run_render::<VmFunction>(&b.ctx, root, &su) });
    let img = match r {
        Ok(Ok(Some(i))) => i,
        Ok(Ok(None)) => return Some(("none_without_cancel".into(), "render returned None although the token was never cancelled".into(), setup_json)),
        Ok(Err(e)) => return Some(("render_error".into(), e, setup_json)),
        Err(pi) => return Some((format!("panic:{}:{}", pi.site(), pi.msg_class()), format!("3D render panicked at {}: {}", pi.site(), pi.msg), setup_json)),
    };
    st.inc("renders");
    if su.pool.is_none() {
        let dd = DECISIONS.with(|dd| *dd.borrow());
        st.inc("unpooled_renders");
        if dd[0] > 0 && dd[1] > 0 && dd[2] > 0 {
            st.inc("unpooled_renders_with_occluded_full_and_empty_tiles");
        }
        if dd[0] > 0 && dd[2] > 0 {
            st.inc("unpooled_renders_with_occluded_and_empty_tiles");
        }
        for (k, name) in ["occluded", "full", "empty", "recurse", "pixels"].iter().enumerate() {
            st.add(&format!("tile_decisions_{name}"), dd[k]);
        }
    }
    if img.len() != (w * h) as usize {
        return Some(("image_shape".into(), "image has the wrong size".into(), setup_json));
    }

    // ---- brute force over every voxel, including one largest tile beyond
    // the top (to decide which columns are inside the claim)
    let cfg = RenderConfig { image_size: VoxelSize::new(w, h, d), world_to_model: su.mat };
    let m = cfg.mat();
    // the sample positions below use the renderer's own screen-to-model
    // matrix (bit-exact positions): it must be the documented map
    {
        let rows = |a: &Matrix4<f32>| (0..4).map(|r| (0..4).map(|c| a[(r, c)] as f64).collect::<Vec<_>>()).collect::<Vec<_>>();
        if let Some(msg) = check_documented_mat(&[w, h, d], &rows(&su.mat), &rows(&m)) {
            return Some(("sample_position:screen_to_model_matrix".into(), msg, setup_json));
        }
    }
    // scale of the model space seen through this view: 1 for ordinary views
    // (entries of order 1), the power of two of a rescaled scene otherwise
    let model_scale = {
        let s = (0..3).map(|c| su.mat[(0, c)].abs()).fold(0f32, f32::max) / su.mat[(3, 3)].abs();
        if s > 64.0 || s < 1.0 / 64.0 { (2.0f32).powi(s.log2().round() as i32) } else { 1.0 }
    };
    let max_tile = su.tiles[0] as u32;
    let top = d.div_ceil(max_tile) * max_tile;
    let zs = top + 1; // indices 0..=top
    let f = VmFunction::new(&b.ctx, &[root]).unwrap();
    let tape = f.float_slice_tape(Default::default());
    let mut ev = VmFunction::new_float_slice_eval();
    let vmap = f.vars();
    let mut cols: Vec<Vec<f32>> = vec![vec![]; vmap.len()];
    let order = graph::topo(&b.ctx, &[root]);
    let mut judged_cols = 0u64;
    for j in 0..h {
        for i in 0..w {
            // one column at a time
            for c in cols.iter_mut() {
                c.clear();
            }
            let mut pts = Vec::with_capacity(zs as usize);
            for k in 0..zs {
                let q = m.transform_point(&Point3::new(i as f32, j as f32, k as f32));
                pts.push(q);
                for (var, idx) in vmap.iter() {
                    cols[idx].push(match var {
                        Var::X => q.x,
                        Var::Y => q.y,
                        Var::Z => q.z,
                        _ => 0.0,
                    });
                }
            }
            let vals: Vec<f32> = if vmap.is_empty() {
                let v = b.ctx.eval(root, &HashMap::new()).unwrap();
                vec![v; zs as usize]
            } else {
                ev.eval(&tape, &cols).unwrap()[0].to_vec()
            };
            // cross-check a sample of the oracle against Context::eval
            if (i + 7 * j) % 10 == 0 {
                let k = rng.below(zs as usize);
                let q = pts[k];
                let hm: HashMap<Var, f32> = [(Var::X, q.x), (Var::Y, q.y), (Var::Z, q.z)].into_iter().collect();
                let v = b.ctx.eval(root, &hm).unwrap();
                if !same_bits(v, vals[k]) {
                    st.inconclusive.push("brute-force oracle disagrees with Context::eval (C01's subject)".into());
                    return None;
                }
            }
            // (positions relative to the scale of the model: a scene that
            // lives at scale s has gradients of order 1/s)
            let band = |k: usize| 1e-5 * (pts[k].x.abs().max(pts[k].y.abs()).max(pts[k].z.abs()) / model_scale).max(1.0);
            // a NaN voxel is simply not negative (like the renderer's `< 0`
            // test); only the zero band makes a column undecidable
            if vals.iter().enumerate().any(|(k, v)| v.abs() <= band(k)) {
                st.inc("columns_skipped_zero_band");
                continue;
            }
            if vals.iter().any(|v| v.is_nan()) {
                st.inc("columns_with_nan_voxels_judged");
            }
            if vals[d as usize..].iter().any(|v| *v < 0.0) {
                st.inc("columns_outside_claim_negative_beyond_top");
                continue;
            }
            let want = (0..d as usize).rev().find(|&k| vals[k] < 0.0).map(|k| k as u32 + 1).unwrap_or(0);
            let px = img[(j as usize, i as usize)];
            judged_cols += 1;
            if px.depth != want {
                let mut class = if want == d - 1 && px.depth == d { "top_minus_one" } else if px.depth > want { "too_high" } else { "too_low" }.to_string();
                if px.depth > want && px.depth <= d && vals[px.depth as usize - 1].is_nan() {
                    // the voxel reported as the surface is NaN: where does
                    // the NaN come from? Arithmetic on infinite intermediates
                    // (inf - inf, 0 * inf, inf / inf after an overflow) is a
                    // NaN that interval arithmetic does not announce
                    let orig = nan_origins(&b.ctx, &order, pts[px.depth as usize - 1]);
                    if !orig.is_empty() && orig.iter().all(|(op, inf)| *inf && ["add", "sub", "mul", "div"].contains(&op.as_str())) {
                        class = "too_high:nan_voxel_from_arithmetic_on_infinities".to_string();
                    }
                }
                return Some((format!("depth:{class}"),
                    format!("pixel ({i},{j}) reports depth {} but the highest negative voxel of its column gives {want} (grid depth {d})", px.depth),
                    json!({"setup": setup_json, "pixel": [i, j], "column_values_from_top": vals[..d as usize].iter().rev().take(6).map(|v| format!("{v:?}")).collect::<Vec<_>>()})));
            }
            // normal = gradient at the surface voxel w.r.t. voxel coordinates
            if want > 0 {
                let k = (want - 1) as usize;
                let q = pts[k];
                // position = (M p) / w; with bottom row (0,0,0,w) the
                // derivative w.r.t. voxel coordinates is row / w
                // position = (M p) / w with w = row 3 of M applied to p: the
                // derivative w.r.t. voxel coordinates follows the quotient
                // rule (for a bottom row (0,0,0,w) it is row / w)
                let pv = [i as f64, j as f64, k as f64];
                let lin = |row: usize| (0..3).map(|c| m[(row, c)] as f64 * pv[c]).sum::<f64>() + m[(row, 3)] as f64;
                let w = lin(3);
                let mk = |v: f32, row: usize| {
                    let n = lin(row);
                    let mut dd = [0f64; 3];
                    for c in 0..3 {
                        dd[c] = (m[(row, c)] as f64 * w - n * m[(3, c)] as f64) / (w * w);
                    }
                    D { v: v as f64, d: dd }
                };
                let perspective = m[(3, 0)] != 0.0 || m[(3, 1)] != 0.0 || m[(3, 2)] != 0.0;
                // near the plane where the homogeneous weight vanishes the
                // position and its derivatives are ill-conditioned (1/w^2)
                let w_terms = (0..3).map(|c| (m[(3, c)] as f64 * pv[c]).abs()).sum::<f64>() + (m[(3, 3)] as f64).abs();
                let weight_near_zero = w.abs() * 20.0 < w_terms;
                let inputs: HashMap<Var, D> = [(Var::X, mk(q.x, 0)), (Var::Y, mk(q.y, 1)), (Var::Z, mk(q.z, 2))].into_iter().collect();
                let (mut g, mut skip) = dual::eval_graph_dual(&b.ctx, &order, &inputs)[&root];
                // magnitudes of the chain-rule terms (perspective reference)
                let mut chain_terms = [0f64; 3];
                if !dual_normals {
                    // reference: the gradient evaluator of the backend that
                    // rendered, on the original (unsimplified) shape. (What a
                    // gradient evaluator returns is C05's business; where the
                    // value or an intermediate is infinite the two backends
                    // legitimately differ - 2*f at f = -inf has derivative 0
                    // in the interpreter and -inf*0 = NaN in the JIT's product
                    // rule - so the render is compared with its own backend.)
                    use fidget_core::types::Grad;
                    fn reference<F: Function + MathFunction>(ctx: &Context, root: Node, p: [f32; 3], m: &Matrix4<f32>) -> Option<D> {
                        let gs = Shape::<F>::new(ctx, root).unwrap();
                        let gt = gs.grad_slice_tape(Default::default());
                        let mut gev = Shape::<F>::new_grad_slice_eval();
                        let o = gev
                            .eval_with_transform(
                                &gt,
                                &[Grad::new(p[0], 1.0, 0.0, 0.0)],
                                &[Grad::new(p[1], 0.0, 1.0, 0.0)],
                                &[Grad::new(p[2], 0.0, 0.0, 1.0)],
                                m,
                            )
                            .ok()?;
                        Some(D { v: o[0].v as f64, d: [o[0].dx as f64, o[0].dy as f64, o[0].dz as f64] })
                    }
                    // under a perspective view the transform of the seeds is
                    // itself under test (the quotient rule of the homogeneous
                    // divide): the backend's gradient evaluator is then used
                    // without a transform, at the model position with unit
                    // seeds, and the chain rule is applied here
                    fn model_gradient<F: Function + MathFunction>(ctx: &Context, root: Node, q: [f32; 3]) -> Option<D> {
                        let gs = Shape::<F>::new(ctx, root).unwrap();
                        let gt = gs.grad_slice_tape(Default::default());
                        let mut gev = Shape::<F>::new_grad_slice_eval();
                        let o = gev
                            .eval(&gt, &[Grad::new(q[0], 1.0, 0.0, 0.0)], &[Grad::new(q[1], 0.0, 1.0, 0.0)], &[Grad::new(q[2], 0.0, 0.0, 1.0)])
                            .ok()?;
                        Some(D { v: o[0].v as f64, d: [o[0].dx as f64, o[0].dy as f64, o[0].dz as f64] })
                    }
                    let pos = [i as f32, j as f32, k as f32];
                    let r = if perspective {
                        let qm = [q.x, q.y, q.z];
                        let gm = if su.jit { model_gradient::<JitFunction>(&b.ctx, root, qm) } else { model_gradient::<VmFunction>(&b.ctx, root, qm) };
                        gm.map(|gm| {
                            let seeds = [mk(q.x, 0), mk(q.y, 1), mk(q.z, 2)];
                            let mut out = D { v: gm.v, d: [0.0; 3] };
                            for c in 0..3 {
                                out.d[c] = (0..3).map(|r| gm.d[r] * seeds[r].d[c]).sum();
                                chain_terms[c] = (0..3).map(|r| (gm.d[r] * seeds[r].d[c]).abs()).sum();
                            }
                            out
                        })
                    } else if su.jit { reference::<JitFunction>(&b.ctx, root, pos, &m) } else { reference::<VmFunction>(&b.ctx, root, pos, &m) };
                    match r {
                        Some(r) => {
                            g = r;
                            skip = !g.d.iter().all(|x| x.is_finite()) || !g.v.is_finite();
                        }
                        None => skip = true,
                    }
                }
                if weight_near_zero {
                    st.inc("normals_skipped_weight_near_zero");
                } else if skip {
                    st.inc("normals_skipped_locus");
                } else {
                    st.inc("normals_judged");
                    if perspective {
                        st.inc("normals_judged_under_perspective");
                    }
                    let scale = g.d.iter().fold(0f64, |a, x| a.max(x.abs()));
                    for c in 0..3 {
                        let got = px.normal[c] as f64;
                        if !((got - g.d[c]).abs() <= 1e-3 * scale + 1e-5 + 64.0 * f32::EPSILON as f64 * chain_terms[c]) {
                            return Some(("normal".into(),
                                format!("pixel ({i},{j}) reports normal {:?} but the gradient at its surface voxel is {:?}", px.normal, g.d),
                                json!({"setup": setup_json, "pixel": [i, j], "surface_voxel": k})));
                        }
                    }
                }
            }
        }
    }
    st.add("columns_judged", judged_cols);
    if model_scale != 1.0 {
        st.add("columns_judged_at_extreme_scale", judged_cols);
    }
    None
}

impl Prop for C07 {
    fn id(&self) -> &'static str {
        "C07"
    }
    fn n_cases(&self, tier: Tier) -> u64 {
        tier.pick(15_000, 200_000)
    }
    fn time_cap_s(&self, tier: Tier) -> u64 {
        tier.pick(100, 1200)
    }
    fn run_case(&self, case: u64, rng: &mut Rng, st: &mut Stats, tier: Tier) {
        install_decision_hook();
        if case % 12 == 7 {
            // register pressure with per-tile decidable choices (see C06)
            let p = crate::props::c06::pressure_scene(rng, true);
            st.inc("scenes_register_pressure_with_choices");
            st.distinct(p.hash());
            let seed = rng.next_u64();
            if let Some((sig, msg, detail)) = check_prog_(&p, seed, tier, st, false) {
                st.violation(case, sig, msg, json!({"detail": detail, "shape": p.to_json(), "check_seed": seed.to_string()}));
            }
            return;
        }
        if rng.chance(0.25) {
            // random expression, possibly undefined (NaN) on part of the
            // grid: sqrt/ln of negatives, division by intervals through zero
            use crate::gen_::prog::{Bin, Consts, GenCfg, Un};
            let mut g = GenCfg::random(rng, 30);
            g.consts = Consts::Tame;
            g.n_vars = 3;
            g.n_outputs = 1;
            g.allow_un.retain(|o| *o != Un::Rand);
            g.allow_bin.retain(|o| *o != Bin::Mix && *o != Bin::Atan2);
            let p = crate::gen_::prog::generate(rng, &g);
            st.inc("scenes_random_expression");
            st.distinct(p.hash());
            let seed = rng.next_u64();
            if let Some((sig, msg, detail)) = check_prog_(&p, seed, tier, st, false) {
                st.violation(case, sig, msg, json!({"detail": detail, "shape": p.to_json(), "check_seed": seed.to_string()}));
            }
            return;
        }
        let mut cfg = ShapeCfg::render();
        cfg.max_depth = 1 + rng.below(3);
        cfg.exotic = rng.chance(0.4);
        // thick objects, so that whole tiles end up inside them
        cfg.min_feature = *rng.pick(&[0.08f32, 0.25, 0.4]);
        let mut p = shape::generate(rng, &cfg);
        if rng.chance(0.6) {
            // union with one big solid, so that whole tiles lie inside the
            // shape (full tiles, occlusion of what is behind them)
            use crate::gen_::prog::{Bin, PNode, Un};
            let mut push = |n: PNode| {
                p.nodes.push(n);
                (p.nodes.len() - 1) as u32
            };
            let (x, y, z) = (push(PNode::Var(0)), push(PNode::Var(1)), push(PNode::Var(2)));
            let big = if rng.chance(0.5) {
                let (x2, y2, z2) = (push(PNode::Un(Un::Square, x)), push(PNode::Un(Un::Square, y)), push(PNode::Un(Un::Square, z)));
                let s = push(PNode::Bin(Bin::Add, x2, y2));
                let s = push(PNode::Bin(Bin::Add, s, z2));
                let d = push(PNode::Un(Un::Sqrt, s));
                let r = push(PNode::Const(rng.uniform(0.45, 0.85) as f32));
                push(PNode::Bin(Bin::Sub, d, r))
            } else {
                let (ax, ay, az) = (push(PNode::Un(Un::Abs, x)), push(PNode::Un(Un::Abs, y)), push(PNode::Un(Un::Abs, z)));
                let m = push(PNode::Bin(Bin::Max, ax, ay));
                let m = push(PNode::Bin(Bin::Max, m, az));
                let r = push(PNode::Const(rng.uniform(0.4, 0.8) as f32));
                push(PNode::Bin(Bin::Sub, m, r))
            };
            let old = p.outputs[0];
            let root = push(PNode::Bin(Bin::Min, old, big));
            p.outputs = vec![root];
        }
        // now and then the whole scene lives at a very different scale (a
        // model in micrometres or kilometres): scene rescaled by a power of
        // two, view matrix scaled to match
        let mut view_scale = 1.0f32;
        if rng.chance(0.08) {
            let e = rng.range(8, 24) as i32 * if rng.chance(0.5) { 1 } else { -1 };
            view_scale = (2.0f32).powi(e);
            p = shape::rescale(&p, view_scale);
            st.inc("scenes_at_extreme_scale");
        }
        st.distinct(p.hash());
        st.sample(|| json!({"shape": p.to_json()}));
        let seed = rng.next_u64();
        if let Some((sig, msg, detail)) = check_prog(&p, seed, tier, st, view_scale) {
            let mut scratch = Stats::default();
            let sig0 = sig.clone();
            let small = crate::gen_::shrink::shrink(
                &p,
                &mut |q: &Prog| matches!(guarded(|| check_prog(q, seed, tier, &mut scratch, view_scale)), Ok(Some((s, _, _))) if s == sig0),
                60,
            );
            if let Some((s2, m2, d2)) = check_prog(&small, seed, tier, &mut scratch, view_scale) {
                if s2 == sig {
                    st.violation(case, s2, m2, json!({"detail": d2, "shape": small.to_json(), "check_seed": seed.to_string()}));
                    return;
                }
            }
            st.violation(case, sig, msg, json!({"detail": detail, "shape": p.to_json(), "check_seed": seed.to_string()}));
        }
    }
    fn replay_detail(&self, replay: &Value, st: &mut Stats) -> bool {
        let d = &replay["detail"];
        let setup = if d["detail"]["setup"].is_object() { &d["detail"]["setup"] } else { &d["detail"] };
        let Some(p) = Prog::from_json(&d["shape"]) else { return false };
        let Some(mat) = setup["world_to_model"].as_str().and_then(crate::props::c08::parse_mat4) else { return false };
        let (Some(w), Some(h), Some(dd), Some(tiles)) = (setup["width"].as_u64(), setup["height"].as_u64(), setup["depth"].as_u64(), setup["tile_sizes"].as_array()) else { return false };
        let su = Setup {
            w: w as u32,
            h: h as u32,
            d: dd as u32,
            tiles: tiles.iter().filter_map(|t| t.as_u64().map(|t| t as usize)).collect(),
            mat,
            jit: setup["backend"].as_str() == Some("jit"),
            pool: setup["threads"].as_u64().and_then(|t| POOL_SIZES.iter().position(|s| *s as u64 == t)),
        };
        let dual = setup["normal_reference"].as_str() != Some("backend_gradient");
        install_decision_hook();
        let seed = d["check_seed"].as_str().and_then(|s| s.parse::<u64>().ok()).unwrap_or(1);
        for k in 0..4 {
            let mut rng = Rng::new(seed ^ k);
            if let Some((sig, msg, detail)) = check_with_setup(&p, &su, &mut rng, st, dual) {
                st.violation(replay["case"].as_u64().unwrap_or(0), sig, msg, json!({"detail": detail, "shape": p.to_json()}));
                break;
            }
        }
        true
    }
    fn extra_stage(&self, st: &mut Stats, tier: Tier, seed: u64) {
        // the unchecked index of the voxel renderer, interpreted by Miri
        if tier == Tier::Thorough {
            crate::props::miri::run_miri_stage(st, "voxel", seed % 1_000_000, None, 2 * 3600);
        }
    }
    fn finish(&self, st: &mut Stats, _tier: Tier) {
        let r = st.get("unpooled_renders").max(1);
        // (a tile can only be *full* when nothing above it was rendered
        // first - objects reaching the top of the grid - so full tiles are
        // counted in absolute numbers, occluded + empty ones per render)
        if st.get("unpooled_renders_with_occluded_and_empty_tiles") * 10 < r * 2 {
            st.inconclusive.push(format!("only {} of {r} unpooled renders had both occluded and empty tiles (< 20%)", st.get("unpooled_renders_with_occluded_and_empty_tiles")));
        }
        if st.get("tile_decisions_full") < 200 {
            st.inconclusive.push(format!("only {} full-tile decisions observed", st.get("tile_decisions_full")));
        }
        if st.get("normals_judged") < 10_000 {
            st.inconclusive.push(format!("only {} normals judged", st.get("normals_judged")));
        }
    }
    fn rule(&self) -> String {
        "each case = one CSG scene rendered once with a random voxel grid (w,h,d in 1..36, mostly unequal), random valid tile-size list over {4..64}, random affine 4x4 view, VM or JIT, no pool or 1..16 threads; every column compared with the brute-force heightmap (interpreter float-slice evaluation of the unsimplified root at every voxel, 10% cross-checked against Context::eval): depth exactly, normal against an f64 dual-number gradient w.r.t. voxel coordinates (rel 1e-3); tile decisions (occluded/full/empty/recurse/pixels) counted through the VoxelTileDecision hook; distinct = scene hash".into()
    }
    fn assumptions(&self) -> Vec<String> {
        vec![
            "columns with a negative voxel between the grid top and one largest tile beyond it are outside the claim (stated); columns with a voxel in the zero band or NaN are skipped".into(),
            "normals are not judged at non-differentiable loci (C05's guard) or under projective matrices".into(),
        ]
    }
}
