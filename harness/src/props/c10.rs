//! C10 - reusing evaluators, tapes' storage and workspaces never changes
//! results. A random history machine hands storage, evaluators and workspaces
//! from one function to another; a shadow performs every call with brand-new
//! objects; all observable results must agree bit for bit.
use crate::gen_::boxes;
use crate::gen_::prog::{self, Consts, GenCfg, Inputs, Profile, Prog};
use crate::monitor::child;
use crate::monitor::guard::{self, Flush};
use crate::props::evalutil::*;
use crate::util::{Rng, Stats, Tier, guarded, same_bits};
use crate::{Mode, Prop};
use fidget_core::eval::{BulkEvaluator, Tape, TracingEvaluator};
use fidget_core::render::RenderHandle;
use fidget_core::shape::Shape;
use fidget_core::types::{Grad, Interval};
use fidget_core::vm::{Choice, VmFunction, VmTrace};
use fidget_jit::JitFunction;
use serde_json::{Value, json};

pub struct C10;

struct Viol {
    sig: String,
    msg: String,
    detail: Value,
}

struct FnEntry<F> {
    real: F,
    /// the same function obtained through fresh objects only
    shadow: F,
    n_vars: usize,
    slot: Vec<usize>,
    /// traces seen for this function (from the shadow's evaluations), each
    /// with a point (by variable slot) of the domain it was taken on
    traces: Vec<(Vec<Choice>, Vec<f32>)>,
    generation: usize,
}

fn mk_trace(t: &[Choice]) -> VmTrace {
    let mut v = VmTrace::default();
    v.resize(t.len(), Choice::Unknown);
    v.as_mut_slice().copy_from_slice(t);
    v
}

fn iv_eq(a: Interval, b: Interval) -> bool {
    same_bits(a.lower(), b.lower()) && same_bits(a.upper(), b.upper())
}
fn g_eq(a: Grad, b: Grad) -> bool {
    same_bits(a.v, b.v) && same_bits(a.dx, b.dx) && same_bits(a.dy, b.dy) && same_bits(a.dz, b.dz)
}

fn run_history<F: Backend>(progs: &[Prog], rng: &mut Rng, n_steps: usize, st: &mut Stats) -> Result<(), Viol>
where
    F::Storage: Default,
{
    let name = F::NAME;
    let builts: Vec<prog::Built> = progs.iter().map(|p| p.build()).collect();
    let mut fns: Vec<FnEntry<F>> = vec![];
    for (p, b) in progs.iter().zip(builts.iter()) {
        let roots = p.roots(b);
        let real = F::new(&b.ctx, &roots).unwrap();
        let shadow = F::new(&b.ctx, &roots).unwrap();
        let slot = slot_map(real.vars(), &b.vars).unwrap();
        fns.push(FnEntry { real, shadow, n_vars: p.n_vars, slot, traces: vec![], generation: 0 });
    }
    // long-lived objects
    let mut pe = F::new_point_eval();
    let mut ie = F::new_interval_eval();
    let mut fe = F::new_float_slice_eval();
    let mut ge = F::new_grad_slice_eval();
    // shape-level wrappers keep their own scratch columns
    let mut s_fe = Shape::<F>::new_float_slice_eval();
    let mut s_ge = Shape::<F>::new_grad_slice_eval();
    let mut s_pe = Shape::<F>::new_point_eval();
    let mut workspace = F::Workspace::default();
    let mut spare_trace = VmTrace::default();
    let mut spare_fn_storage: Vec<F::Storage> = vec![];
    let mut spare_tape_storage: Vec<F::TapeStorage> = vec![];
    let mut step_log: Vec<String> = vec![];
    let viol = |sig: &str, msg: String, log: &Vec<String>| Viol {
        sig: format!("{name}:{sig}"),
        msg,
        detail: json!({"history_tail": log.iter().rev().take(12).rev().collect::<Vec<_>>(), "steps": log.len()}),
    };
    let take_tape_storage = |rng: &mut Rng, spare: &mut Vec<F::TapeStorage>, st: &mut Stats| -> F::TapeStorage {
        if !spare.is_empty() && rng.chance(0.7) {
            st.inc("tape_storage_reused");
            let k = rng.below(spare.len());
            spare.swap_remove(k)
        } else {
            F::TapeStorage::default()
        }
    };

    for _ in 0..n_steps {
        let k = rng.below(fns.len());
        let ik = if rng.chance(0.3) { Inputs::Hostile } else { Inputs::Tame };
        let by_slot = prog::gen_inputs(rng, fns[k].n_vars, ik);
        let input: Vec<f32> = fns[k].slot.iter().map(|&s| by_slot[s]).collect();
        let step = rng.below(12);
        match step {
            // ---------------- point evaluation with the long-lived evaluator
            0 | 1 => {
                step_log.push(format!("point eval fn{k} (gen {})", fns[k].generation));
                let ts = take_tape_storage(rng, &mut spare_tape_storage, st);
                child::note(&format!("C10 {name} point eval | step {}", step_log.len()));
                let tape = fns[k].real.point_tape(ts);
                let r = guard::with_guard(Flush::End, || {
                    pe.eval(&tape, &input).map(|(o, t)| (o.to_vec(), t.map(|t| t.as_slice().to_vec())))
                });
                let (out, tr) = r.map_err(|e| viol("eval_error", e.to_string(), &step_log))?;
                let (sout, str_) = point_eval(&fns[k].shadow, &input).map_err(|e| viol("eval_error", e, &step_log))?;
                st.inc("steps_point_eval");
                if out.len() != sout.len() || out.iter().zip(sout.iter()).any(|(a, b)| !same_bits(*a, *b)) {
                    return Err(viol("point_values", format!("reused point evaluator returned {out:?}, fresh objects return {sout:?}"), &step_log));
                }
                if tr != str_ {
                    return Err(viol("point_trace", "reused point evaluator returned a different trace than fresh objects".into(), &step_log));
                }
                if let Some(t) = str_ {
                    if fns[k].traces.len() < 4 {
                        fns[k].traces.push((t, by_slot.clone()));
                    }
                }
                spare_tape_storage.extend(tape.recycle());
            }
            // ---------------- interval evaluation
            2 | 3 => {
                step_log.push(format!("interval eval fn{k} (gen {})", fns[k].generation));
                let kind = boxes::random_tame_kind(rng);
                let bx = boxes::gen_box(rng, fns[k].n_vars, kind);
                let iinput: Vec<Interval> = fns[k].slot.iter().map(|&s| Interval::new(bx[s].0, bx[s].1)).collect();
                let ts = take_tape_storage(rng, &mut spare_tape_storage, st);
                child::note(&format!("C10 {name} interval eval | step {}", step_log.len()));
                let tape = fns[k].real.interval_tape(ts);
                let r = guarded(|| guard::with_guard(Flush::End, || ie.eval(&tape, &iinput).map(|(o, t)| (o.to_vec(), t.map(|t| t.as_slice().to_vec())))));
                let sr = guarded(|| interval_eval(&fns[k].shadow, &iinput));
                match (r, sr) {
                    (Ok(Ok((out, tr))), Ok(Ok((sout, str_)))) => {
                        st.inc("steps_interval_eval");
                        if out.len() != sout.len() || out.iter().zip(sout.iter()).any(|(a, b)| !iv_eq(*a, *b)) {
                            return Err(viol("interval_values", format!("reused interval evaluator returned {out:?}, fresh objects return {sout:?}"), &step_log));
                        }
                        if tr != str_ {
                            return Err(viol("interval_trace", "reused interval evaluator returned a different trace than fresh objects".into(), &step_log));
                        }
                        if let Some(t) = str_ {
                            if fns[k].traces.len() < 4 {
                                let w = boxes::point_in(rng, &bx);
                                fns[k].traces.push((t, w));
                            }
                        }
                    }
                    (Err(_), Err(_)) => st.inc("interval_evals_panicked(C11)"),
                    (Err(_), _) | (_, Err(_)) => {
                        return Err(viol("interval_panic_mismatch", "interval evaluation panicked with reused objects only (or with fresh objects only)".into(), &step_log));
                    }
                    _ => return Err(viol("eval_error", "interval eval error".into(), &step_log)),
                }
                spare_tape_storage.extend(tape.recycle());
            }
            // ---------------- bulk evaluations with changing lengths
            4 | 5 => {
                let len = *rng.pick(&[0usize, 1, 3, 7, 8, 9, 16, 17, 40]);
                step_log.push(format!("float+grad slice eval fn{k} len {len}"));
                if fns[k].slot.is_empty() {
                    continue;
                }
                let pts: Vec<Vec<f32>> = (0..len.max(1)).map(|_| prog::gen_inputs(rng, fns[k].n_vars, Inputs::Tame)).collect();
                let cols: Vec<Vec<f32>> = fns[k].slot.iter().map(|&s| (0..len).map(|j| pts[j][s]).collect()).collect();
                let ts = take_tape_storage(rng, &mut spare_tape_storage, st);
                child::note(&format!("C10 {name} float-slice eval | step {} len {len}", step_log.len()));
                let tape = fns[k].real.float_slice_tape(ts);
                let out: Vec<Vec<f32>> = guard::with_guard(Flush::End, || {
                    fe.eval(&tape, &cols).map(|o| (0..o.len()).map(|i| o[i].to_vec()).collect())
                })
                .map_err(|e| viol("eval_error", e.to_string(), &step_log))?;
                let sout = float_slice_eval(&fns[k].shadow, &cols).map_err(|e| viol("eval_error", e, &step_log))?;
                st.inc("steps_float_slice_eval");
                if out.len() != sout.len() || out.iter().zip(sout.iter()).any(|(a, b)| a.len() != b.len() || a.iter().zip(b.iter()).any(|(x, y)| !same_bits(*x, *y))) {
                    return Err(viol("float_slice_values", format!("reused float-slice evaluator (len {len}) disagrees with fresh objects"), &step_log));
                }
                // the very same call once more (same tape, same length, same
                // output count: whatever the evaluator cached must still hold)
                if rng.chance(0.3) {
                    step_log.push(format!("float slice eval fn{k} len {len} repeated"));
                    let again: Vec<Vec<f32>> = guard::with_guard(Flush::End, || {
                        fe.eval(&tape, &cols).map(|o| (0..o.len()).map(|i| o[i].to_vec()).collect())
                    })
                    .map_err(|e| viol("eval_error", e.to_string(), &step_log))?;
                    st.inc("steps_float_slice_eval_repeated");
                    if again.len() != sout.len() || again.iter().zip(sout.iter()).any(|(a, b)| a.len() != b.len() || a.iter().zip(b.iter()).any(|(x, y)| !same_bits(*x, *y))) {
                        return Err(viol("float_slice_values_repeated_call", format!("the same float-slice call (len {len}) repeated on the same evaluator disagrees with fresh objects"), &step_log));
                    }
                }
                spare_tape_storage.extend(tape.recycle());
                let gcols: Vec<Vec<Grad>> = cols.iter().enumerate().map(|(i, c)| c.iter().map(|v| Grad::new(*v, (i % 3 == 0) as u8 as f32, (i % 3 == 1) as u8 as f32, (i % 3 == 2) as u8 as f32)).collect()).collect();
                let ts = take_tape_storage(rng, &mut spare_tape_storage, st);
                child::note(&format!("C10 {name} grad-slice eval | step {} len {len}", step_log.len()));
                let tape = fns[k].real.grad_slice_tape(ts);
                let out: Vec<Vec<Grad>> = guard::with_guard(Flush::End, || {
                    ge.eval(&tape, &gcols).map(|o| (0..o.len()).map(|i| o[i].to_vec()).collect())
                })
                .map_err(|e| viol("eval_error", e.to_string(), &step_log))?;
                let sout = grad_slice_eval(&fns[k].shadow, &gcols).map_err(|e| viol("eval_error", e, &step_log))?;
                st.inc("steps_grad_slice_eval");
                if out.len() != sout.len() || out.iter().zip(sout.iter()).any(|(a, b)| a.len() != b.len() || a.iter().zip(b.iter()).any(|(x, y)| !g_eq(*x, *y))) {
                    return Err(viol("grad_slice_values", format!("reused grad-slice evaluator (len {len}) disagrees with fresh objects"), &step_log));
                }
                spare_tape_storage.extend(tape.recycle());
            }
            // ---------------- simplify with reused storage and workspace
            6 | 7 => {
                if fns[k].traces.is_empty() {
                    continue;
                }
                let t = rng.pick(&fns[k].traces).0.clone();
                step_log.push(format!("simplify fn{k} (gen {}) with a {}-entry trace, {} spare storages", fns[k].generation, t.len(), spare_fn_storage.len()));
                let tr = mk_trace(&t);
                // the trace object itself is recycled as well: one long-lived
                // trace receives every trace through `Trace::copy_from`
                // (longer ones, shorter ones) and is what the real call uses
                {
                    use fidget_core::eval::Trace;
                    spare_trace.copy_from(&tr);
                    st.inc("trace_objects_recycled");
                    if spare_trace != tr {
                        return Err(viol("trace_copy", format!("a recycled trace object filled by copy_from ({} entries) is not equal to its source ({} entries)", spare_trace.as_slice().len(), tr.as_slice().len()), &step_log));
                    }
                }
                let tr_real = spare_trace.clone();
                let storage = if !spare_fn_storage.is_empty() && rng.chance(0.8) {
                    st.inc("fn_storage_reused");
                    let j = rng.below(spare_fn_storage.len());
                    spare_fn_storage.swap_remove(j)
                } else {
                    F::Storage::default()
                };
                child::note(&format!("C10 {name} simplify | step {}", step_log.len()));
                let real = guarded(|| fns[k].real.simplify(&tr_real, storage, &mut workspace));
                let shadow = guarded(|| fns[k].shadow.simplify(&tr, F::Storage::default(), &mut F::Workspace::default()));
                let (real, shadow) = match (real, shadow) {
                    (Ok(Ok(a)), Ok(Ok(b))) => (a, b),
                    (Err(_), Err(_)) | (Ok(Err(_)), Ok(Err(_))) => {
                        st.inc("simplify_failed_both(C04)");
                        continue;
                    }
                    _ => return Err(viol("simplify_outcome", "simplify succeeded with reused objects only (or with fresh objects only)".into(), &step_log)),
                };
                st.inc("steps_simplify");
                if real.size() != shadow.size() || real.output_count() != shadow.output_count() || real.vars().len() != shadow.vars().len() || format!("{:?}", real.ops()) != format!("{:?}", shadow.ops()) {
                    return Err(viol("simplify_result", format!("simplify with reused storage/workspace produced a different function (size {} vs {})", real.size(), shadow.size()), &step_log));
                }
                // replace a random function (recycling the old one) or append
                let n_vars = fns[k].n_vars;
                let slot = fns[k].slot.clone();
                let generation = fns[k].generation + 1;
                let e = FnEntry { real, shadow, n_vars, slot, traces: vec![], generation };
                if fns.len() >= 12 || rng.chance(0.5) {
                    let j = rng.below(fns.len());
                    let old = std::mem::replace(&mut fns[j], e);
                    step_log.push(format!("recycle fn{j}"));
                    if let Some(s) = old.real.recycle() {
                        st.inc("fn_storage_recycled");
                        spare_fn_storage.push(s);
                    }
                } else {
                    fns.push(e);
                }
            }
            // ---------------- shape-level evaluators reused across tapes with
            // different variable counts and sample counts
            10 | 11 => {
                if fns[k].real.output_count() != 1 {
                    continue;
                }
                let len = *rng.pick(&[0usize, 1, 2, 5, 8, 9, 17]);
                step_log.push(format!("shape-level bulk/point eval fn{k} len {len}"));
                let shape = Shape::new_raw(fns[k].real.clone());
                let sshape = Shape::new_raw(fns[k].shadow.clone());
                let mut sv: fidget_core::shape::ShapeVars<f32> = fidget_core::shape::ShapeVars::new();
                for (var, idx) in fns[k].real.vars().iter() {
                    if let fidget_core::var::Var::V(i) = var {
                        sv.insert(i, input[idx]);
                    }
                }
                let xs: Vec<f32> = (0..len).map(|_| rng.uniform(-2.0, 2.0) as f32).collect();
                let ys: Vec<f32> = (0..len).map(|_| rng.uniform(-2.0, 2.0) as f32).collect();
                let zs: Vec<f32> = (0..len).map(|_| rng.uniform(-2.0, 2.0) as f32).collect();
                child::note(&format!("C10 {name} shape-level bulk eval | step {} len {len}", step_log.len()));
                let ft = shape.float_slice_tape(take_tape_storage(rng, &mut spare_tape_storage, st));
                let got = guarded(|| s_fe.eval_with_vars(&ft, &xs, &ys, &zs, &sv).map(|o| o.to_vec()));
                let sft = sshape.float_slice_tape(Default::default());
                let want = guarded(|| Shape::<F>::new_float_slice_eval().eval_with_vars(&sft, &xs, &ys, &zs, &sv).map(|o| o.to_vec()));
                st.inc("steps_shape_level_eval");
                match (got, want) {
                    (Ok(Ok(a)), Ok(Ok(b))) => {
                        if a.len() != b.len() || a.iter().zip(b.iter()).any(|(x, y)| !same_bits(*x, *y)) {
                            return Err(viol("shape_bulk_values", format!("reused shape-level float-slice evaluator (len {len}) disagrees with a fresh one"), &step_log));
                        }
                    }
                    (Ok(Err(_)), Ok(Err(_))) => (),
                    (Err(pi), Ok(_)) => {
                        return Err(viol("shape_bulk_panic", format!("reused shape-level float-slice evaluator panicked at {} ({}) where a fresh one does not", pi.site(), pi.msg), &step_log));
                    }
                    _ => return Err(viol("shape_bulk_outcome", "reused and fresh shape-level float-slice evaluators differ in outcome".into(), &step_log)),
                }
                spare_tape_storage.extend(ft.recycle());
                let gx: Vec<Grad> = xs.iter().map(|v| Grad::new(*v, 1.0, 0.0, 0.0)).collect();
                let gy: Vec<Grad> = ys.iter().map(|v| Grad::new(*v, 0.0, 1.0, 0.0)).collect();
                let gz: Vec<Grad> = zs.iter().map(|v| Grad::new(*v, 0.0, 0.0, 1.0)).collect();
                let gt = shape.grad_slice_tape(take_tape_storage(rng, &mut spare_tape_storage, st));
                let got = guarded(|| s_ge.eval_with_vars(&gt, &gx, &gy, &gz, &sv).map(|o| o.to_vec()));
                let sgt = sshape.grad_slice_tape(Default::default());
                let want = guarded(|| Shape::<F>::new_grad_slice_eval().eval_with_vars(&sgt, &gx, &gy, &gz, &sv).map(|o| o.to_vec()));
                match (got, want) {
                    (Ok(Ok(a)), Ok(Ok(b))) => {
                        if a.len() != b.len() || a.iter().zip(b.iter()).any(|(x, y)| !g_eq(*x, *y)) {
                            return Err(viol("shape_grad_values", format!("reused shape-level grad-slice evaluator (len {len}) disagrees with a fresh one"), &step_log));
                        }
                    }
                    (Ok(Err(_)), Ok(Err(_))) => (),
                    (Err(pi), Ok(_)) => {
                        return Err(viol("shape_grad_panic", format!("reused shape-level grad-slice evaluator panicked at {} ({}) where a fresh one does not", pi.site(), pi.msg), &step_log));
                    }
                    _ => return Err(viol("shape_grad_outcome", "reused and fresh shape-level grad-slice evaluators differ in outcome".into(), &step_log)),
                }
                spare_tape_storage.extend(gt.recycle());
                // point wrapper
                let pt = shape.point_tape(take_tape_storage(rng, &mut spare_tape_storage, st));
                let got = guarded(|| s_pe.eval_with_vars(&pt, 0.25f32, -0.5f32, 1.5f32, &sv).map(|r| r.0));
                let spt = sshape.point_tape(Default::default());
                let want = guarded(|| Shape::<F>::new_point_eval().eval_with_vars(&spt, 0.25f32, -0.5f32, 1.5f32, &sv).map(|r| r.0));
                match (got, want) {
                    (Ok(Ok(a)), Ok(Ok(b))) => {
                        if !same_bits(a, b) {
                            return Err(viol("shape_point_values", "reused shape-level point evaluator disagrees with a fresh one".into(), &step_log));
                        }
                    }
                    (Ok(Err(_)), Ok(Err(_))) => (),
                    _ => return Err(viol("shape_point_outcome", "reused and fresh shape-level point evaluators differ in outcome".into(), &step_log)),
                }
                spare_tape_storage.extend(pt.recycle());
            }
            // ---------------- render-handle sequences (cache hit and miss)
            _ => {
                if fns[k].real.output_count() != 1 || fns[k].traces.is_empty() {
                    continue;
                }
                step_log.push(format!("render handle on fn{k}"));
                let shape = Shape::new_raw(fns[k].real.clone());
                let mut rh = RenderHandle::new(shape);
                let mut shape_storage: Vec<F::Storage> = std::mem::take(&mut spare_fn_storage);
                let mut tape_storage: Vec<F::TapeStorage> = std::mem::take(&mut spare_tape_storage);
                let seq: Vec<usize> = (0..2 + rng.below(4)).map(|_| rng.below(fns[k].traces.len())).collect();
                for ti in seq {
                    let (t, w) = fns[k].traces[ti].clone();
                    let tr = mk_trace(&t);
                    child::note(&format!("C10 {name} render handle simplify | step {}", step_log.len()));
                    let sub = rh.simplify(&tr, &mut workspace, &mut shape_storage, &mut tape_storage);
                    // the returned handle must evaluate, at a point of the
                    // traced domain, like a freshly simplified function
                    let sh = match guarded(|| fns[k].shadow.simplify(&tr, F::Storage::default(), &mut F::Workspace::default())) {
                        Ok(Ok(s)) => s,
                        _ => continue,
                    };
                    let winput: Vec<f32> = fns[k].slot.iter().map(|&s| w[s]).collect();
                    // (same evaluator kind on both sides: NaN payloads hashed
                    // by rand/mix differ between kinds)
                    let wcols: Vec<Vec<f32>> = winput.iter().map(|v| vec![*v]).collect();
                    if wcols.is_empty() {
                        continue;
                    }
                    let want = match float_slice_eval(&sh, &wcols) {
                        Ok(o) => o[0][0],
                        Err(_) => continue,
                    };
                    // shape-level evaluation: x,y,z by position, others by id
                    let mut xyz = [0f32; 3];
                    let mut sv: fidget_core::shape::ShapeVars<f32> = fidget_core::shape::ShapeVars::new();
                    for (var, idx) in fns[k].real.vars().iter() {
                        match var {
                            fidget_core::var::Var::X => xyz[0] = winput[idx],
                            fidget_core::var::Var::Y => xyz[1] = winput[idx],
                            fidget_core::var::Var::Z => xyz[2] = winput[idx],
                            fidget_core::var::Var::V(i) => {
                                sv.insert(i, winput[idx]);
                            }
                        }
                    }
                    let ftape = sub.f_tape(&mut tape_storage);
                    let mut bev = Shape::<F>::new_float_slice_eval();
                    let got = bev.eval_with_vars(ftape, &[xyz[0]], &[xyz[1]], &[xyz[2]], &sv).map(|o| o[0]);
                    st.inc("steps_render_handle_simplify");
                    match got {
                        Ok(g) if same_bits(g, want) => (),
                        Ok(g) => {
                            return Err(viol("render_handle_value", format!("RenderHandle::simplify returned a handle evaluating to {g:?} at a point of the traced domain; a freshly simplified function gives {want:?}"), &step_log));
                        }
                        Err(e) => return Err(viol("render_handle_error", e.to_string(), &step_log)),
                    }
                }
                rh.recycle(&mut shape_storage, &mut tape_storage);
                spare_fn_storage = shape_storage;
                spare_tape_storage = tape_storage;
            }
        }
    }
    // ---------------- evaluators that outlive the shapes they evaluated:
    // small shapes binding X, Y, Z to different input slots are built,
    // evaluated through the long-lived shape-level tracing evaluators and
    // dropped (with their tapes) before the next one is built, so that the
    // allocator hands the freed blocks (variable maps included) back
    {
        let mut s_ie = Shape::<F>::new_interval_eval();
        for round in 0..8 {
            let mut cx = fidget_core::Context::new();
            let ax = [cx.x(), cx.y(), cx.z()];
            let perm = *rng.pick(&[[0usize, 1, 2], [1, 0, 2], [2, 1, 0], [0, 2, 1], [1, 2, 0], [2, 0, 1]]);
            // first encounter order = perm; asymmetric in the axes
            let t0 = cx.mul(ax[perm[0]], 2.0).unwrap();
            let t1 = cx.sub(t0, ax[perm[1]]).unwrap();
            let t2 = cx.mul(ax[perm[2]], 0.25).unwrap();
            let root = if rng.chance(0.5) { cx.add(t1, t2).unwrap() } else { t1 };
            let shape = Shape::<F>::new(&cx, root).unwrap();
            let q = [rng.uniform(-2.0, 2.0) as f32, rng.uniform(-2.0, 2.0) as f32, rng.uniform(-2.0, 2.0) as f32];
            step_log.push(format!("evaluators outliving shapes: round {round}, axis order {perm:?}"));
            let pt = shape.point_tape(Default::default());
            let got = s_pe.eval(&pt, q[0], q[1], q[2]).map(|r| r.0).map_err(|e| viol("eval_error", e.to_string(), &step_log))?;
            let want = Shape::<F>::new_point_eval().eval(&pt, q[0], q[1], q[2]).map(|r| r.0).map_err(|e| viol("eval_error", e.to_string(), &step_log))?;
            if !same_bits(got, want) {
                return Err(viol("outlived_shape_point", format!("a shape-level point evaluator that had evaluated other (since dropped) shapes returns {got:?}, a fresh one {want:?}"), &step_log));
            }
            let it = shape.interval_tape(Default::default());
            let bx = [Interval::new(q[0] - 0.5, q[0] + 0.25), Interval::new(q[1] - 0.125, q[1] + 1.0), Interval::new(q[2], q[2] + 0.5)];
            let goti = s_ie.eval(&it, bx[0], bx[1], bx[2]).map(|r| r.0).map_err(|e| viol("eval_error", e.to_string(), &step_log))?;
            let wanti = Shape::<F>::new_interval_eval().eval(&it, bx[0], bx[1], bx[2]).map(|r| r.0).map_err(|e| viol("eval_error", e.to_string(), &step_log))?;
            if !(same_bits(goti.lower(), wanti.lower()) && same_bits(goti.upper(), wanti.upper())) {
                return Err(viol("outlived_shape_interval", format!("a shape-level interval evaluator that had evaluated other (since dropped) shapes returns {goti:?}, a fresh one {wanti:?}"), &step_log));
            }
            st.inc("steps_evaluator_outlives_shape");
            // pt, it, shape and cx are dropped here
        }
    }
    st.inc("histories");
    Ok(())
}

/// The same workload in one process, for the valgrind memcheck stage
pub struct C10V;

/// Endurance: one workspace / evaluator is used for call A on a two-branch
/// function, then for `gap - 1` calls on a tiny function, then for call B on
/// the first function with the opposite decision. `gap` takes the values
/// around 2^8 and 2^16 at which a narrow generation counter, epoch stamp or
/// length field inside the reused object would come round again. B must equal
/// the same call on brand-new objects.
fn endurance(st: &mut Stats) -> Result<(), Viol> {
    use fidget_core::Context;
    use fidget_core::eval::{Function, MathFunction};
    let mut ctx = Context::new();
    let (x, y) = (ctx.x(), ctx.y());
    // g(x), h(y): a few operations each, so that each branch owns SSA slots
    let mut g = x;
    let mut h = y;
    for k in 0..6 {
        let c = ctx.constant(0.25 + k as f32);
        g = ctx.mul(g, c).unwrap();
        g = ctx.sin(g).unwrap();
        g = ctx.add(g, x).unwrap();
        h = ctx.add(h, c).unwrap();
        h = ctx.cos(h).unwrap();
        h = ctx.mul(h, y).unwrap();
    }
    let big = ctx.min(g, h).unwrap();
    let tiny = ctx.min(x, y).unwrap();
    let f_big = VmFunction::new(&ctx, &[big]).unwrap();
    let f_tiny = VmFunction::new(&ctx, &[tiny]).unwrap();
    let left = mk_trace(&[Choice::Left]);
    let right = mk_trace(&[Choice::Right]);
    let viol = |sig: &str, msg: String| Viol { sig: format!("vm:endurance:{sig}"), msg, detail: json!({"function": "min(g(x), h(y)) with 18 operations per branch; filler: min(x, y)"}) };
    let describe = |f: &VmFunction| format!("{:?}", f.ops());
    for gap in [255usize, 256, 257, 65535, 65536, 65537] {
        for (first, second, dir) in [(&left, &right, "left_then_right"), (&right, &left, "right_then_left")] {
            // ---- simplification workspace
            let mut ws = <VmFunction as Function>::Workspace::default();
            let _a = f_big.simplify(first, Default::default(), &mut ws).map_err(|e| viol("simplify_error", e.to_string()))?;
            for i in 0..gap - 1 {
                let t = if i % 257 == 3 { &right } else { &left };
                let r = f_tiny.simplify(t, Default::default(), &mut ws);
                if r.is_err() {
                    return Err(viol("simplify_error", "simplifying the filler function failed".into()));
                }
            }
            st.add("endurance_filler_simplifications", gap as u64 - 1);
            let b = guarded(|| f_big.simplify(second, Default::default(), &mut ws));
            let fresh = f_big.simplify(second, Default::default(), &mut Default::default()).map_err(|e| viol("simplify_error", e.to_string()))?;
            st.inc("endurance_workspace_checks");
            match b {
                Ok(Ok(b)) => {
                    if describe(&b) != describe(&fresh) {
                        return Err(viol(
                            &format!("workspace_gap_{gap}"),
                            format!("simplify ({dir}) with a workspace used for {} other simplifications since the first one gives a different function ({} vs {} operations with a fresh workspace)", gap - 1, b.size(), fresh.size()),
                        ));
                    }
                }
                Ok(Err(e)) => return Err(viol(&format!("workspace_gap_{gap}"), format!("simplify ({dir}) fails with a workspace used for {} other simplifications since the first one: {e}", gap - 1))),
                Err(pi) => return Err(viol(&format!("workspace_gap_{gap}"), format!("simplify ({dir}) panics with a workspace used for {} other simplifications since the first one: {} at {}", gap - 1, pi.msg, pi.site()))),
            }
            // ---- tracing evaluators
            let (pa, pb) = if dir == "left_then_right" { ([-3.0f32, 0.5], [0.5f32, -3.0]) } else { ([0.5f32, -3.0], [-3.0f32, 0.5]) };
            let slot = |f: &VmFunction, p: [f32; 2]| -> Vec<f32> {
                let mut v = vec![0f32; f.vars().len()];
                for (var, idx) in f.vars().iter() {
                    v[idx] = if var == fidget_core::var::Var::X { p[0] } else { p[1] };
                }
                v
            };
            let (bt, tt) = (f_big.point_tape(Default::default()), f_tiny.point_tape(Default::default()));
            let mut pe = VmFunction::new_point_eval();
            let _ = pe.eval(&bt, &slot(&f_big, pa));
            for i in 0..gap - 1 {
                let _ = pe.eval(&tt, &slot(&f_tiny, if i % 3 == 0 { pa } else { pb }));
            }
            let got = pe.eval(&bt, &slot(&f_big, pb)).map(|(v, t)| (v.to_vec(), t.map(|t| t.as_slice().to_vec())));
            let want = VmFunction::new_point_eval().eval(&bt, &slot(&f_big, pb)).map(|(v, t)| (v.to_vec(), t.map(|t| t.as_slice().to_vec())));
            st.inc("endurance_evaluator_checks");
            match (got, want) {
                (Ok((gv, gt)), Ok((wv, wt))) => {
                    if gv.len() != wv.len() || gv.iter().zip(&wv).any(|(a, b)| !same_bits(*a, *b)) || gt != wt {
                        return Err(viol(&format!("point_eval_gap_{gap}"), format!("a point evaluator used {} times on another tape in between gives {gv:?} / {gt:?}, a fresh one {wv:?} / {wt:?}", gap - 1)));
                    }
                }
                _ => return Err(viol(&format!("point_eval_gap_{gap}"), "point evaluation failed".into())),
            }
        }
    }
    Ok(())
}

impl Prop for C10V {
    fn id(&self) -> &'static str {
        "C10V"
    }
    fn mode(&self) -> Mode {
        Mode::Threads
    }
    fn workers(&self) -> usize {
        1
    }
    fn n_cases(&self, tier: Tier) -> u64 {
        tier.pick(6, 120)
    }
    fn time_cap_s(&self, tier: Tier) -> u64 {
        tier.pick(120, 900)
    }
    fn run_case(&self, case: u64, rng: &mut Rng, st: &mut Stats, tier: Tier) {
        C10.run_case(case, rng, st, tier)
    }
    fn rule(&self) -> String {
        "C10 workload under valgrind memcheck".into()
    }
}

impl Prop for C10 {
    fn id(&self) -> &'static str {
        "C10"
    }
    fn extra_stage(&self, st: &mut Stats, tier: Tier, seed: u64) {
        // counters inside reused objects coming round again
        if std::env::var("FV_NO_ENDURANCE").is_err() {
            match guarded(|| endurance(st)) {
                Ok(Ok(())) => {}
                Ok(Err(v)) => st.violation(0, v.sig, v.msg, v.detail),
                Err(pi) => st.violation(0, format!("vm:endurance:panic:{}", pi.site()), format!("endurance stage panicked at {}: {}", pi.site(), pi.msg), json!(null)),
            }
        }
        // use-after-munmap of recycled code pages, uninitialised scratch
        // lanes after reuse
        crate::props::memcheck::run_memcheck_stage("C10V", st, tier, seed);
    }
    fn mode(&self) -> Mode {
        Mode::Children
    }
    fn n_cases(&self, tier: Tier) -> u64 {
        tier.pick(1500, 60_000)
    }
    fn time_cap_s(&self, tier: Tier) -> u64 {
        tier.pick(100, 1200)
    }
    fn run_case(&self, case: u64, rng: &mut Rng, st: &mut Stats, tier: Tier) {
        let n_fns = 4 + rng.below(5);
        let progs: Vec<Prog> = (0..n_fns)
            .map(|i| {
                let mut cfg = GenCfg::random(rng, tier.pick(200, 400));
                if i % 2 == 0 {
                    cfg.profile = Profile::Choice;
                }
                cfg.consts = Consts::Tame;
                cfg.n_outputs = if i % 3 == 0 { 1 } else { 1 + rng.below(6) };
                prog::generate(rng, &cfg)
            })
            .collect();
        st.distinct(progs.iter().fold(0u64, |a, p| a.rotate_left(7) ^ p.hash()));
        st.sample(|| json!({"functions": progs.iter().map(|p| json!({"nodes": p.nodes.len(), "vars": p.n_vars, "outputs": p.outputs.len(), "choices": p.n_choice_ops()})).collect::<Vec<_>>()}));
        let n_steps = 50 + rng.below(tier.pick(250, 450));
        let seed = rng.next_u64();
        for jit in [false, true] {
            let mut r = Rng::new(seed ^ jit as u64);
            let res = guarded(|| {
                if jit {
                    run_history::<JitFunction>(&progs, &mut r, n_steps, st)
                } else {
                    run_history::<VmFunction>(&progs, &mut r, n_steps, st)
                }
            });
            match res {
                Ok(Ok(())) => (),
                Ok(Err(v)) => {
                    st.violation(case, v.sig, v.msg, json!({"detail": v.detail, "functions": progs.iter().map(|p| p.to_json()).collect::<Vec<_>>(), "history_seed": seed.to_string()}));
                    return;
                }
                Err(pi) => {
                    st.violation(case, format!("panic:{}:{}", pi.site(), pi.msg_class()), format!("history panicked at {}: {}", pi.site(), pi.msg), json!({"history_seed": seed.to_string()}));
                    return;
                }
            }
        }
    }
    fn finish(&self, st: &mut Stats, _tier: Tier) {
        for k in ["steps_point_eval", "steps_interval_eval", "steps_float_slice_eval", "steps_grad_slice_eval", "steps_simplify", "steps_shape_level_eval"] {
            if st.get(k) < 1000 {
                st.inconclusive.push(format!("{k} = {} (floor 1000)", st.get(k)));
            }
        }
        for k in ["tape_storage_reused", "fn_storage_reused", "fn_storage_recycled"] {
            if st.get(k) < 200 {
                st.inconclusive.push(format!("{k} = {} (floor 200)", st.get(k)));
            }
        }
    }
    fn rule(&self) -> String {
        "each case = one pool of 4..8 very different generated functions (0..40 variables, 1..6 outputs, 0..200 choices) and one random history of 50..300 steps per backend: point / interval / float-slice / gradient evaluation with ONE long-lived evaluator per kind on an arbitrary function (slot, choice, output and scratch arrays grow and shrink; bulk lengths 0..40), tapes built with storage recycled from arbitrary earlier tapes, simplify with a reused workspace and storage recycled from arbitrary other functions, functions replaced and recycled, RenderHandle simplify/recycle sequences with repeated and alternating traces; every result (values, traces, simplified tape instruction streams) compared bit-for-bit with the same call on brand-new objects; guard-page allocator on during evaluator calls; distinct = hash of the function pool".into()
    }
    fn assumptions(&self) -> Vec<String> {
        vec!["interval evaluations or simplifications that fail identically with reused and fresh objects are left to C11/C04".into()]
    }
}
