use crate::Prop;
pub mod c01;
pub mod c02;
pub mod evalutil;

pub fn lookup(id: &str) -> Option<&'static dyn Prop> {
    Some(match id {
        "C01" => &c01::C01,
        "C02" => &c02::C02,
        _ => return None,
    })
}
