use crate::Prop;
pub mod c01;

pub fn lookup(id: &str) -> Option<&'static dyn Prop> {
    Some(match id {
        "C01" => &c01::C01,
        _ => return None,
    })
}
