//! ThreadSanitizer stage of C09: builds the harness with
//! `-Zsanitizer=thread -Zbuild-std` into its own target directory, runs the
//! reduced workload `C09T` under it and classifies the reports.
use crate::props::c09::{check_scene, gen_scene, shared_tape_stress};
use crate::util::{Rng, Stats, Tier};
use crate::{Mode, Prop, verif_dir};
use fidget_core::vm::VmFunction;
use fidget_jit::JitFunction;
use std::process::Command;

/// The workload that runs inside the TSan-instrumented binary
pub struct C09T;

impl Prop for C09T {
    fn id(&self) -> &'static str {
        "C09T"
    }
    fn mode(&self) -> Mode {
        Mode::Threads
    }
    fn workers(&self) -> usize {
        1
    }
    fn n_cases(&self, tier: Tier) -> u64 {
        tier.pick(60, 600)
    }
    fn time_cap_s(&self, tier: Tier) -> u64 {
        tier.pick(60, 600)
    }
    fn run_case(&self, case: u64, rng: &mut Rng, st: &mut Stats, _tier: Tier) {
        if case % 3 == 2 {
            let r = if case % 2 == 0 { shared_tape_stress::<VmFunction>(rng, st) } else { shared_tape_stress::<JitFunction>(rng, st) };
            if let Some((sig, msg, detail)) = r {
                st.violation(case, sig, msg, detail);
            }
            st.distinct(rng.next_u64());
            return;
        }
        let sc = gen_scene(rng);
        st.distinct(sc.prog.hash());
        if let Some((sig, msg, detail)) = check_scene(&sc, rng, st, true) {
            st.violation(case, sig, msg, detail);
        }
    }
    fn rule(&self) -> String {
        "reduced C09 workload for the ThreadSanitizer build".into()
    }
}

fn first_repo_frames(block: &str) -> (Vec<String>, bool) {
    // frames look like "    #3 fidget_raster::render_tiles::... /repo/fidget-raster/src/lib.rs:123 (fv+0x...)"
    let mut frames = vec![];
    let mut any_fidget = false;
    for line in block.lines() {
        let l = line.trim();
        if !l.starts_with('#') {
            continue;
        }
        let is_fidget = l.contains("/repo/fidget") || l.contains("fidget_") || l.contains("/fidget-");
        let is_harness = l.contains("/harness/src/");
        if is_fidget && !is_harness {
            any_fidget = true;
            // function name without hashes / addresses
            let name = l.split_whitespace().nth(1).unwrap_or("").to_string();
            let name = name.split("::h").next().unwrap_or(&name).to_string();
            if frames.len() < 2 && !frames.contains(&name) {
                frames.push(name);
            }
        }
    }
    (frames, any_fidget)
}

pub fn run_tsan_stage(st: &mut Stats, tier: Tier, seed: u64) {
    if std::env::var("FV_NO_TSAN").is_ok() {
        st.inc("tsan_stage_skipped_by_env");
        return;
    }
    let root = verif_dir();
    let harness = format!("{root}/harness");
    let t0 = std::time::Instant::now();
    let build = Command::new("cargo")
        .current_dir(&harness)
        .env("RUSTFLAGS", "-Zsanitizer=thread")
        .env("CARGO_NET_OFFLINE", "true")
        .args(["+nightly", "build", "--release", "--offline", "-Zbuild-std", "--target", "x86_64-unknown-linux-gnu", "--target-dir", "target-tsan"])
        .output();
    let ok = matches!(&build, Ok(o) if o.status.success());
    st.add("tsan_build_seconds", t0.elapsed().as_secs());
    if !ok {
        let msg = match build {
            Ok(o) => String::from_utf8_lossy(&o.stderr).lines().rev().take(5).collect::<Vec<_>>().join(" | "),
            Err(e) => e.to_string(),
        };
        st.inconclusive.push(format!("ThreadSanitizer build failed: {msg}"));
        return;
    }
    let out_root = format!("{harness}/target-tsan/out");
    let _ = std::fs::remove_dir_all(&out_root);
    let _ = std::fs::create_dir_all(&out_root);
    let _ = std::fs::copy(format!("{root}/known_findings.json"), format!("{out_root}/known_findings.json"));
    let log_prefix = format!("{out_root}/tsan");
    let run = Command::new(format!("{harness}/target-tsan/x86_64-unknown-linux-gnu/release/fv"))
        .args(["C09T", tier.name(), "--seed", &format!("{}", seed as i64)])
        .env("FV_ROOT", &out_root)
        .env("FV_NO_TSAN", "1")
        .env("FV_INPROCESS", "1")
        .env("TSAN_OPTIONS", format!("halt_on_error=0 report_signal_unsafe=0 log_path={log_prefix} exitcode=0"))
        .output();
    let Ok(run) = run else {
        st.inconclusive.push("could not start the ThreadSanitizer binary".into());
        return;
    };
    let stdout = String::from_utf8_lossy(&run.stdout).to_string();
    // counters of the instrumented run
    for line in stdout.lines() {
        if let Some((k, v)) = line.trim().split_once(" = ") {
            if let Ok(v) = v.trim().parse::<u64>() {
                if k == "cases_run" || k.ends_with("_scenes") || k.ends_with("shared_tape_rounds") || k.starts_with("pool_") {
                    st.add(&format!("tsan_{}", k.trim()), v);
                }
            }
        }
    }
    for line in stdout.lines().filter(|l| l.starts_with("VIOLATION")) {
        // a value-level violation seen under the instrumented binary
        let sig = line.rsplit('[').next().unwrap_or("").trim_end_matches(']').to_string();
        st.violation(0, format!("tsan_run:{sig}"), format!("under the ThreadSanitizer build: {line}"), serde_json::json!(null));
    }
    if !run.status.success() && !stdout.contains("VIOLATION") {
        st.inconclusive.push(format!("ThreadSanitizer run exited with {:?}", run.status.code()));
    }
    if st.get("tsan_cases_run") == 0 {
        st.inconclusive.push("ThreadSanitizer run executed no case".into());
    }
    // reports
    let mut reports = 0u64;
    let mut seen = std::collections::BTreeSet::new();
    if let Ok(rd) = std::fs::read_dir(&out_root) {
        for e in rd.flatten() {
            let name = e.file_name().to_string_lossy().to_string();
            if !name.starts_with("tsan.") {
                continue;
            }
            let text = std::fs::read_to_string(e.path()).unwrap_or_default();
            for block in text.split("==================") {
                if !block.contains("WARNING: ThreadSanitizer") {
                    continue;
                }
                reports += 1;
                let kind = block.lines().find(|l| l.contains("WARNING: ThreadSanitizer")).unwrap_or("").split("ThreadSanitizer:").nth(1).unwrap_or("").split('(').next().unwrap_or("").trim().replace(' ', "_");
                let (frames, in_fidget) = first_repo_frames(block);
                let sig = format!("tsan:{kind}:{}", frames.join("|"));
                if !seen.insert(sig.clone()) {
                    continue;
                }
                if in_fidget {
                    st.violation(0, sig, format!("ThreadSanitizer report ({kind}) with fidget frames: {}", frames.join(" / ")),
                        serde_json::json!({"report": block.lines().take(40).collect::<Vec<_>>()}));
                } else {
                    st.inc("tsan_reports_outside_fidget(not_judged)");
                }
            }
        }
    }
    st.add("tsan_reports", reports);
    st.inc("tsan_stage_ran");
}
