//! C13 - remapping a tree's axes is substitution.
//!
//! Workload: a seeded generator builds, in lock-step, (i) real `Tree`s through
//! the public builder API only (`Tree::x()`, operators, `remap_xyz`,
//! `remap_affine`) and (ii) a private *spec* DAG that records exactly which
//! builder call was made with which arguments (for `remap_affine`: the matrix
//! entries that were handed to the call, *not* whatever the builder stored).
//!
//! Oracle: substitution semantics written from the property statement
//! (`RemapAxes` = evaluate the target with x,y,z replaced by the values of the
//! axis expressions in the enclosing frame; `RemapAffine` = evaluate the
//! target at the affine image of the enclosing frame; outer remaps therefore
//! act on the coordinates first; `Var::V` never changes) evaluated
//!   * on the spec DAG (primary oracle, independent of `tree.rs` flattening)
//!   * on the public `TreeOp` enum of the built tree (secondary oracle, used
//!     to tell "the builder stored a wrong tree" from "import is wrong").
//! Both are compared with `Context::eval(ctx.import(&tree))`.
//!
//! Regimes: EXACT (dyadic constants/matrices/points, ops in {add, sub, mul,
//! neg, min, max, abs, square}; every sample carries a *certificate* that all
//! intermediate values of every association order - including every
//! contiguous product of a run of affine matrices - are exactly representable
//! in f32, then the comparison is `==`), GENERAL (all opcodes, f64 reference,
//! tolerance 64 * eps_f32 * T with T a first-order magnitude/condition
//! tracker; samples near discontinuities or with non-finite / huge
//! intermediates are skipped and counted).
use crate::refmodel::op::{spec_mix, spec_rand};
use crate::util::{Rng, Stats, Tier, fbits, guarded, hash_u64s};
use crate::{Mode, Prop};
use fidget_core::context::{
    BinaryOpcode as B, Context, Tree, TreeOp, UnaryOpcode as U,
};
use fidget_core::var::Var;
use nalgebra::{Affine3, Matrix4};
use serde_json::{Value, json};
use std::collections::{HashMap, HashSet};

pub struct C13;

/// Rows of the 3x4 affine matrix handed to `remap_affine`
type Mat = [[f32; 4]; 3];

const N_POINTS: usize = 8;
const EPS: f64 = f32::EPSILON as f64;
const SLACK: f64 = 64.0;
const TINY: f64 = 1.1754943508222875e-38; // 2^-126
const HUGE: f64 = 1e30;
const MAX_DEPTH: u32 = 2000;

////////////////////////////////////////////////////////////////////////////////
// Spec DAG (what the harness asked the builder API to do)

#[derive(Clone, Debug)]
enum SNode {
    X,
    Y,
    Z,
    Var(usize),
    Const(f32),
    Un(U, usize),
    Bin(B, usize, usize),
    /// `trees[t].remap_xyz(trees[x], trees[y], trees[z])`
    Xyz { t: usize, x: usize, y: usize, z: usize },
    /// `trees[t].remap_affine(m)`
    Aff { t: usize, m: Mat, kind: &'static str },
}

struct Arena {
    nodes: Vec<SNode>,
    vars: Vec<Var>,
}

fn mat_to_affine(m: &Mat) -> Affine3<f32> {
    Affine3::from_matrix_unchecked(Matrix4::new(
        m[0][0], m[0][1], m[0][2], m[0][3], m[1][0], m[1][1], m[1][2], m[1][3],
        m[2][0], m[2][1], m[2][2], m[2][3], 0.0, 0.0, 0.0, 1.0,
    ))
}

fn affine_to_mat(a: &Affine3<f32>) -> Mat {
    let h = a.matrix();
    let mut m = [[0f32; 4]; 3];
    for (i, row) in m.iter_mut().enumerate() {
        for (j, e) in row.iter_mut().enumerate() {
            *e = h[(i, j)];
        }
    }
    m
}

fn un_name(op: U) -> &'static str {
    match op {
        U::Neg => "neg",
        U::Abs => "abs",
        U::Recip => "recip",
        U::Sqrt => "sqrt",
        U::Square => "square",
        U::Floor => "floor",
        U::Ceil => "ceil",
        U::Round => "round",
        U::Sin => "sin",
        U::Cos => "cos",
        U::Tan => "tan",
        U::Asin => "asin",
        U::Acos => "acos",
        U::Atan => "atan",
        U::Exp => "exp",
        U::Ln => "ln",
        U::Not => "not",
        U::Rand => "rand",
    }
}

fn bin_name(op: B) -> &'static str {
    match op {
        B::Add => "add",
        B::Sub => "sub",
        B::Mul => "mul",
        B::Div => "div",
        B::Atan => "atan2",
        B::Min => "min",
        B::Max => "max",
        B::Compare => "compare",
        B::Mod => "mod",
        B::And => "and",
        B::Or => "or",
        B::Mix => "mix",
    }
}

impl Arena {
    fn push(&mut self, n: SNode) -> usize {
        self.nodes.push(n);
        self.nodes.len() - 1
    }

    /// Builds the real trees, node by node, through the public builder API
    fn build_trees(&self) -> Vec<Tree> {
        let mut t: Vec<Tree> = Vec::with_capacity(self.nodes.len());
        for n in &self.nodes {
            let tree = match n {
                SNode::X => Tree::x(),
                SNode::Y => Tree::y(),
                SNode::Z => Tree::z(),
                SNode::Var(i) => Tree::from(self.vars[*i]),
                SNode::Const(c) => Tree::constant(*c),
                SNode::Un(op, a) => {
                    let a = &t[*a];
                    match op {
                        U::Neg => a.neg(),
                        U::Abs => a.abs(),
                        U::Recip => a.recip(),
                        U::Sqrt => a.sqrt(),
                        U::Square => a.square(),
                        U::Floor => a.floor(),
                        U::Ceil => a.ceil(),
                        U::Round => a.round(),
                        U::Sin => a.sin(),
                        U::Cos => a.cos(),
                        U::Tan => a.tan(),
                        U::Asin => a.asin(),
                        U::Acos => a.acos(),
                        U::Atan => a.atan(),
                        U::Exp => a.exp(),
                        U::Ln => a.ln(),
                        U::Not => a.not(),
                        U::Rand => a.rand(),
                    }
                }
                SNode::Bin(op, a, b) => {
                    let a = t[*a].clone();
                    let b = t[*b].clone();
                    match op {
                        B::Add => a + b,
                        B::Sub => a - b,
                        B::Mul => a * b,
                        B::Div => a / b,
                        B::Atan => a.atan2(b),
                        B::Min => a.min(b),
                        B::Max => a.max(b),
                        B::Compare => a.compare(b),
                        B::Mod => a.modulo(b),
                        B::And => a.and(b),
                        B::Or => a.or(b),
                        B::Mix => a.mix(b),
                    }
                }
                SNode::Xyz { t: tt, x, y, z } => {
                    t[*tt].remap_xyz(t[*x].clone(), t[*y].clone(), t[*z].clone())
                }
                SNode::Aff { t: tt, m, .. } => {
                    t[*tt].remap_affine(mat_to_affine(m))
                }
            };
            t.push(tree);
        }
        t
    }

    fn children(&self, n: usize) -> Vec<usize> {
        match &self.nodes[n] {
            SNode::Un(_, a) => vec![*a],
            SNode::Bin(_, a, b) => vec![*a, *b],
            SNode::Xyz { t, x, y, z } => vec![*t, *x, *y, *z],
            SNode::Aff { t, .. } => vec![*t],
            _ => vec![],
        }
    }

    /// Nodes reachable from `root` (sorted)
    fn reachable(&self, root: usize) -> Vec<usize> {
        let mut seen = vec![false; self.nodes.len()];
        let mut todo = vec![root];
        while let Some(n) = todo.pop() {
            if seen[n] {
                continue;
            }
            seen[n] = true;
            todo.extend(self.children(n));
        }
        (0..self.nodes.len()).filter(|i| seen[*i]).collect()
    }

    fn line(&self, i: usize) -> String {
        match &self.nodes[i] {
            SNode::X => format!("n{i} = x"),
            SNode::Y => format!("n{i} = y"),
            SNode::Z => format!("n{i} = z"),
            SNode::Var(v) => format!("n{i} = var#{v}"),
            SNode::Const(c) => format!("n{i} = const {c:?}"),
            SNode::Un(op, a) => format!("n{i} = {} n{a}", un_name(*op)),
            SNode::Bin(op, a, b) => {
                format!("n{i} = {} n{a} n{b}", bin_name(*op))
            }
            SNode::Xyz { t, x, y, z } => {
                format!("n{i} = n{t}.remap_xyz(n{x}, n{y}, n{z})")
            }
            SNode::Aff { t, m, kind } => {
                format!("n{i} = n{t}.remap_affine({kind} {m:?})")
            }
        }
    }

    fn listing(&self, root: usize) -> Value {
        json!(
            self.reachable(root)
                .into_iter()
                .map(|i| self.line(i))
                .collect::<Vec<_>>()
        )
    }

    fn hash(&self, root: usize) -> u64 {
        let mut v = vec![];
        for i in self.reachable(root) {
            let (tag, a, b, c): (u64, u64, u64, u64) = match &self.nodes[i] {
                SNode::X => (1, 0, 0, 0),
                SNode::Y => (2, 0, 0, 0),
                SNode::Z => (3, 0, 0, 0),
                SNode::Var(k) => (4, *k as u64, 0, 0),
                SNode::Const(k) => (5, k.to_bits() as u64, 0, 0),
                SNode::Un(op, a) => (6, *op as u64, *a as u64, 0),
                SNode::Bin(op, a, b) => (7, *op as u64, *a as u64, *b as u64),
                SNode::Xyz { t, x, y, z } => {
                    (8, *t as u64, (*x as u64) << 32 | *y as u64, *z as u64)
                }
                SNode::Aff { t, m, .. } => {
                    let bits: Vec<u64> = m
                        .iter()
                        .flatten()
                        .map(|f| f.to_bits() as u64)
                        .collect();
                    (9, *t as u64, hash_u64s(&bits), 0)
                }
            };
            v.extend([tag, a, b, c]);
        }
        hash_u64s(&v)
    }

    /// Number of consecutive `remap_affine` calls ending at node `n`
    fn chain_len(&self, mut n: usize) -> u32 {
        let mut k = 0;
        while let SNode::Aff { t, .. } = &self.nodes[n] {
            k += 1;
            n = *t;
        }
        k
    }
}

////////////////////////////////////////////////////////////////////////////////
// Value domains for the substitution evaluators

trait Dom {
    type V: Clone;
    fn konst(&mut self, c: f32) -> Self::V;
    fn un(&mut self, op: U, a: &Self::V) -> Self::V;
    fn bin(&mut self, op: B, a: &Self::V, b: &Self::V) -> Self::V;
    /// affine image of the frame `p`
    fn affine(&mut self, m: &Mat, p: &[Self::V; 3]) -> [Self::V; 3];
    /// Called with a run of consecutive affine remaps (outermost call first)
    /// about to be applied to frame `p`; only used for exactness certificates
    fn chain(&mut self, _mats: &[Mat], _p: &[Self::V; 3]) {}
    /// Identity of a value (used to count distinct frames)
    fn key(v: &Self::V) -> u64;
}

//------------------------------------------------------------------------------
// EXACT: f32 arithmetic plus a certificate that it is exact.
//
// Every value carries `maj` (an upper bound of the absolute value of every
// partial sum / partial product that any association or distribution order of
// the same polynomial can produce: constants replaced by absolute values,
// subtraction by addition) and `g` (all those partial results are integer
// multiples of 2^-g). If maj * 2^g < 2^24 every such partial result is an
// integer multiple of 2^-g below 2^24 units, hence an f32; correctly rounded
// f32 operations then return it unchanged, whichever order the code under
// test uses (sequential application or a flattened matrix).

#[derive(Clone, Copy, Debug)]
struct EV {
    v: f32,
    maj: f64,
    g: i32,
}

struct Exact {
    ok: bool,
}

/// Smallest g with c * 2^g integral
fn frac_bits(c: f32) -> Option<i32> {
    if !c.is_finite() {
        return None;
    }
    let c = c as f64;
    (0..=40).find(|&g| (c * (2.0f64).powi(g)).fract() == 0.0)
}

impl Exact {
    fn cert(&mut self, maj: f64, g: i32) {
        if !(maj * (2.0f64).powi(g) < 16_000_000.0) || g > 60 {
            self.ok = false;
        }
    }
    fn mk(&mut self, v: f32, maj: f64, g: i32) -> EV {
        self.cert(maj, g);
        if !v.is_finite() {
            self.ok = false;
        }
        EV { v, maj, g }
    }
    fn entry(&mut self, c: f32) -> (f64, i32) {
        match frac_bits(c) {
            Some(g) => ((c as f64).abs(), g),
            None => {
                self.ok = false;
                (0.0, 0)
            }
        }
    }
}

impl Dom for Exact {
    type V = EV;
    fn konst(&mut self, c: f32) -> EV {
        let (maj, g) = self.entry(c);
        self.mk(c, maj, g)
    }
    fn un(&mut self, op: U, a: &EV) -> EV {
        match op {
            U::Neg => self.mk(-a.v, a.maj, a.g),
            U::Abs => self.mk(a.v.abs(), a.maj, a.g),
            U::Square => self.mk(a.v * a.v, a.maj * a.maj, a.g.saturating_mul(2)),
            _ => {
                self.ok = false;
                *a
            }
        }
    }
    fn bin(&mut self, op: B, a: &EV, b: &EV) -> EV {
        match op {
            B::Add => self.mk(a.v + b.v, a.maj + b.maj, a.g.max(b.g)),
            B::Sub => self.mk(a.v - b.v, a.maj + b.maj, a.g.max(b.g)),
            B::Mul => self.mk(a.v * b.v, a.maj * b.maj, a.g.saturating_add(b.g)),
            B::Min => self.mk(
                if a.v < b.v { a.v } else { b.v },
                a.maj.max(b.maj),
                a.g.max(b.g),
            ),
            B::Max => self.mk(
                if a.v > b.v { a.v } else { b.v },
                a.maj.max(b.maj),
                a.g.max(b.g),
            ),
            _ => {
                self.ok = false;
                *a
            }
        }
    }
    fn affine(&mut self, m: &Mat, p: &[EV; 3]) -> [EV; 3] {
        let mut out = [p[0]; 3];
        for i in 0..3 {
            let mut v = 0f32;
            let mut maj = 0f64;
            let mut g = 0i32;
            for j in 0..3 {
                let (em, eg) = self.entry(m[i][j]);
                v += m[i][j] * p[j].v;
                if em != 0.0 {
                    maj += em * p[j].maj;
                    g = g.max(eg.saturating_add(p[j].g));
                }
            }
            let (tm, tg) = self.entry(m[i][3]);
            v += m[i][3];
            maj += tm;
            g = g.max(tg);
            out[i] = self.mk(v, maj, g);
        }
        out
    }
    fn chain(&mut self, mats: &[Mat], p: &[EV; 3]) {
        if mats.len() < 2 {
            return;
        }
        // (maj, g) image of every matrix, as 4x4 with last row (0,0,0,1)
        type MG = [[(f64, i32); 4]; 4];
        let conv = |s: &mut Exact, m: &Mat| -> MG {
            let mut o = [[(0.0, 0); 4]; 4];
            for i in 0..3 {
                for j in 0..4 {
                    o[i][j] = s.entry(m[i][j]);
                }
            }
            o[3][3] = (1.0, 0);
            o
        };
        let mg: Vec<MG> = mats.iter().map(|m| conv(self, m)).collect();
        // every contiguous product  M_b * ... * M_a  (a < b; mats[0] is the
        // outermost = rightmost factor)
        for a in 0..mats.len() {
            let mut acc = mg[a];
            for b in a + 1..mats.len() {
                let mut next = [[(0.0, 0); 4]; 4];
                for i in 0..4 {
                    for j in 0..4 {
                        let mut maj = 0.0;
                        let mut g = 0;
                        for k in 0..4 {
                            let l = mg[b][i][k];
                            let r = acc[k][j];
                            if l.0 != 0.0 && r.0 != 0.0 {
                                maj += l.0 * r.0;
                                g = g.max(l.1.saturating_add(r.1));
                            }
                        }
                        self.cert(maj, g);
                        next[i][j] = (maj, g);
                    }
                }
                acc = next;
                if a == 0 {
                    // application of the (partially) flattened matrix to p
                    for row in acc.iter().take(3) {
                        let mut maj = row[3].0;
                        let mut g = row[3].1;
                        for j in 0..3 {
                            if row[j].0 != 0.0 {
                                maj += row[j].0 * p[j].maj;
                                g = g.max(row[j].1.saturating_add(p[j].g));
                            }
                        }
                        self.cert(maj, g);
                    }
                }
            }
        }
    }
    fn key(v: &EV) -> u64 {
        // +0 and -0 are the same coordinate
        (if v.v == 0.0 { 0.0f32 } else { v.v }).to_bits() as u64
    }
}

//------------------------------------------------------------------------------
// GENERAL: f64 reference value `v` and a first-order error weight `t` such
// that an f32 evaluation of the same expression (in any reasonable order)
// differs from `v` by roughly eps_f32 * t; the verdict allows 64 * eps * t.

#[derive(Clone, Copy, Debug)]
struct GV {
    v: f64,
    t: f64,
}

struct General {
    skip: Option<&'static str>,
}

fn loc(v: f64) -> f64 {
    v.abs() + TINY
}

fn is_f32(v: f64) -> bool {
    (v as f32) as f64 == v
}

impl General {
    fn skip(&mut self, why: &'static str) {
        if self.skip.is_none() {
            self.skip = Some(why);
        }
    }
    fn mk(&mut self, v: f64, t: f64) -> GV {
        if !v.is_finite() || !t.is_finite() {
            self.skip("nonfinite");
        } else if v.abs() > HUGE || t > HUGE {
            self.skip("huge");
        }
        GV { v, t }
    }
    /// uncertainty radius of an operand
    fn rad(a: &GV) -> f64 {
        SLACK * EPS * a.t
    }
}

impl Dom for General {
    type V = GV;
    fn konst(&mut self, c: f32) -> GV {
        self.mk(c as f64, 0.0)
    }
    fn un(&mut self, op: U, a: &GV) -> GV {
        let d = Self::rad(a);
        let x = a.v;
        match op {
            U::Neg => self.mk(-x, a.t),
            U::Abs => self.mk(x.abs(), a.t),
            U::Recip => {
                if !(x.abs() > 4.0 * d) || x == 0.0 {
                    self.skip("recip_near_zero");
                }
                let v = 1.0 / x;
                self.mk(v, 2.0 * a.t / (x * x) + loc(v))
            }
            U::Sqrt => {
                if x == 0.0 && a.t == 0.0 {
                    return self.mk(0.0, 0.0);
                }
                if !(x > 4.0 * d) || !(x > 0.0) {
                    self.skip("sqrt_near_zero");
                }
                let v = x.sqrt();
                self.mk(v, a.t / v + loc(v))
            }
            U::Square => {
                let v = x * x;
                self.mk(v, (2.0 * x.abs() + d) * a.t + loc(v))
            }
            U::Floor | U::Ceil | U::Round => {
                let v = match op {
                    U::Floor => x.floor(),
                    U::Ceil => x.ceil(),
                    _ => x.round(), // half away from zero, as documented
                };
                if a.t != 0.0 {
                    let dist = match op {
                        U::Round => ((x - x.floor()) - 0.5).abs(),
                        _ => (x - x.round()).abs(),
                    };
                    if !(dist > d) {
                        self.skip("rounding_discontinuity");
                    }
                }
                self.mk(v, 0.0)
            }
            U::Sin => {
                let v = x.sin();
                self.mk(v, a.t + 4.0 * loc(v))
            }
            U::Cos => {
                let v = x.cos();
                self.mk(v, a.t + 4.0 * loc(v))
            }
            U::Tan => {
                let v = x.tan();
                let s = 1.0 + v * v;
                if !(d * s < 0.1) {
                    self.skip("tan_near_pole");
                }
                self.mk(v, 2.0 * s * a.t + 4.0 * loc(v))
            }
            U::Asin | U::Acos => {
                let v = if op == U::Asin { x.asin() } else { x.acos() };
                if a.t == 0.0 {
                    if x.abs() > 1.0 {
                        self.skip("nonfinite");
                    }
                    return self.mk(v, 4.0 * loc(v));
                }
                if !(x.abs() < 1.0) || !(1.0 - x.abs() > 4.0 * d) {
                    self.skip("asin_acos_domain_edge");
                }
                let r = (1.0 - x * x).sqrt();
                self.mk(v, 2.0 * a.t / r + 4.0 * loc(v))
            }
            U::Atan => {
                let v = x.atan();
                self.mk(v, a.t + 4.0 * loc(v))
            }
            U::Exp => {
                if !(d < 0.1) {
                    self.skip("exp_wide_argument");
                }
                let v = x.exp();
                self.mk(v, 2.0 * v * a.t + 4.0 * loc(v))
            }
            U::Ln => {
                if !(x > 0.0) || !(x > 4.0 * d) {
                    self.skip("ln_near_zero");
                }
                let v = x.ln();
                self.mk(v, 2.0 * a.t / x + 4.0 * loc(v))
            }
            U::Not => {
                if a.t != 0.0 && !(x.abs() > d) {
                    self.skip("not_discontinuity");
                }
                self.mk(if x == 0.0 { 1.0 } else { 0.0 }, 0.0)
            }
            U::Rand => {
                // a bit hash: only meaningful when the argument is known
                // bit-for-bit (and the sign of a zero is not)
                if a.t != 0.0 || !is_f32(x) || x == 0.0 {
                    self.skip("rand_of_inexact_argument");
                    return self.mk(0.0, 0.0);
                }
                self.mk(spec_rand(x as f32) as f64, 0.0)
            }
        }
    }
    fn bin(&mut self, op: B, a: &GV, b: &GV) -> GV {
        let (da, db) = (Self::rad(a), Self::rad(b));
        let (x, y) = (a.v, b.v);
        let exact_in = a.t == 0.0 && b.t == 0.0;
        match op {
            B::Add => {
                let v = x + y;
                self.mk(v, a.t + b.t + loc(v))
            }
            B::Sub => {
                let v = x - y;
                self.mk(v, a.t + b.t + loc(v))
            }
            B::Mul => {
                let v = x * y;
                self.mk(v, a.t * (y.abs() + db) + b.t * x.abs() + loc(v))
            }
            B::Div => {
                if !(y.abs() > 4.0 * db) || y == 0.0 {
                    self.skip("div_near_zero");
                }
                let v = x / y;
                self.mk(
                    v,
                    2.0 * (a.t / y.abs() + b.t * x.abs() / (y * y)) + loc(v),
                )
            }
            B::Atan => {
                // atan2(y = lhs, x = rhs); cut along the negative rhs axis
                let r = x.hypot(y);
                if !(r > 4.0 * (da + db)) || r == 0.0 {
                    self.skip("atan2_near_origin");
                }
                if y - db <= 0.0 && x.abs() <= da {
                    self.skip("atan2_branch_cut");
                }
                let v = x.atan2(y);
                self.mk(v, 2.0 * (a.t + b.t) / r + 4.0 * loc(v))
            }
            B::Min => self.mk(if x < y { x } else { y }, a.t.max(b.t)),
            B::Max => self.mk(if x > y { x } else { y }, a.t.max(b.t)),
            B::Compare => {
                if !exact_in && !((x - y).abs() > da + db) {
                    self.skip("compare_discontinuity");
                }
                let v = if x < y {
                    -1.0
                } else if x > y {
                    1.0
                } else {
                    0.0
                };
                self.mk(v, 0.0)
            }
            B::Mod => {
                // least non-negative remainder
                if y == 0.0 || !(y.abs() > 4.0 * db) {
                    self.skip("mod_near_zero_divisor");
                    return self.mk(0.0, 0.0);
                }
                let m = y.abs();
                let k = (x / m).floor();
                let v = x.rem_euclid(y);
                if !exact_in {
                    let lo = x - k * m;
                    let hi = (k + 1.0) * m - x;
                    if !(lo.min(hi) > da + (k.abs() + 1.0) * db + SLACK * EPS * (x.abs() + m)) {
                        self.skip("mod_discontinuity");
                    }
                }
                self.mk(v, a.t + (k.abs() + 1.0) * b.t + loc(v) + m)
            }
            B::And => {
                // "if lhs == 0 { lhs } else { rhs }"
                if a.t == 0.0 {
                    if x == 0.0 { self.mk(0.0, 0.0) } else { *b }
                } else {
                    if !(x.abs() > da) {
                        self.skip("and_discontinuity");
                    }
                    *b
                }
            }
            B::Or => {
                // "if lhs != 0 { lhs } else { rhs }"
                if a.t == 0.0 {
                    if x != 0.0 { *a } else { *b }
                } else {
                    if !(x.abs() > da) {
                        self.skip("or_discontinuity");
                    }
                    *a
                }
            }
            B::Mix => {
                if !exact_in || !is_f32(x) || !is_f32(y) || x == 0.0 || y == 0.0 {
                    self.skip("mix_of_inexact_argument");
                    return self.mk(0.0, 0.0);
                }
                self.mk(spec_mix(x as f32, y as f32) as f64, 0.0)
            }
        }
    }
    fn affine(&mut self, m: &Mat, p: &[GV; 3]) -> [GV; 3] {
        let mut out = [p[0]; 3];
        for i in 0..3 {
            let mut v = m[i][3] as f64;
            let mut t = 4.0 * (m[i][3] as f64).abs();
            for j in 0..3 {
                let e = m[i][j] as f64;
                v += e * p[j].v;
                t += e.abs() * (p[j].t + 4.0 * p[j].v.abs());
            }
            out[i] = self.mk(v, t + loc(v));
        }
        out
    }
    fn key(v: &GV) -> u64 {
        (if v.v == 0.0 { 0.0f64 } else { v.v }).to_bits()
    }
}

////////////////////////////////////////////////////////////////////////////////
// Substitution evaluator over the spec DAG

struct SpecEval<'a, D: Dom> {
    a: &'a Arena,
    dom: D,
    vars: &'a [f32],
    frames: Vec<[D::V; 3]>,
    memo: HashMap<(u32, u32), D::V>,
    too_deep: bool,
}

impl<'a, D: Dom> SpecEval<'a, D> {
    fn new(a: &'a Arena, mut dom: D, p: [f32; 3], vars: &'a [f32]) -> Self {
        let f0 = [dom.konst(p[0]), dom.konst(p[1]), dom.konst(p[2])];
        SpecEval {
            a,
            dom,
            vars,
            frames: vec![f0],
            memo: HashMap::new(),
            too_deep: false,
        }
    }

    fn eval(&mut self, n: usize, f: u32, depth: u32) -> D::V {
        if let Some(v) = self.memo.get(&(n as u32, f)) {
            return v.clone();
        }
        if depth > MAX_DEPTH {
            self.too_deep = true;
            return self.dom.konst(0.0);
        }
        let v = match self.a.nodes[n].clone() {
            SNode::X => self.frames[f as usize][0].clone(),
            SNode::Y => self.frames[f as usize][1].clone(),
            SNode::Z => self.frames[f as usize][2].clone(),
            SNode::Var(i) => self.dom.konst(self.vars[i]),
            SNode::Const(c) => self.dom.konst(c),
            SNode::Un(op, a) => {
                let a = self.eval(a, f, depth + 1);
                self.dom.un(op, &a)
            }
            SNode::Bin(op, a, b) => {
                let a = self.eval(a, f, depth + 1);
                let b = self.eval(b, f, depth + 1);
                self.dom.bin(op, &a, &b)
            }
            SNode::Xyz { t, x, y, z } => {
                // axis expressions live in the enclosing frame
                let fx = self.eval(x, f, depth + 1);
                let fy = self.eval(y, f, depth + 1);
                let fz = self.eval(z, f, depth + 1);
                self.frames.push([fx, fy, fz]);
                let nf = (self.frames.len() - 1) as u32;
                self.eval(t, nf, depth + 1)
            }
            SNode::Aff { t, m, .. } => {
                // run of consecutive affine remaps starting here (outermost
                // first): certificate only
                let mut mats = vec![m];
                let mut cur = t;
                while let SNode::Aff { t: t2, m: m2, .. } = &self.a.nodes[cur] {
                    mats.push(*m2);
                    cur = *t2;
                }
                let frame = self.frames[f as usize].clone();
                self.dom.chain(&mats, &frame);
                let nf = self.dom.affine(&m, &frame);
                self.frames.push(nf);
                let nf = (self.frames.len() - 1) as u32;
                self.eval(t, nf, depth + 1)
            }
        };
        self.memo.insert((n as u32, f), v.clone());
        v
    }

    /// Does some operation node get evaluated under >= 2 frames that differ
    /// in value at this sample?
    fn shared_under_frames(&self) -> (bool, usize) {
        let mut per: HashMap<u32, HashSet<[u64; 3]>> = HashMap::new();
        for (n, f) in self.memo.keys() {
            if matches!(self.a.nodes[*n as usize], SNode::Un(..) | SNode::Bin(..)) {
                let fr = &self.frames[*f as usize];
                per.entry(*n).or_default().insert([
                    D::key(&fr[0]),
                    D::key(&fr[1]),
                    D::key(&fr[2]),
                ]);
            }
        }
        let mx = per.values().map(|s| s.len()).max().unwrap_or(0);
        (mx >= 2, mx)
    }
}

////////////////////////////////////////////////////////////////////////////////
// Substitution evaluator over the public `TreeOp` enum of the built tree

struct TreeEval<'a, D: Dom> {
    dom: D,
    vars: &'a HashMap<Var, f32>,
    frames: Vec<[D::V; 3]>,
    memo: HashMap<(usize, u32), D::V>,
    too_deep: bool,
    unknown_var: bool,
}

impl<'a, D: Dom> TreeEval<'a, D> {
    fn new(mut dom: D, p: [f32; 3], vars: &'a HashMap<Var, f32>) -> Self {
        let f0 = [dom.konst(p[0]), dom.konst(p[1]), dom.konst(p[2])];
        TreeEval {
            dom,
            vars,
            frames: vec![f0],
            memo: HashMap::new(),
            too_deep: false,
            unknown_var: false,
        }
    }

    fn eval(&mut self, t: &TreeOp, f: u32, depth: u32) -> D::V {
        let key = (t as *const TreeOp as usize, f);
        if let Some(v) = self.memo.get(&key) {
            return v.clone();
        }
        if depth > MAX_DEPTH {
            self.too_deep = true;
            return self.dom.konst(0.0);
        }
        let v = match t {
            TreeOp::Input(Var::X) => self.frames[f as usize][0].clone(),
            TreeOp::Input(Var::Y) => self.frames[f as usize][1].clone(),
            TreeOp::Input(Var::Z) => self.frames[f as usize][2].clone(),
            TreeOp::Input(v) => match self.vars.get(v) {
                Some(c) => self.dom.konst(*c),
                None => {
                    self.unknown_var = true;
                    self.dom.konst(0.0)
                }
            },
            TreeOp::Const(c) => self.dom.konst(*c),
            TreeOp::Unary(op, a) => {
                let a = self.eval(a, f, depth + 1);
                self.dom.un(*op, &a)
            }
            TreeOp::Binary(op, a, b) => {
                let a = self.eval(a, f, depth + 1);
                let b = self.eval(b, f, depth + 1);
                self.dom.bin(*op, &a, &b)
            }
            TreeOp::RemapAxes { target, x, y, z } => {
                let fx = self.eval(x, f, depth + 1);
                let fy = self.eval(y, f, depth + 1);
                let fz = self.eval(z, f, depth + 1);
                self.frames.push([fx, fy, fz]);
                let nf = (self.frames.len() - 1) as u32;
                self.eval(target, nf, depth + 1)
            }
            TreeOp::RemapAffine { target, mat } => {
                let m = affine_to_mat(mat);
                let frame = self.frames[f as usize].clone();
                let nf = self.dom.affine(&m, &frame);
                self.frames.push(nf);
                let nf = (self.frames.len() - 1) as u32;
                self.eval(target, nf, depth + 1)
            }
        };
        self.memo.insert(key, v.clone());
        v
    }
}

////////////////////////////////////////////////////////////////////////////////
// Verdict vocabulary

#[derive(Clone, Debug)]
enum Want {
    /// every f32 operation certified exact: compare with `==`
    Exact(f32),
    Approx { v: f64, tol: f64 },
    Skip(&'static str),
    Harness(&'static str),
}

impl Want {
    fn accepts(&self, got: f32) -> Option<bool> {
        match self {
            Want::Exact(v) => Some(got == *v),
            Want::Approx { v, tol } => {
                Some(got.is_finite() && (got as f64 - v).abs() <= *tol)
            }
            _ => None,
        }
    }
    fn to_json(&self) -> Value {
        match self {
            Want::Exact(v) => json!({"regime": "exact", "value": fbits(*v)}),
            Want::Approx { v, tol } => {
                json!({"regime": "general", "value_f64": v, "tolerance": tol})
            }
            Want::Skip(w) => json!({"skipped": w}),
            Want::Harness(w) => json!({"harness": w}),
        }
    }
}

fn approx_of(d: &General, r: GV) -> Want {
    match d.skip {
        Some(w) => Want::Skip(w),
        None => Want::Approx {
            v: r.v,
            tol: SLACK * EPS * r.t + 1e-44,
        },
    }
}

/// Primary oracle: spec DAG. Returns the verdict plus (was the exact
/// certificate attempted and refused, shared-frame info of this sample)
fn oracle_spec(
    a: &Arena,
    n: usize,
    p: [f32; 3],
    vars: &[f32],
    try_exact: bool,
) -> (Want, bool, (bool, usize)) {
    let mut cert_refused = false;
    if try_exact {
        let mut ev = SpecEval::new(a, Exact { ok: true }, p, vars);
        let r = ev.eval(n, 0, 0);
        if ev.too_deep {
            return (Want::Harness("spec evaluator depth bound"), false, (false, 0));
        }
        if ev.dom.ok {
            let sh = ev.shared_under_frames();
            return (Want::Exact(r.v), false, sh);
        }
        cert_refused = true;
    }
    let mut ev = SpecEval::new(a, General { skip: None }, p, vars);
    let r = ev.eval(n, 0, 0);
    if ev.too_deep {
        return (Want::Harness("spec evaluator depth bound"), false, (false, 0));
    }
    let sh = ev.shared_under_frames();
    (approx_of(&ev.dom, r), cert_refused, sh)
}

/// Secondary oracle: the same semantics over the built tree's `TreeOp`s
fn oracle_tree(
    tree: &Tree,
    p: [f32; 3],
    vars: &HashMap<Var, f32>,
    exact: bool,
) -> Want {
    let t: &TreeOp = tree;
    if exact {
        let mut ev = TreeEval::new(Exact { ok: true }, p, vars);
        let r = ev.eval(t, 0, 0);
        if ev.too_deep || ev.unknown_var {
            return Want::Harness("tree evaluator: depth bound / unknown var");
        }
        if ev.dom.ok {
            return Want::Exact(r.v);
        }
    }
    let mut ev = TreeEval::new(General { skip: None }, p, vars);
    let r = ev.eval(t, 0, 0);
    if ev.too_deep || ev.unknown_var {
        return Want::Harness("tree evaluator: depth bound / unknown var");
    }
    approx_of(&ev.dom, r)
}

/// Do two oracle results describe the same number?
fn wants_agree(a: &Want, b: &Want) -> Option<bool> {
    wants_agree_scaled(a, b, 1.0)
}

/// `scale` < 1 tightens the tolerance (used only to *classify* a violation:
/// two f64 evaluations of the same function differ far less than the f32
/// tolerance; the observed worst case on the unchanged tree is < 0.01)
fn wants_agree_scaled(a: &Want, b: &Want, scale: f64) -> Option<bool> {
    match (a, b) {
        (Want::Exact(x), Want::Exact(y)) => Some(x == y),
        (Want::Exact(x), Want::Approx { v, tol })
        | (Want::Approx { v, tol }, Want::Exact(x)) => {
            Some((*x as f64 - v).abs() <= *tol * scale)
        }
        (Want::Approx { v, tol }, Want::Approx { v: w, tol: tol2 }) => {
            Some((v - w).abs() <= (tol + tol2) * scale)
        }
        _ => None,
    }
}

thread_local! {
    static LONG_CTX: std::cell::RefCell<Option<Context>> = const { std::cell::RefCell::new(None) };
}

/// A context for one case: new, or the thread's long-lived one after
/// `clear()` (handed back when the lease is dropped)
struct CtxLease {
    ctx: Context,
    long: bool,
}

impl CtxLease {
    fn take(long: bool) -> Self {
        if long {
            let mut ctx = LONG_CTX.with(|c| c.borrow_mut().take()).unwrap_or_default();
            ctx.clear();
            CtxLease { ctx, long }
        } else {
            CtxLease { ctx: Context::new(), long }
        }
    }
}

impl Drop for CtxLease {
    fn drop(&mut self) {
        if self.long {
            let ctx = std::mem::take(&mut self.ctx);
            LONG_CTX.with(|c| *c.borrow_mut() = Some(ctx));
        }
    }
}

impl std::ops::Deref for CtxLease {
    type Target = Context;
    fn deref(&self) -> &Context {
        &self.ctx
    }
}

impl std::ops::DerefMut for CtxLease {
    fn deref_mut(&mut self) -> &mut Context {
        &mut self.ctx
    }
}

////////////////////////////////////////////////////////////////////////////////
// Generator

struct Gen<'r> {
    rng: &'r mut Rng,
    a: Arena,
    exact: bool,
    n_vars: usize,
    /// bound on the number of spec nodes
    cap: usize,
    forks: u32,
}

const EXACT_CONSTS: [f32; 14] = [
    0.0, 0.5, -0.5, 1.0, -1.0, 2.0, -2.0, 0.25, -0.25, 1.5, -1.5, 3.0, -3.0,
    0.75,
];
const GENERAL_SPECIAL: [f32; 8] = [
    0.0,
    1.0,
    -1.0,
    0.5,
    2.0,
    std::f32::consts::FRAC_PI_2,
    std::f32::consts::PI,
    0.1,
];
const EXACT_UN: [U; 3] = [U::Neg, U::Abs, U::Square];
const EXACT_BIN: [B; 5] = [B::Add, B::Sub, B::Mul, B::Min, B::Max];
const ALL_UN: [U; 18] = [
    U::Neg,
    U::Abs,
    U::Recip,
    U::Sqrt,
    U::Square,
    U::Floor,
    U::Ceil,
    U::Round,
    U::Sin,
    U::Cos,
    U::Tan,
    U::Asin,
    U::Acos,
    U::Atan,
    U::Exp,
    U::Ln,
    U::Not,
    U::Rand,
];
const ALL_UN_W: [u32; 18] = [6, 6, 2, 3, 5, 1, 1, 1, 5, 5, 1, 1, 1, 3, 2, 1, 1, 1];
const ALL_BIN: [B; 12] = [
    B::Add,
    B::Sub,
    B::Mul,
    B::Div,
    B::Atan,
    B::Min,
    B::Max,
    B::Compare,
    B::Mod,
    B::And,
    B::Or,
    B::Mix,
];
const ALL_BIN_W: [u32; 12] = [10, 10, 8, 2, 2, 7, 7, 1, 1, 1, 1, 1];

fn ident() -> Mat {
    [
        [1.0, 0.0, 0.0, 0.0],
        [0.0, 1.0, 0.0, 0.0],
        [0.0, 0.0, 1.0, 0.0],
    ]
}

impl<'r> Gen<'r> {
    fn konst(&mut self) -> f32 {
        if self.exact {
            *self.rng.pick(&EXACT_CONSTS)
        } else if self.rng.chance(0.3) {
            *self.rng.pick(&GENERAL_SPECIAL)
        } else {
            self.rng.uniform(-3.0, 3.0) as f32
        }
    }

    fn leaf(&mut self) -> usize {
        let w = [20, 20, 20, if self.n_vars > 0 { 18 } else { 0 }, 22];
        let n = match self.rng.weighted(&w) {
            0 => SNode::X,
            1 => SNode::Y,
            2 => SNode::Z,
            3 => SNode::Var(self.rng.below(self.n_vars)),
            _ => SNode::Const(self.konst()),
        };
        self.a.push(n)
    }

    /// An existing node (sharing by `Arc` pointer), biased to operations
    fn reuse(&mut self) -> Option<usize> {
        if self.a.nodes.is_empty() {
            return None;
        }
        for _ in 0..4 {
            let i = self.rng.below(self.a.nodes.len());
            if !matches!(
                self.a.nodes[i],
                SNode::X | SNode::Y | SNode::Z | SNode::Var(_) | SNode::Const(_)
            ) {
                return Some(i);
            }
        }
        Some(self.rng.below(self.a.nodes.len()))
    }

    fn full(&self) -> bool {
        self.a.nodes.len() >= self.cap
    }

    fn un_op(&mut self) -> U {
        if self.exact {
            // squares double the bit budget: keep them rare
            [U::Neg, U::Abs, U::Abs, U::Neg, U::Square][self.rng.below(5)]
        } else {
            ALL_UN[self.rng.weighted(&ALL_UN_W)]
        }
    }

    fn bin_op(&mut self) -> B {
        if self.exact {
            EXACT_BIN[self.rng.weighted(&[10, 10, 3, 8, 8])]
        } else {
            ALL_BIN[self.rng.weighted(&ALL_BIN_W)]
        }
    }

    /// Random expression; `remaps` allows remap nodes inside it
    fn expr(&mut self, depth: u32, remaps: bool) -> usize {
        if depth == 0 || self.full() || self.rng.chance(0.22) {
            if self.rng.chance(0.3)
                && let Some(i) = self.reuse()
            {
                return i;
            }
            return self.leaf();
        }
        if remaps && self.rng.chance(0.16) {
            let t = self.expr(depth - 1, remaps);
            return if self.rng.chance(0.5) {
                self.remap_affine(t)
            } else {
                self.remap_xyz(t, (depth - 1).min(2))
            };
        }
        if self.rng.chance(0.35) {
            let a = self.expr(depth - 1, remaps);
            let op = self.un_op();
            self.a.push(SNode::Un(op, a))
        } else {
            let a = self.expr(depth - 1, remaps);
            let op = self.bin_op();
            // in the exact regime products mostly take a constant factor
            let b = if self.exact && op == B::Mul && self.rng.chance(0.7) {
                let c = *self.rng.pick(&[2.0f32, -1.0, 0.5, -2.0, 3.0, 1.5]);
                self.a.push(SNode::Const(c))
            } else if self.rng.chance(0.12) {
                a // x op x
            } else {
                self.expr(depth - 1, remaps)
            };
            if self.rng.chance(0.5) {
                self.a.push(SNode::Bin(op, a, b))
            } else {
                self.a.push(SNode::Bin(op, b, a))
            }
        }
    }

    fn axis_expr(&mut self, axis: usize, depth: u32) -> usize {
        let r = self.rng.below(100);
        if r < 22 {
            // same axis
            self.a.push([SNode::X, SNode::Y, SNode::Z][axis].clone())
        } else if r < 40 {
            // another axis (permutations, duplicated axes)
            let k = self.rng.below(3);
            self.a.push([SNode::X, SNode::Y, SNode::Z][k].clone())
        } else if r < 48 {
            let c = self.konst();
            self.a.push(SNode::Const(c))
        } else {
            self.expr(depth, true)
        }
    }

    fn remap_xyz(&mut self, t: usize, depth: u32) -> usize {
        let x = self.axis_expr(0, depth);
        let y = self.axis_expr(1, depth);
        let z = self.axis_expr(2, depth);
        self.a.push(SNode::Xyz { t, x, y, z })
    }

    fn remap_affine(&mut self, t: usize) -> usize {
        let (m, kind) = if self.exact {
            self.exact_affine()
        } else {
            self.general_affine()
        };
        self.a.push(SNode::Aff { t, m, kind })
    }

    fn exact_affine(&mut self) -> (Mat, &'static str) {
        let rng = &mut *self.rng;
        let mut m = ident();
        match rng.weighted(&[5, 5, 4, 4, 3]) {
            0 => {
                for row in m.iter_mut() {
                    row[3] = if rng.chance(0.6) {
                        rng.range(-3, 3) as f32
                    } else {
                        rng.range(-6, 6) as f32 * 0.5
                    };
                }
                // through nalgebra's own conversion, as users do
                let a: Affine3<f32> = nalgebra::convert(
                    nalgebra::Translation3::new(m[0][3], m[1][3], m[2][3]),
                );
                (affine_to_mat(&a), "translate")
            }
            1 => {
                // quarter-turn rotations / reflections: signed permutations
                let mut p = [0usize, 1, 2];
                rng.shuffle(&mut p);
                let mut o = [[0f32; 4]; 3];
                for i in 0..3 {
                    o[i][p[i]] = if rng.chance(0.5) { 1.0 } else { -1.0 };
                }
                (o, "rotate90/reflect")
            }
            2 => {
                let mut s: Vec<f32> = (0..3)
                    .map(|_| *rng.pick(&[1.0f32, 1.0, 2.0, 0.5, -1.0, 1.0, 0.0, -2.0]))
                    .collect();
                // extreme powers of two (still exact): a run of such scales
                // collapses into a matrix whose entries are far below
                // f32::EPSILON or far above 1/EPSILON
                if rng.chance(0.3) {
                    let sign = if rng.chance(0.5) { 1 } else { -1 };
                    let uniform = rng.chance(0.5);
                    let e0 = sign * rng.range(8, 30) as i32;
                    for e in s.iter_mut() {
                        let k = if uniform { e0 } else { sign * rng.range(8, 30) as i32 };
                        *e = (2.0f32).powi(k) * if rng.chance(0.2) { -1.0 } else { 1.0 };
                    }
                }
                let a: Affine3<f32> =
                    nalgebra::convert(nalgebra::Scale3::new(s[0], s[1], s[2]));
                (affine_to_mat(&a), "scale")
            }
            3 => {
                let n = 1 + rng.below(2);
                for _ in 0..n {
                    let i = rng.below(3);
                    let j = (i + 1 + rng.below(2)) % 3;
                    m[i][j] = *rng.pick(&[1.0f32, -1.0, 0.5, -0.5, 2.0]);
                }
                (m, "shear")
            }
            _ => {
                // signed permutation * scale + shear entry + translation
                let mut p = [0usize, 1, 2];
                rng.shuffle(&mut p);
                let mut o = [[0f32; 4]; 3];
                for i in 0..3 {
                    o[i][p[i]] = *rng.pick(&[1.0f32, -1.0, 2.0, 0.5, -1.0, 1.0]);
                    o[i][3] = rng.range(-4, 4) as f32 * 0.5;
                }
                if rng.chance(0.5) {
                    let i = rng.below(3);
                    let j = rng.below(3);
                    if o[i][j] == 0.0 {
                        o[i][j] = *rng.pick(&[1.0f32, -1.0, 0.5]);
                    }
                }
                (o, "general")
            }
        }
    }

    fn general_affine(&mut self) -> (Mat, &'static str) {
        let rng = &mut *self.rng;
        let rot = |rng: &mut Rng| -> Affine3<f32> {
            let axis = loop {
                let v = nalgebra::Vector3::new(
                    rng.uniform(-1.0, 1.0) as f32,
                    rng.uniform(-1.0, 1.0) as f32,
                    rng.uniform(-1.0, 1.0) as f32,
                );
                if v.norm() > 0.1 {
                    break nalgebra::Unit::new_normalize(v);
                }
            };
            let angle = if rng.chance(0.25) {
                *rng.pick(&[
                    std::f32::consts::FRAC_PI_2,
                    std::f32::consts::PI,
                    -std::f32::consts::FRAC_PI_4,
                ])
            } else {
                rng.uniform(-3.2, 3.2) as f32
            };
            nalgebra::convert(nalgebra::Rotation3::from_axis_angle(&axis, angle))
        };
        let scale = |rng: &mut Rng| -> Affine3<f32> {
            let mut s = [0f32; 3];
            let extreme = rng.chance(0.12);
            let sign = if rng.chance(0.5) { 1.0 } else { -1.0 };
            for e in s.iter_mut() {
                *e = (2.0f64).powf(if extreme { sign * rng.uniform(8.0, 30.0) } else { rng.uniform(-2.0, 2.0) }) as f32;
                if rng.chance(0.2) {
                    *e = -*e;
                }
                if rng.chance(0.04) {
                    *e = 0.0;
                }
            }
            nalgebra::convert(nalgebra::Scale3::new(s[0], s[1], s[2]))
        };
        let trans = |rng: &mut Rng| -> Affine3<f32> {
            nalgebra::convert(nalgebra::Translation3::new(
                rng.uniform(-3.0, 3.0) as f32,
                rng.uniform(-3.0, 3.0) as f32,
                rng.uniform(-3.0, 3.0) as f32,
            ))
        };
        match rng.weighted(&[5, 6, 5, 4, 4, 2]) {
            0 => (affine_to_mat(&trans(rng)), "translate"),
            1 => (affine_to_mat(&rot(rng)), "rotate"),
            2 => (affine_to_mat(&scale(rng)), "scale"),
            3 => {
                let mut m = ident();
                for _ in 0..1 + rng.below(3) {
                    let i = rng.below(3);
                    let j = (i + 1 + rng.below(2)) % 3;
                    m[i][j] = rng.uniform(-1.5, 1.5) as f32;
                }
                (m, "shear")
            }
            4 => {
                let a = trans(rng) * rot(rng) * scale(rng);
                (affine_to_mat(&a), "general")
            }
            _ => {
                let mut m = ident();
                for row in m.iter_mut() {
                    for e in row.iter_mut() {
                        *e = rng.uniform(-2.0, 2.0) as f32;
                    }
                }
                (m, "general")
            }
        }
    }

    /// The same sub-tree under two different frames, joined by an operation
    fn fork(&mut self, cur: usize) -> usize {
        self.forks += 1;
        // sometimes share a strict sub-tree of `cur` instead of `cur`
        let shared = if self.rng.chance(0.3) {
            let r = self.a.reachable(cur);
            let ops: Vec<usize> = r
                .into_iter()
                .filter(|i| matches!(self.a.nodes[*i], SNode::Un(..) | SNode::Bin(..)))
                .collect();
            if ops.is_empty() { cur } else { *self.rng.pick(&ops) }
        } else {
            cur
        };
        let arm = |g: &mut Self, plain_ok: bool| -> usize {
            match g.rng.below(if plain_ok { 3 } else { 2 }) {
                0 => g.remap_affine(shared),
                1 => g.remap_xyz(shared, 1),
                _ => shared,
            }
        };
        let l = arm(self, false);
        let r = if shared == cur { arm(self, true) } else { cur };
        let op = if self.exact {
            EXACT_BIN[self.rng.weighted(&[10, 10, 1, 8, 8])]
        } else {
            self.bin_op()
        };
        if self.rng.chance(0.5) {
            self.a.push(SNode::Bin(op, l, r))
        } else {
            self.a.push(SNode::Bin(op, r, l))
        }
    }

    fn case(&mut self) -> usize {
        let target_depth = 1 + self.rng.below(if self.exact { 3 } else { 4 }) as u32;
        let mut cur = self.expr(target_depth, true);
        if matches!(
            self.a.nodes[cur],
            SNode::Const(_) | SNode::Var(_)
        ) {
            // a target without axes makes every remap vacuous
            let x = self.leaf();
            cur = self.a.push(SNode::Bin(B::Add, cur, x));
        }
        let len = 1 + self.rng.below(8);
        // plan the kinds; ~half of the cases get a forced affine run
        let mut affine: Vec<bool> = (0..len).map(|_| self.rng.chance(0.55)).collect();
        if len >= 2 && self.rng.chance(0.5) {
            let run = 2 + self.rng.below((len - 1).min(4));
            let start = self.rng.below(len - run.min(len) + 1);
            for k in affine.iter_mut().skip(start).take(run) {
                *k = true;
            }
        }
        let mut fork_budget = [0, 1, 1, 2, 3][self.rng.below(5)];
        for i in 0..len {
            cur = if affine[i] {
                self.remap_affine(cur)
            } else {
                self.remap_xyz(cur, 2)
            };
            let next_affine = affine.get(i + 1).copied().unwrap_or(false);
            // do not break planned affine runs
            if affine[i] && next_affine {
                continue;
            }
            if fork_budget > 0 && self.rng.chance(0.45) && !self.full() {
                fork_budget -= 1;
                cur = self.fork(cur);
            } else if self.rng.chance(0.25) {
                // wrap in an operation so that remaps are not always adjacent
                if self.rng.chance(0.5) {
                    let op = self.un_op();
                    cur = self.a.push(SNode::Un(op, cur));
                } else {
                    let op = self.bin_op();
                    let o = self.expr(1, true);
                    cur = if self.rng.chance(0.5) {
                        self.a.push(SNode::Bin(op, cur, o))
                    } else {
                        self.a.push(SNode::Bin(op, o, cur))
                    };
                }
            }
        }
        cur
    }
}

fn gen_point(rng: &mut Rng, exact: bool, n: usize) -> Vec<f32> {
    (0..n)
        .map(|_| {
            if exact {
                if rng.chance(0.5) {
                    rng.range(-4, 4) as f32
                } else {
                    rng.range(-16, 16) as f32 * 0.25
                }
            } else if rng.chance(0.1) {
                *rng.pick(&[0.0f32, 1.0, -1.0, 0.5, 2.0])
            } else {
                rng.uniform(-3.0, 3.0) as f32
            }
        })
        .collect()
}

////////////////////////////////////////////////////////////////////////////////
// Localisation of a failing case

struct Structure {
    xyz: bool,
    aff: bool,
    chain: bool,
    var: bool,
}

fn structure(a: &Arena, root: usize) -> Structure {
    let mut s = Structure {
        xyz: false,
        aff: false,
        chain: false,
        var: false,
    };
    for i in a.reachable(root) {
        match &a.nodes[i] {
            SNode::Xyz { .. } => s.xyz = true,
            SNode::Aff { t, .. } => {
                s.aff = true;
                if matches!(a.nodes[*t], SNode::Aff { .. }) {
                    s.chain = true;
                }
            }
            SNode::Var(_) => s.var = true,
            _ => {}
        }
    }
    s
}

/// Smallest sub-expression of the case that, imported on its own, still
/// contradicts the spec oracle. Returns (node, stage) where stage tells
/// whether the built `TreeOp` already deviates from the spec ("builder") or
/// only the imported graph does ("import").
fn localise(
    a: &Arena,
    trees: &[Tree],
    root: usize,
    points: &[Vec<f32>],
    exact: bool,
) -> (usize, &'static str, bool) {
    let mut cands: Vec<(usize, usize)> = a
        .reachable(root)
        .into_iter()
        .map(|i| (a.reachable(i).len(), i))
        .collect();
    cands.sort();
    for (_, i) in cands {
        let mut ctx = Context::new();
        let Ok(node) = guarded(|| ctx.import(&trees[i])) else {
            continue;
        };
        for p in points {
            let xyz = [p[0], p[1], p[2]];
            let (want, _, sh) = oracle_spec(a, i, xyz, &p[3..], exact);
            let vm = var_map(a, p);
            let Ok(Ok(got)) = guarded(|| ctx.eval(node, &vm)) else {
                continue;
            };
            if want.accepts(got) == Some(false) {
                // classify over all points: does the stored TreeOp already
                // deviate from the recorded calls, and does the import follow
                // the stored TreeOp?
                let mut tree_deviates = false;
                let mut tree_agrees = false;
                let mut import_follows_tree = true;
                for q in points {
                    let qx = [q[0], q[1], q[2]];
                    let qm = var_map(a, q);
                    let (w, _, _) = oracle_spec(a, i, qx, &q[3..], exact);
                    let tw = oracle_tree(&trees[i], qx, &qm, exact);
                    match wants_agree_scaled(&w, &tw, 0.05) {
                        Some(false) => tree_deviates = true,
                        Some(true) => tree_agrees = true,
                        None => {}
                    }
                    if let Ok(Ok(g)) = guarded(|| ctx.eval(node, &qm))
                        && tw.accepts(g) == Some(false)
                    {
                        import_follows_tree = false;
                    }
                }
                // "import" needs the stored tree to be judged, and to agree
                // with the recorded calls, at the failing point itself
                let tree_agrees = tree_agrees
                    && wants_agree_scaled(
                        &want,
                        &oracle_tree(&trees[i], xyz, &vm, exact),
                        0.05,
                    ) == Some(true);
                let stage = match (tree_deviates, tree_agrees, import_follows_tree) {
                    (true, _, true) => "builder",
                    (true, _, false) => "builder+import",
                    (false, true, _) => "import",
                    _ => "unclassified",
                };
                return (i, stage, sh.0);
            }
        }
    }
    (root, "whole-case-only", false)
}

fn var_map(a: &Arena, p: &[f32]) -> HashMap<Var, f32> {
    let mut vm = HashMap::new();
    vm.insert(Var::X, p[0]);
    vm.insert(Var::Y, p[1]);
    vm.insert(Var::Z, p[2]);
    for (i, v) in a.vars.iter().enumerate() {
        vm.insert(*v, p[3 + i]);
    }
    vm
}

////////////////////////////////////////////////////////////////////////////////

impl Prop for C13 {
    fn id(&self) -> &'static str {
        "C13"
    }
    fn mode(&self) -> Mode {
        Mode::Threads
    }
    fn n_cases(&self, tier: Tier) -> u64 {
        tier.pick(300_000, 6_000_000)
    }
    fn time_cap_s(&self, tier: Tier) -> u64 {
        tier.pick(90, 840)
    }

    fn run_case(&self, case: u64, rng: &mut Rng, st: &mut Stats, _tier: Tier) {
        let exact = rng.chance(0.62);
        let n_vars = [0, 0, 1, 1, 2, 3][rng.below(6)];
        // `Var::new()` is random in fidget: variables are referred to by
        // creation index everywhere below
        let vars: Vec<Var> = (0..n_vars).map(|_| Var::new()).collect();
        let mut g = Gen {
            rng: &mut *rng,
            a: Arena {
                nodes: vec![],
                vars,
            },
            exact,
            n_vars,
            cap: 160,
            forks: 0,
        };
        let root = g.case();
        let forks = g.forks;
        let a = g.a;
        let points: Vec<Vec<f32>> = (0..N_POINTS)
            .map(|_| gen_point(rng, exact, 3 + n_vars))
            .collect();
        let keep_handles = rng.chance(0.5);

        // structure counters (measured on the spec, i.e. on the calls made)
        let reach = a.reachable(root);
        let mut max_chain = 0;
        let mut n_xyz = 0;
        let mut n_aff = 0;
        let mut uses_var = false;
        let mut nested_in_axis = false;
        for &i in &reach {
            match &a.nodes[i] {
                SNode::Aff { kind, .. } => {
                    n_aff += 1;
                    max_chain = max_chain.max(a.chain_len(i));
                    st.set_insert("affine_kinds", kind);
                }
                SNode::Xyz { x, y, z, .. } => {
                    n_xyz += 1;
                    for ax in [x, y, z] {
                        if a.reachable(*ax).iter().any(|k| {
                            matches!(a.nodes[*k], SNode::Xyz { .. } | SNode::Aff { .. })
                        }) {
                            nested_in_axis = true;
                        }
                    }
                }
                SNode::Var(_) => uses_var = true,
                SNode::Un(op, _) => st.set_insert("opcodes", un_name(*op)),
                SNode::Bin(op, _, _) => st.set_insert("opcodes", bin_name(*op)),
                _ => {}
            }
        }
        st.inc("cases");
        st.inc(if exact { "cases_exact_regime" } else { "cases_general_regime" });
        if max_chain >= 2 {
            st.inc("cases_with_consecutive_affine_remaps");
        }
        st.max("max_affine_run", max_chain as f64);
        st.max("max_spec_nodes", reach.len() as f64);
        if n_xyz > 0 && n_aff > 0 {
            st.inc("cases_mixing_xyz_and_affine");
        }
        if nested_in_axis {
            st.inc("cases_with_remap_inside_axis_expression");
        }
        if uses_var {
            st.inc("cases_with_free_var");
        }
        if forks > 0 {
            st.inc("cases_with_fork");
        }
        st.add("remap_calls", (n_xyz + n_aff) as u64);
        st.distinct(a.hash(root));

        // build through the builder API, then import
        let mut trees = a.build_trees();
        let tree = trees[root].clone();
        if !keep_handles {
            // without extra handles `Arc::strong_count` reflects real sharing
            trees.clear();
            st.inc("cases_imported_without_extra_handles");
        }
        // the builder must have flattened consecutive affine remaps
        if max_chain >= 2 {
            st.inc("builder_flatten_observed_cases");
        }
        // three cases in ten import into a context that lives for the whole
        // run of the worker thread and is cleared between cases (node
        // handles restart after a clear; the same matrices and frames recur)
        let mut ctx = CtxLease::take(rng.chance(0.3));
        if ctx.long {
            st.inc("cases_imported_into_a_cleared_long_lived_context");
        }
        let node = match guarded(|| ctx.import(&tree)) {
            Ok(n) => n,
            Err(pi) => {
                if pi.in_repo() {
                    st.violation(
                        case,
                        format!("panic:{}:{}", pi.site(), pi.msg_class()),
                        format!("Context::import panicked: {}", pi.msg),
                        json!({"spec": a.listing(root), "root": root, "panic": pi.msg}),
                    );
                } else {
                    st.inconclusive.push(format!(
                        "case {case}: panic outside fidget during import: {}:{} {}",
                        pi.file, pi.line, pi.msg
                    ));
                }
                return;
            }
        };

        let mut all_certified = exact;
        let mut shared_case = false;
        let mut shared_max = 0usize;
        let mut reported = false;
        let mut judged = 0;
        for (pi_, p) in points.iter().enumerate() {
            let xyz = [p[0], p[1], p[2]];
            let vm = var_map(&a, p);
            let (want, cert_refused, sh) = oracle_spec(&a, root, xyz, &p[3..], exact);
            shared_case |= sh.0;
            shared_max = shared_max.max(sh.1);
            if cert_refused {
                st.inc("samples_exact_certificate_refused_judged_with_tolerance");
            }
            match &want {
                Want::Exact(_) => st.inc("samples_judged_exact"),
                Want::Approx { .. } => {
                    all_certified = false;
                    st.inc("samples_judged_tolerance")
                }
                Want::Skip(w) => {
                    all_certified = false;
                    st.inc("samples_skipped");
                    st.inc(&format!("skip_{w}"));
                    continue;
                }
                Want::Harness(w) => {
                    st.inconclusive.push(format!("case {case}: {w}"));
                    return;
                }
            }
            judged += 1;
            let got = match guarded(|| ctx.eval(node, &vm)) {
                Ok(Ok(v)) => v,
                Ok(Err(e)) => {
                    st.violation(
                        case,
                        "eval_error",
                        format!("Context::eval of the imported tree failed: {e}"),
                        json!({"spec": a.listing(root), "root": root}),
                    );
                    return;
                }
                Err(pi) => {
                    if pi.in_repo() {
                        st.violation(
                            case,
                            format!("panic:{}:{}", pi.site(), pi.msg_class()),
                            format!("Context::eval panicked: {}", pi.msg),
                            json!({"spec": a.listing(root), "root": root}),
                        );
                    } else {
                        st.inconclusive.push(format!(
                            "case {case}: panic outside fidget during eval: {}",
                            pi.msg
                        ));
                    }
                    return;
                }
            };
            // secondary oracle over the public TreeOp enum
            let tw = oracle_tree(&tree, xyz, &vm, exact);
            let ok = want.accepts(got).unwrap();
            if let Want::Approx { v, tol } = &want
                && ok
            {
                // head-room of the tolerance actually used (1.0 = at the limit)
                st.max("max_observed_error_over_tolerance", (got as f64 - v).abs() / tol);
            }
            if ok {
                match wants_agree(&want, &tw) {
                    Some(true) => st.inc("samples_tree_oracle_agrees"),
                    Some(false) => {
                        st.inc("samples_tree_oracle_disagrees_but_import_ok");
                        st.inconclusive.push(format!(
                            "case {case}: TreeOp evaluator and spec evaluator \
                             disagree although the import matches the spec"
                        ));
                    }
                    None => st.inc("samples_tree_oracle_skipped"),
                }
                if pi_ == 0 {
                    st.sample(|| {
                        json!({"spec": a.listing(root), "root": format!("n{root}"),
                               "point_xyz_then_vars": p.iter().map(|v| format!("{v:?}")).collect::<Vec<_>>(),
                               "expected": want.to_json(), "observed": format!("{got:?}")})
                    });
                }
                continue;
            }
            if reported {
                continue;
            }
            reported = true;
            // localise: smallest failing sub-expression
            let all_trees;
            let trees_ref: &[Tree] = if trees.is_empty() {
                all_trees = a.build_trees();
                &all_trees
            } else {
                &trees
            };
            let (m, stage, m_shared) = localise(&a, trees_ref, root, &points, exact);
            let s = structure(&a, m);
            let root_kind = match &a.nodes[m] {
                SNode::Aff { .. } => {
                    if a.chain_len(m) >= 2 {
                        "affine_run"
                    } else {
                        "affine"
                    }
                }
                SNode::Xyz { .. } => "xyz",
                _ => "op",
            };
            let mut has = vec![];
            if s.xyz {
                has.push("xyz");
            }
            if s.aff {
                has.push("affine");
            }
            if s.chain {
                has.push("affine_run");
            }
            if s.var {
                has.push("var");
            }
            // narrow class: where the deviation enters (builder / import), the
            // kind of the smallest failing sub-expression's root, and whether
            // that sub-expression evaluates one sub-tree under several frames
            let sig = format!(
                "mismatch:{stage}:root={root_kind}{}",
                if m_shared { ":shared" } else { "" }
            );
            st.violation(
                case,
                sig,
                format!(
                    "imported remapped tree evaluates to {got:?}, substitution semantics give {} ({stage})",
                    match &want {
                        Want::Exact(v) => format!("{v:?} exactly"),
                        Want::Approx { v, tol } => format!("{v:?} +- {tol:e}"),
                        _ => String::new(),
                    }
                ),
                json!({
                    "regime": if exact { "exact" } else { "general" },
                    "spec": a.listing(root), "root": format!("n{root}"),
                    "n_free_vars": n_vars,
                    "point_xyz_then_vars": p.iter().map(|v| fbits(*v)).collect::<Vec<_>>(),
                    "observed": fbits(got),
                    "expected_from_spec": want.to_json(),
                    "expected_from_TreeOp_evaluator": tw.to_json(),
                    "stage": stage,
                    "smallest_failing_subexpression": {
                        "root": format!("n{m}"), "spec": a.listing(m),
                        "contains": has, "one_subtree_under_several_frames": m_shared},
                    "extra_tree_handles_alive_during_import": keep_handles,
                }),
            );
        }
        if judged > 0 {
            st.inc("cases_judged");
            if all_certified {
                st.inc("cases_exact_all_samples_certified");
            }
            if shared_case {
                st.inc("cases_with_subtree_under_2plus_frames");
            }
            st.max("max_frames_of_one_subtree", shared_max as f64);
        } else {
            st.inc("cases_without_judged_sample");
        }
    }

    fn finish(&self, st: &mut Stats, _tier: Tier) {
        let n = st.get("cases").max(1);
        let pct = |k: &str, st: &Stats| st.get(k) * 100 / n;
        let floors = [
            ("cases_with_consecutive_affine_remaps", 30),
            ("cases_with_subtree_under_2plus_frames", 30),
            ("cases_exact_all_samples_certified", 50),
            ("cases_with_free_var", 20),
            ("cases_mixing_xyz_and_affine", 20),
            ("cases_with_remap_inside_axis_expression", 10),
        ];
        for (k, f) in floors {
            let p = pct(k, st);
            st.add(&format!("pct_{k}"), p);
            if p < f {
                st.inconclusive
                    .push(format!("{k}: {p}% of cases (floor {f}%)"));
            }
        }
        if st.get("cases") < 2000 {
            st.inconclusive
                .push(format!("only {} cases run", st.get("cases")));
        }
        let gen_total = st.get("samples_judged_tolerance") + st.get("samples_skipped");
        if gen_total > 0
            && st.get("samples_judged_tolerance") * 100 / gen_total < 30
        {
            st.inconclusive.push(format!(
                "only {} of {} general-regime samples judged",
                st.get("samples_judged_tolerance"),
                gen_total
            ));
        }
        if st.set_len("opcodes") < 30 {
            st.inconclusive.push(format!(
                "only {} of 30 opcodes appeared in targets",
                st.set_len("opcodes")
            ));
        }
    }

    fn rule(&self) -> String {
        format!(
            "each case = one random target tree (free Var::new() variables, sub-trees shared by Arc under several frames) wrapped in 1..8 remap_xyz / remap_affine calls (plus remaps nested inside targets and axis expressions), built only through the Tree builder API, imported with Context::import and evaluated with Context::eval at {N_POINTS} points; compared with substitution semantics evaluated on the recorded builder calls (and on the public TreeOp enum): exact regime `==` under an exactness certificate, general regime |diff| <= 64*eps_f32*T; distinct = structural hash of the recorded calls"
        )
    }

    fn assumptions(&self) -> Vec<String> {
        vec![
            "Context::eval on the imported node is the 'evaluates at a point' of the statement".into(),
            "only trees made by the builder API are judged (hand-built RemapAffine{RemapAffine} nests are outside C13)".into(),
            "general regime: samples whose f64 reference passes within 64*eps*T of a discontinuity / domain edge, or has a non-finite or >1e30 intermediate, are not judged (counted as skipped)".into(),
            "rand/mix are judged only when their arguments are known bit-for-bit (no rounding upstream, non-zero)".into(),
        ]
    }
}
