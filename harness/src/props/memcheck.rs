//! valgrind memcheck stage: re-runs a reduced workload of a property in one
//! process under memcheck (guard allocator off, so that memcheck's own heap
//! red zones and definedness tracking apply). `--smc-check=all-non-file`
//! makes valgrind re-translate the JIT's freshly written code.
use crate::util::{Stats, Tier};
use crate::verif_dir;
use std::process::Command;

pub fn run_memcheck_stage(sub_prop: &str, st: &mut Stats, tier: Tier, seed: u64) {
    if std::env::var("FV_NO_MEMCHECK").is_ok() {
        return;
    }
    // valgrind 3.19 itself can die ("VALGRIND INTERNAL ERROR ... the
    // 'impossible' happened", SIGSEGV while decoding) when generated code
    // ends within a few bytes of the end of its mapping: its decoder reads
    // ahead into the unmapped page (about one program in a hundred). That
    // is a failure of the tool, not an observation about the code under
    // test. The workload is therefore split into short independent valgrind
    // processes (run in parallel); what a process reported before it died is
    // kept, the rest of that shard is lost and counted, and the stage is
    // inconclusive only if fewer than half of the shards ran to the end.
    let total = crate::props::lookup(sub_prop).map(|p| p.n_cases(tier)).unwrap_or(8).max(1);
    let shards = tier.pick(4u64, 12u64).min(total);
    let per = total.div_ceil(shards);
    let results: Vec<(Stats, bool)> = std::thread::scope(|sc| {
        let hs: Vec<_> = (0..shards)
            .map(|k| {
                sc.spawn(move || {
                    let mut cur = Stats::default();
                    let died = attempt_once(sub_prop, k, &mut cur, tier, seed.wrapping_add(k * 7919), per);
                    (cur, died)
                })
            })
            .collect();
        hs.into_iter().map(|h| h.join().unwrap_or((Stats::default(), true))).collect()
    });
    let mut survived = 0;
    for (mut cur, died) in results {
        if died {
            cur.inconclusive.clear();
            st.inc("memcheck_shards_lost(valgrind_internal_error)");
        } else {
            survived += 1;
        }
        st.merge(cur);
    }
    st.add("memcheck_shards", shards);
    if survived * 2 < shards {
        st.inconclusive.push(format!("valgrind died with an internal error in {} of {shards} memcheck shards", shards - survived));
    }
}

/// One memcheck run; returns true when valgrind itself died
fn attempt_once(sub_prop: &str, shard: u64, st: &mut Stats, tier: Tier, seed: u64, cases: u64) -> bool {
    let root = verif_dir();
    let exe = format!("{root}/harness/target/release/fv");
    let out_root = format!("{root}/harness/target/memcheck-{sub_prop}-{shard}");
    let _ = std::fs::remove_dir_all(&out_root);
    let _ = std::fs::create_dir_all(&out_root);
    let _ = std::fs::copy(format!("{root}/known_findings.json"), format!("{out_root}/known_findings.json"));
    let log = format!("{out_root}/memcheck.log");
    let t0 = std::time::Instant::now();
    let run = Command::new("valgrind")
        .args(["--smc-check=all-non-file", "-q", "--error-exitcode=9", "--num-callers=20", "--errors-for-leak-kinds=none", "--leak-check=no"])
        .arg(format!("--log-file={log}"))
        .arg(&exe)
        .args([sub_prop, tier.name(), "--seed", &format!("{}", seed as i64), "--cases", &format!("{cases}")])
        .env("FV_ROOT", &out_root)
        .env("FV_NO_GUARD", "1")
        .env("FV_INPROCESS", "1")
        .env("FV_NO_TSAN", "1")
        .env("FV_NO_MEMCHECK", "1")
        .output();
    st.add("memcheck_seconds", t0.elapsed().as_secs());
    let Ok(run) = run else {
        st.inconclusive.push("could not start valgrind".into());
        return false;
    };
    let stdout = String::from_utf8_lossy(&run.stdout).to_string();
    for line in stdout.lines() {
        if let Some((k, v)) = line.trim().split_once(" = ") {
            if let (true, Ok(v)) = (k.trim() == "cases_run" || k.contains("bulk_calls") || k.contains("steps_"), v.trim().parse::<u64>()) {
                st.add(&format!("memcheck_{}", k.trim()), v);
            }
        }
    }
    for line in stdout.lines().filter(|l| l.starts_with("VIOLATION")) {
        let sig = line.rsplit('[').next().unwrap_or("").trim_end_matches(']').to_string();
        st.violation(0, format!("memcheck_run:{sig}"), format!("under valgrind: {line}"), serde_json::json!(null));
    }
    let text = std::fs::read_to_string(&log).unwrap_or_default();
    let tool_died = text.contains("VALGRIND INTERNAL ERROR") || text.contains("the 'impossible' happened");
    // error blocks start with "==pid== <Kind>" lines that are not indented
    let mut seen = std::collections::BTreeSet::new();
    let mut errors = 0u64;
    let mut cur: Vec<String> = vec![];
    let flush = |cur: &mut Vec<String>, st: &mut Stats, seen: &mut std::collections::BTreeSet<String>, errors: &mut u64| {
        if cur.is_empty() {
            return;
        }
        let head = cur[0].clone();
        if head.contains("Invalid") || head.contains("uninitialised") || head.contains("Uninitialised") || head.contains("Mismatched") || head.contains("overlap") {
            *errors += 1;
            let frame = cur
                .iter()
                .skip(1)
                .filter(|l| l.contains("fidget") && !l.contains("/harness/src/"))
                .map(|l| l.split(": ").nth(1).unwrap_or(l).split(" (").next().unwrap_or("").trim().to_string())
                .next()
                .unwrap_or_else(|| "jit-or-unknown-frame".to_string());
            let kind = head.split_whitespace().take(3).collect::<Vec<_>>().join("_");
            let sig = format!("memcheck:{kind}:{frame}");
            if seen.insert(sig.clone()) {
                st.violation(0, sig, format!("valgrind memcheck: {head} (first fidget frame: {frame})"), serde_json::json!({"report": cur.iter().take(24).collect::<Vec<_>>()}));
            }
        }
        cur.clear();
    };
    for line in text.lines() {
        let body = line.splitn(2, "== ").nth(1).unwrap_or("").to_string();
        if body.trim().is_empty() {
            flush(&mut cur, st, &mut seen, &mut errors);
        } else {
            cur.push(body);
        }
    }
    flush(&mut cur, st, &mut seen, &mut errors);
    st.add("memcheck_error_blocks", errors);
    if st.get("memcheck_cases_run") == 0 {
        st.inconclusive.push(format!("memcheck run executed no case (exit {:?})", run.status.code()));
    }
    st.inc("memcheck_stage_ran");
    tool_died
}
