//! C06 - 2D rendering equals per-pixel evaluation of the shape.
//! Oracle: `Context::eval` at the pixel's sample position (`cfg.mat()`
//! embedded with z preserved, applied with nalgebra's transform_point).
use crate::gen_::prog::{self, Bin, Consts, GenCfg, Prog, Un};
use crate::gen_::shape::{self, ShapeCfg};
use crate::props::renderutil::*;
use crate::util::{Rng, Stats, Tier, guarded, same_val};
use crate::Prop;
use fidget_core::context::{Context, Node};
use fidget_core::eval::{Function, MathFunction};
use fidget_core::render::{CancelToken, ImageSize, RenderHints};
use fidget_core::shape::{Shape, ShapeVars};
use fidget_core::var::Var;
use fidget_core::vm::VmFunction;
use fidget_jit::JitFunction;
use fidget_raster::pixel::{DistancePixel, EvalConfig, RenderConfig, render};
use nalgebra::{Matrix3, Matrix4, Point3};
use serde_json::{Value, json};
use std::collections::HashMap;

pub struct C06;

struct Scene<'a> {
    ctx: &'a Context,
    root: Node,
    vars: Vec<(Var, f32)>,
    desc: Value,
}

struct Setup {
    w: u32,
    h: u32,
    tiles: Vec<usize>,
    mat: Matrix3<f32>,
    z: f32,
    pixel_perfect: bool,
    jit: bool,
    /// interpreter with a 4-register budget instead of 255 (when not JIT)
    small_vm: bool,
    pool: Option<usize>,
}

fn run_render<F: Function + MathFunction + RenderHints>(
    sc: &Scene,
    st: &Setup,
) -> Result<Option<fidget_raster::pixel::Image>, String> {
    let shape = Shape::<F>::new(sc.ctx, sc.root).map_err(|_| "bad node".to_string())?;
    let mut sv: ShapeVars<f32> = ShapeVars::new();
    for (v, x) in &sc.vars {
        if let Var::V(i) = v {
            sv.insert(*i, *x);
        }
    }
    let bound = shape.bind(&sv).map_err(|e| e.to_string())?;
    let cfg = RenderConfig {
        image_size: ImageSize::new(st.w, st.h),
        world_to_model: st.mat,
        pixel_perfect: st.pixel_perfect,
        z: st.z,
    };
    let ec = EvalConfig {
        tile_sizes: Some(fidget_core::render::TileSizes::new(&st.tiles).unwrap()),
        threads: st.pool.map(pool),
        cancel: CancelToken::new(),
    };
    Ok(render(bound, &cfg, &ec))
}

pub fn random_mat3(rng: &mut Rng) -> Matrix3<f32> {
    if rng.chance(0.2) {
        return Matrix3::identity();
    }
    let a = rng.uniform(0.0, std::f64::consts::TAU) as f32;
    let (mut s, mut c) = a.sin_cos();
    // structured matrices: exact quarter turns (zeros in the linear part),
    // no translation, a mirrored axis
    if rng.chance(0.2) {
        (s, c) = *rng.pick(&[(0.0f32, 1.0f32), (1.0, 0.0), (0.0, -1.0), (-1.0, 0.0)]);
    }
    let mut sx = rng.uniform(0.5, 2.0) as f32;
    if rng.chance(0.15) {
        sx = -sx;
    }
    let sy = if rng.chance(0.5) { sx } else { rng.uniform(0.5, 2.0) as f32 };
    let shear = if rng.chance(0.3) { rng.uniform(-0.5, 0.5) as f32 } else { 0.0 };
    let (tx, ty) = if rng.chance(0.2) { (0.0, 0.0) } else { (rng.uniform(-0.5, 0.5) as f32, rng.uniform(-0.5, 0.5) as f32) };
    // bottom row: usually (0,0,1); sometimes a homogeneous scale w != 1 or a
    // mildly projective row
    let (p0, p1, w) = match rng.below(6) {
        0 => (0.0, 0.0, *rng.pick(&[0.5f32, 0.75, 2.0])),
        1 => (rng.uniform(-0.05, 0.05) as f32, rng.uniform(-0.05, 0.05) as f32, rng.uniform(0.8, 1.2) as f32),
        _ => (0.0, 0.0, 1.0),
    };
    Matrix3::new(c * sx, -s * sy + shear, tx, s * sx, c * sy, ty, p0, p1, w)
}

fn check_scene(sc: &Scene, su: &Setup, rng: &mut Rng, st: &mut Stats) -> Option<(String, String, Value)> {
    let setup_json = json!({"width": su.w, "height": su.h, "tile_sizes": su.tiles, "world_to_model": format!("{:?}", su.mat),
        "z": su.z, "pixel_perfect": su.pixel_perfect, "backend": if su.jit { "jit" } else if su.small_vm { "vm4" } else { "vm" }, "threads": su.pool.map(|i| POOL_SIZES[i % POOL_SIZES.len()]),
        "free_var_values_bits": sc.vars.iter().map(|(_, v)| v.to_bits()).collect::<Vec<_>>()});
    let r = guarded(|| {
        if su.jit {
            run_render::<JitFunction>(sc, su)
        } else if su.small_vm {
            run_render::<fidget_core::vm::GenericVmFunction<4>>(sc, su)
        } else {
            run_render::<VmFunction>(sc, su)
        }
    });
    let img = match r {
        Ok(Ok(Some(i))) => i,
        Ok(Ok(None)) => return Some(("none_without_cancel".into(), "render returned None although the token was never cancelled".into(), setup_json)),
        Ok(Err(e)) => return Some(("render_error".into(), e, setup_json)),
        Err(pi) => return Some((format!("panic:{}:{}", pi.site(), pi.msg_class()), format!("2D render panicked at {}: {}", pi.site(), pi.msg), setup_json)),
    };
    if img.width() != su.w as usize || img.height() != su.h as usize || img.len() != (su.w * su.h) as usize {
        return Some(("image_shape".into(), "image has the wrong size".into(), setup_json));
    }
    st.inc("renders");
    st.inc(&format!("tile_list_len_{}", su.tiles.len()));
    // the documented pixel -> model map
    let cfg = RenderConfig { image_size: ImageSize::new(su.w, su.h), world_to_model: su.mat, pixel_perfect: su.pixel_perfect, z: su.z };
    let m3 = cfg.mat();
    // (bit-exact sample positions come from the renderer's own matrix: it
    // must be the documented map)
    {
        let rows = |a: &nalgebra::Matrix3<f32>| (0..3).map(|r| (0..3).map(|c| a[(r, c)] as f64).collect::<Vec<_>>()).collect::<Vec<_>>();
        if let Some(msg) = check_documented_mat(&[su.w, su.h], &rows(&su.mat), &rows(&m3)) {
            return Some(("sample_position:screen_to_model_matrix".into(), msg, setup_json));
        }
    }
    let m4: Matrix4<f32> = {
        let t = m3.insert_row(2, 0.0);
        let mut t = t.insert_column(2, 0.0);
        t[(2, 2)] = 1.0;
        t
    };
    // scale of the model space seen through this view (see C07)
    let model_scale = {
        let s = (0..2).map(|c| su.mat[(0, c)].abs()).fold(0f32, f32::max) / su.mat[(2, 2)].abs();
        if s > 64.0 || s < 1.0 / 64.0 { (2.0f32).powi(s.log2().round() as i32) } else { 1.0 }
    };
    if model_scale != 1.0 {
        st.inc("renders_at_extreme_scale");
    }
    let n_px = (su.w * su.h) as usize;
    let budget = 700usize;
    let mut fill_depths = std::collections::BTreeSet::new();
    let mut any_value = false;
    for p in img.iter() {
        match p.unpack() {
            DistancePixel::Fill { depth, .. } => {
                fill_depths.insert(depth);
            }
            DistancePixel::Value(_) => any_value = true,
        }
    }
    if fill_depths.len() >= 2 {
        st.inc("renders_with_fills_at_2plus_depths");
    }
    if !fill_depths.is_empty() && any_value {
        st.inc("renders_with_fill_and_evaluated_pixels");
    }
    let mut vars: HashMap<Var, f32> = sc.vars.iter().cloned().collect();
    for k in 0..n_px.min(budget) {
        let idx = if n_px <= budget { k } else { rng.below(n_px) };
        let (i, j) = (idx % su.w as usize, idx / su.w as usize);
        let p = m4.transform_point(&Point3::new(i as f32, j as f32, su.z));
        vars.insert(Var::X, p.x);
        vars.insert(Var::Y, p.y);
        vars.insert(Var::Z, p.z);
        let v_ref = match sc.ctx.eval(sc.root, &vars) {
            Ok(v) => v,
            Err(_) => continue,
        };
        let px = img[(j, i)];
        st.inc("pixels_judged");
        if su.pixel_perfect {
            match px.unpack() {
                DistancePixel::Value(v) => {
                    if v_ref.is_nan() {
                        // C03 excludes NaN point values from what interval
                        // evidence guarantees, so a tile simplified on such
                        // evidence may carry the value of the other branch
                        // there (the fill mode skips these pixels as well)
                        st.inc("pixel_perfect_pixels_with_nan_reference_not_judged");
                        continue;
                    }
                    if !same_val(v, v_ref) {
                        return Some(("pixel_perfect_value".into(),
                            format!("pixel-perfect pixel ({i},{j}) carries {v:?}, the shape evaluates to {v_ref:?} at its sample position"),
                            json!({"setup": setup_json, "pixel": [i, j], "position": [p.x, p.y, p.z]})));
                    }
                }
                DistancePixel::Fill { .. } => {
                    return Some(("pixel_perfect_fill".into(), format!("pixel-perfect render produced a fill pixel at ({i},{j})"), json!({"setup": setup_json})));
                }
            }
        } else {
            let band = 1e-5 * (p.x.abs().max(p.y.abs()).max(p.z.abs()) / model_scale).max(1.0);
            if v_ref.is_nan() || v_ref.abs() <= band {
                st.inc("pixels_in_zero_band_or_nan");
                continue;
            }
            let inside = px.inside();
            if inside != (v_ref < 0.0) {
                let how = match px.unpack() {
                    DistancePixel::Fill { depth, .. } => format!("fill_depth{depth}"),
                    DistancePixel::Value(_) => "value".to_string(),
                };
                return Some((format!("inside:{}", if how.starts_with("fill") { "fill" } else { "value" }),
                    format!("pixel ({i},{j}) is reported {} but the shape evaluates to {v_ref:?} at its sample position ({how})", if inside { "inside" } else { "outside" }),
                    json!({"setup": setup_json, "pixel": [i, j], "position": [p.x, p.y, p.z], "pixel_kind": how})));
            }
        }
    }
    None
}

fn check_prog(p: &Prog, model: Option<usize>, seed: u64, tier: Tier, st: &mut Stats, pressure: bool, view_scale: f32) -> Option<(String, String, Value)> {
    let mut rng = Rng::new(seed);
    let rng = &mut rng;
    let built;
    let sc = if let Some(m) = model {
        let m = &models()[m];
        Scene { ctx: &m.ctx, root: m.root, vars: vec![], desc: json!({"model": m.name}) }
    } else {
        built = p.build();
        let root = built_root(p, &built);
        let vars: Vec<(Var, f32)> = built.vars.iter().enumerate().skip(3).map(|(_, v)| (*v, rng.uniform(-0.1, 0.1) as f32)).collect();
        Scene { ctx: &built.ctx, root, vars, desc: p.to_json() }
    };
    let max_side = if model.map(|m| models()[m].ctx.len() > 300).unwrap_or(false) { 20 } else { tier.pick(96, 128) };
    let w = 1 + rng.below(max_side) as u32;
    let h = if rng.chance(0.3) { w } else { 1 + rng.below(max_side) as u32 };
    let (_, mut tiles) = random_tile_sizes(rng, 4, 128);
    let (mut w, mut h) = (w, h);
    if pressure {
        // many small tiles, so that one worker sees many different traces
        w = w.max(40);
        h = h.max(40);
        tiles = rng.pick(&[vec![8usize, 4], vec![16, 4], vec![8], vec![4], vec![16, 8, 4], vec![12, 4], vec![32, 8], vec![64, 8], vec![64, 16, 4]]).clone();
    }
    let su = Setup {
        w,
        h,
        tiles,
        mat: {
            // (a scene rescaled by `view_scale` is looked at through a view
            // scaled to match)
            let mut m = random_mat3(rng);
            for r in 0..2 {
                for c in 0..3 {
                    m[(r, c)] *= view_scale;
                }
            }
            m
        },
        z: if rng.chance(0.5) { 0.0 } else { rng.uniform(-0.5, 0.5) as f32 * view_scale },
        pixel_perfect: rng.chance(0.35),
        jit: rng.chance(if pressure { 0.6 } else { 0.5 }),
        small_vm: rng.chance(if pressure { 0.7 } else { 0.15 }),
        pool: if rng.chance(if pressure { 0.7 } else { 0.5 }) { None } else { Some(rng.below(POOL_SIZES.len())) },
    };
    let _ = &sc.desc;
    check_scene(&sc, &su, rng, st)
}

/// High register pressure with per-tile decidable choices: `k` linear terms
/// that all stay live across a unary op, `m` min/max clauses between pairs
/// of them; every tile decides the clauses differently, and the tape
/// simplified for a tile is re-allocated from scratch (with 12 or 4
/// registers it may need more spills than its parent)
pub fn pressure_scene(rng: &mut Rng, with_z: bool) -> Prog {
    use crate::gen_::shape::B;
    let mut b = B::new();
    let (x, y, z) = (b.var(0), b.var(1), b.var(2));
    let k = 8 + rng.below(18);
    let m = 2 + rng.below(8);
    let coeff = |rng: &mut Rng| (rng.range(-20, 20) as f32) / 8.0;
    let mut terms = vec![];
    for _ in 0..k {
        let ax = b.mulc(x, coeff(rng));
        let by = b.mulc(y, coeff(rng));
        let mut s = b.add(ax, by);
        if with_z {
            let cz = b.mulc(z, coeff(rng));
            s = b.add(s, cz);
        }
        terms.push(b.subc(s, coeff(rng)));
    }
    let mut choices = vec![];
    for _ in 0..m {
        let (p, q) = (terms[rng.below(k)], terms[rng.below(k)]);
        choices.push(if rng.chance(0.5) { b.min(p, q) } else { b.max(p, q) });
    }
    let mut sum = b.c(0.0);
    for (i, t) in terms.iter().enumerate() {
        let w = b.mulc(*t, (i % 5) as f32 + 1.0);
        sum = b.add(sum, w);
    }
    for c in &choices {
        sum = b.add(sum, *c);
    }
    let mut out = match rng.below(3) {
        0 => b.abs(sum),
        1 => b.sq(sum),
        _ => b.un(Un::Neg, sum),
    };
    for c in choices.iter().rev() {
        let h = b.mulc(*c, 0.5);
        out = b.sub(out, h);
    }
    for t in terms.iter().rev() {
        out = b.sub(out, *t);
    }
    Prog { nodes: b.nodes, n_vars: 3, outputs: vec![out] }
}

impl Prop for C06 {
    fn id(&self) -> &'static str {
        "C06"
    }
    fn n_cases(&self, tier: Tier) -> u64 {
        tier.pick(36_000, 400_000)
    }
    fn time_cap_s(&self, tier: Tier) -> u64 {
        tier.pick(100, 1200)
    }
    fn run_case(&self, case: u64, rng: &mut Rng, st: &mut Stats, tier: Tier) {
        let mut wide_live = false;
        let kind = rng.below(20);
        let n_models = models().len();
        let (p, model) = if case % 12 == 7 {
            wide_live = true;
            st.inc("scenes_register_pressure_with_choices");
            (pressure_scene(rng, false), None)
        } else if kind < 12 {
            let mut cfg = ShapeCfg::render();
            cfg.flat = rng.chance(0.3);
            cfg.free_vars = if rng.chance(0.2) { 1 + rng.below(2) } else { 0 };
            st.inc("scenes_csg");
            (shape::generate(rng, &cfg), None)
        } else if kind < 18 || n_models == 0 {
            // random expression (no rand/mix: their value hashes NaN payloads)
            let mut cfg = GenCfg::random(rng, 40);
            if rng.chance(0.6) {
                // many values kept live across mod / libm calls (register
                // save/restore paths of the JIT interval evaluator; tapes
                // whose simplification spills more than the parent did)
                wide_live = true;
                cfg = GenCfg::new(40 + rng.below(80));
                cfg.topo = prog::Topo::Crossing;
                // (half of them choice-heavy: simplification then rewrites
                // the tape per tile, under register pressure)
                cfg.profile = if rng.chance(0.5) { prog::Profile::Choice } else { prog::Profile::Libm };
                cfg.const_p = 0.2;
            }
            cfg.consts = Consts::Tame;
            cfg.n_vars = 3;
            cfg.n_outputs = 1;
            cfg.allow_un.retain(|o| *o != Un::Rand);
            // atan2 with both arguments zero is excluded from the enclosure
            // claim the renderer's fills rest on (C03), and x.mod(x)-style
            // sub-terms reach it easily
            cfg.allow_bin.retain(|o| *o != Bin::Mix && *o != Bin::Atan2);
            st.inc("scenes_random_expression");
            (prog::generate(rng, &cfg), None)
        } else {
            st.inc("scenes_bundled_model");
            (Prog { nodes: vec![], n_vars: 3, outputs: vec![] }, Some(rng.below(n_models)))
        };
        // now and then the whole scene lives at a very different scale:
        // rescaled by a power of two, view (and slice height) to match
        let mut view_scale = 1.0f32;
        let mut p = p;
        if model.is_none() && rng.chance(0.06) {
            let e = rng.range(8, 24) as i32 * if rng.chance(0.5) { 1 } else { -1 };
            view_scale = (2.0f32).powi(e);
            p = shape::rescale(&p, view_scale);
            st.inc("scenes_at_extreme_scale");
        }
        st.distinct(if let Some(m) = model { m as u64 ^ rng.next_u64() } else { p.hash() });
        st.sample(|| if let Some(m) = model { json!({"model": models()[m].name}) } else { json!({"program": p.to_json()}) });
        let seed = rng.next_u64();
        if let Some((sig, msg, detail)) = check_prog(&p, model, seed, tier, st, wide_live, view_scale) {
            let mut pj = if let Some(m) = model { json!({"model": models()[m].name}) } else { p.to_json() };
            if model.is_none() {
                let mut scratch = Stats::default();
                let sig0 = sig.clone();
                let small = crate::gen_::shrink::shrink(
                    &p,
                    &mut |q: &Prog| matches!(guarded(|| check_prog(q, None, seed, tier, &mut scratch, wide_live, view_scale)), Ok(Some((s, _, _))) if s == sig0),
                    150,
                );
                if let Some((s2, m2, d2)) = check_prog(&small, None, seed, tier, &mut scratch, wide_live, view_scale) {
                    if s2 == sig {
                        pj = small.to_json();
                        st.violation(case, s2, m2, json!({"detail": d2, "shape": pj, "check_seed": seed.to_string()}));
                        return;
                    }
                }
            }
            st.violation(case, sig, msg, json!({"detail": detail, "shape": pj, "check_seed": seed.to_string()}));
        }
    }
    fn extra_stage(&self, st: &mut Stats, tier: Tier, seed: u64) {
        // The pixel encoding: a value pixel of any bit pattern (NaNs of any
        // sign and payload included - `mix`, and arithmetic on NaN constants,
        // produce them) must unpack as a value and be inside exactly when
        // it is negative; a fill must unpack as the same fill.
        use fidget_raster::pixel::RawDistancePixel as Raw;
        let mut rng = Rng::for_case(seed, "C06-encoding", 0);
        let mut bad: Option<(String, String)> = None;
        let check_value = |bits: u32, st: &mut Stats| -> Option<(String, String)> {
            let v = f32::from_bits(bits);
            let raw = Raw::from(v);
            st.inc("encoding_value_patterns_checked");
            let un = raw.unpack();
            let ok = match un {
                DistancePixel::Value(w) => (v.is_nan() && w.is_nan()) || w.to_bits() == bits,
                DistancePixel::Fill { .. } => false,
            };
            if !ok || !raw.is_distance() {
                return Some(("encoding:value_unpacks_as_fill".into(), format!("the value pixel {v:?} (0x{bits:08x}) unpacks as {un:?}")));
            }
            if raw.inside() != (v < 0.0) {
                return Some(("encoding:value_inside".into(), format!("the value pixel {v:?} (0x{bits:08x}) reports inside = {}", raw.inside())));
            }
            None
        };
        // all NaN patterns in the thorough tier, a structured sample otherwise
        let nan_patterns: Box<dyn Iterator<Item = u32>> = if tier == Tier::Thorough {
            Box::new((0u32..(1 << 24)).map(|k| 0x7f80_0000 | (k & 0x7f_ffff) | ((k >> 23) << 31)).filter(|b| b & 0x7f_ffff != 0))
        } else {
            let mut v: Vec<u32> = vec![];
            // every value of mantissa bits 9..=22 (the marker bits and those
            // above them), both signs, with a few settings of the low bits
            for hi in 0u32..(1 << 14) {
                for low in [0u32, 1, 2, 0x1ff, 0x155] {
                    for sign in [0u32, 1] {
                        let b = 0x7f80_0000 | (hi << 9) | low | (sign << 31);
                        if b & 0x7f_ffff != 0 {
                            v.push(b);
                        }
                    }
                }
            }
            Box::new(v.into_iter())
        };
        for b in nan_patterns {
            if bad.is_none() {
                bad = check_value(b, st);
            }
        }
        for _ in 0..tier.pick(1_000_000u64, 16_000_000u64) {
            if bad.is_none() {
                bad = check_value(rng.next_u64() as u32, st);
            }
        }
        for depth in 0..=255u8 {
            for inside in [false, true] {
                let raw = Raw::from(DistancePixel::Fill { depth, inside });
                st.inc("encoding_fill_patterns_checked");
                let ok = matches!(raw.unpack(), DistancePixel::Fill { depth: d, inside: i } if d == depth && i == inside);
                if (!ok || raw.is_distance() || raw.inside() != inside) && bad.is_none() {
                    bad = Some(("encoding:fill_roundtrip".into(), format!("Fill {{ depth: {depth}, inside: {inside} }} unpacks as {:?}", raw.unpack())));
                }
            }
        }
        if let Some((sig, msg)) = bad {
            st.violation(0, sig, msg, json!({"stage": "pixel encoding"}));
        }
    }
    fn replay_detail(&self, replay: &Value, st: &mut Stats) -> bool {
        // shape and setup are taken from the file (independent of generators)
        let d = &replay["detail"];
        let setup = if d["detail"]["setup"].is_object() { &d["detail"]["setup"] } else { &d["detail"] };
        let nums = |s: &str| -> Vec<f32> {
            s.split(|c: char| c == '[' || c == ']' || c == ',' || c.is_whitespace()).filter(|t| !t.is_empty()).filter_map(|t| t.parse().ok()).collect()
        };
        let Some(ms) = setup["world_to_model"].as_str().map(nums) else { return false };
        if ms.len() != 9 {
            return false;
        }
        let (Some(w), Some(h), Some(tiles)) = (setup["width"].as_u64(), setup["height"].as_u64(), setup["tile_sizes"].as_array()) else { return false };
        let su = Setup {
            w: w as u32,
            h: h as u32,
            tiles: tiles.iter().filter_map(|t| t.as_u64().map(|t| t as usize)).collect(),
            mat: Matrix3::from_column_slice(&ms),
            z: setup["z"].as_f64().unwrap_or(0.0) as f32,
            pixel_perfect: setup["pixel_perfect"].as_bool().unwrap_or(false),
            jit: setup["backend"].as_str() == Some("jit"),
            small_vm: setup["backend"].as_str() == Some("vm4"),
            pool: setup["threads"].as_u64().and_then(|t| POOL_SIZES.iter().position(|s| *s as u64 == t)),
        };
        let built;
        let sc = if let Some(name) = d["shape"]["model"].as_str() {
            let Some(m) = models().iter().find(|m| m.name == name) else { return false };
            Scene { ctx: &m.ctx, root: m.root, vars: vec![], desc: json!({"model": m.name}) }
        } else {
            let Some(p) = Prog::from_json(&d["shape"]) else { return false };
            built = p.build();
            let root = built_root(&p, &built);
            let bits: Vec<u32> = setup["free_var_values_bits"].as_array().map(|a| a.iter().filter_map(|b| b.as_u64().map(|b| b as u32)).collect()).unwrap_or_default();
            let free: Vec<Var> = built.vars.iter().skip(3).copied().collect();
            if bits.len() != free.len() {
                return false;
            }
            let vars: Vec<(Var, f32)> = free.into_iter().zip(bits).map(|(v, b)| (v, f32::from_bits(b))).collect();
            Scene { ctx: &built.ctx, root, vars, desc: p.to_json() }
        };
        let seed = d["check_seed"].as_str().and_then(|s| s.parse::<u64>().ok()).unwrap_or(1);
        // (large images are judged on a random sample of pixels)
        for k in 0..8 {
            let mut rng = Rng::new(seed ^ k);
            if let Some((sig, msg, detail)) = check_scene(&sc, &su, &mut rng, st) {
                st.violation(replay["case"].as_u64().unwrap_or(0), sig, msg, json!({"detail": detail, "shape": d["shape"]}));
                break;
            }
        }
        true
    }
    fn finish(&self, st: &mut Stats, _tier: Tier) {
        let r = st.get("renders").max(1);
        if st.get("renders_with_fill_and_evaluated_pixels") * 10 < r * 3 {
            st.inconclusive.push(format!("only {} of {r} renders mix interval-filled and evaluated pixels (< 30%)", st.get("renders_with_fill_and_evaluated_pixels")));
        }
        if st.get("renders_with_fills_at_2plus_depths") * 20 < r {
            st.inconclusive.push(format!("only {} of {r} renders have fills at >= 2 depths (< 5%)", st.get("renders_with_fills_at_2plus_depths")));
        }
        for l in 1..=4 {
            if st.get(&format!("tile_list_len_{l}")) == 0 {
                st.inconclusive.push(format!("no render with a tile list of length {l}"));
            }
        }
    }
    fn rule(&self) -> String {
        "each case = one scene (CSG of primitives under transforms incl. free variables, a random expression without rand/mix/atan2, or a bundled model) rendered once with random image size 1..96 (non-square, not tile multiples), a random valid tile-size list over {4..128}, random affine world_to_model, z slice, pixel_perfect on/off, VM or JIT, no pool or a pool of 1..16 threads; up to 700 pixels per image compared with Context::eval at the documented sample position (inside <=> value < 0 outside the zero band 1e-5*max(1,|p|); value equality in pixel-perfect mode); distinct = scene hash".into()
    }
    fn assumptions(&self) -> Vec<String> {
        vec!["RenderConfig::mat() defines the pixel sample position (screen -> model), as documented".into(),
             "zero band: |v| <= 1e-5*max(1,|p|_inf) pixels are not judged in non-pixel-perfect mode".into(),
             "pixels whose reference value is NaN are not judged in either mode: C03 excludes NaN point values from what interval evidence guarantees (e.g. max(3, mod(exp(exp(y)), c)) at y = 5.1: the tile interval of the mod is finite, the pixel carries 3.0, the point value is NaN)".into()]
    }
}
