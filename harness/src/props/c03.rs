//! C03 - interval evaluation encloses every point result in the region.
//! Two local obligations per node and box (DESIGN.md C03) plus the transform
//! decomposition through trivial shapes.
use crate::gen_::boxes::{self, BoxKind};
use crate::gen_::prog::{self, Bin, Consts, GenCfg, Prog};
use crate::monitor::child;
use crate::props::evalutil::*;
use crate::refmodel::graph::{self, map_bin, map_un};
use crate::refmodel::op;
use crate::util::{Rng, Stats, Tier, guarded, same_bits, within_ulps};
use crate::{Mode, Prop};
use fidget_core::context::{Node, Op};
use fidget_core::shape::Shape;
use fidget_core::types::Interval;
use fidget_core::vm::VmFunction;
use fidget_jit::JitFunction;
use nalgebra::{Matrix4, Point3};
use serde_json::{Value, json};
use std::collections::HashMap;

pub struct C03;

pub const ULPS: i32 = 8;

struct Viol {
    sig: String,
    msg: String,
    detail: Value,
}

fn mag_class(vs: &[f32]) -> &'static str {
    if vs.iter().any(|v| v.is_infinite()) {
        return "inf";
    }
    let m = vs.iter().filter(|v| v.is_finite()).fold(0f32, |a, v| a.max(v.abs()));
    if m < 1e4 {
        "small"
    } else if m < 1e18 {
        "large"
    } else {
        "huge"
    }
}

/// Bit-realisable sample values of an interval: the endpoints exactly as
/// returned, values strictly between them; the other-signed zero only when
/// `lower < 0 < upper`.
fn samples(rng: &mut Rng, iv: Interval, n_random: usize) -> Vec<f32> {
    let (lo, hi) = (iv.lower(), iv.upper());
    let mut v = vec![lo];
    if hi.to_bits() != lo.to_bits() {
        v.push(hi);
    }
    if lo < hi {
        let mid = lo / 2.0 + hi / 2.0;
        if mid > lo && mid < hi {
            v.push(mid);
        }
        if lo < 0.0 && hi > 0.0 {
            v.push(0.0);
            v.push(-0.0);
            for x in [f32::MIN_POSITIVE, -f32::MIN_POSITIVE, 1e-45, -1e-45] {
                if x > lo && x < hi {
                    v.push(x);
                }
            }
        }
        for k in [1, 2] {
            let a = crate::util::step_ulps(lo, k);
            let c = crate::util::step_ulps(hi, -k);
            if a < hi {
                v.push(a);
            }
            if c > lo {
                v.push(c);
            }
        }
        for _ in 0..n_random {
            let t = rng.unit() as f32;
            let x = if lo.is_finite() && hi.is_finite() {
                lo + (hi - lo) * t
            } else {
                // half-infinite: log-uniform offset from the finite end
                let m = rng.log_f32(-10.0, 100.0).abs();
                if lo.is_finite() {
                    lo + m
                } else if hi.is_finite() {
                    hi - m
                } else {
                    rng.log_f32(-10.0, 100.0)
                }
            };
            if x > lo && x < hi {
                v.push(x);
            }
        }
    }
    v
}

fn contains_zero(i: Interval) -> bool {
    i.lower() <= 0.0 && i.upper() >= 0.0
}

fn check_backend<F: Backend>(
    p: &Prog,
    b: &prog::Built,
    order: &[Node],
    bxs: &[Vec<(f32, f32)>],
    rng: &mut Rng,
    st: &mut Stats,
) -> Result<(), Viol> {
    let name = F::NAME;
    let idx: HashMap<Node, usize> = order.iter().enumerate().map(|(i, n)| (*n, i)).collect();
    let fa = F::new(&b.ctx, order).unwrap();
    let slot = slot_map(fa.vars(), &b.vars).unwrap();
    // reference point values come from the interpreter for both backends
    let vm = VmFunction::new_(&b.ctx, order);
    let vslot = slot_map(vm.vars_(), &b.vars).unwrap();
    for bx in bxs {
        let input: Vec<Interval> = slot.iter().map(|&s| Interval::new(bx[s].0, bx[s].1)).collect();
        child::note(&format!("C03 {name} interval eval | program {:016x}", p.hash()));
        let ivs = match guarded(|| interval_eval(&fa, &input)) {
            Ok(Ok((ivs, _))) => ivs,
            Ok(Err(e)) => return Err(Viol { sig: format!("{name}:eval_error"), msg: e, detail: json!(null) }),
            Err(_) => {
                st.inc("interval_evals_panicked(C11)");
                continue;
            }
        };
        st.inc("boxes_evaluated");
        if bx.iter().any(|(l, u)| l != u) {
            st.inc("boxes_nondegenerate");
        }
        // The all-nodes function keeps every value alive to the end, which
        // hides register-aliasing patterns (an operand dying at the op that
        // reuses its register). A second function exports only a random
        // subset: its result intervals are judged against operand intervals
        // taken from the all-nodes twin of the same backend.
        // (20% of the functions, and every width-sweep program, export the
        // root alone: the register pressure of the expression itself)
        let root_only = order.len() > 400 || rng.chance(0.2);
        let subset: Vec<usize> = (0..order.len()).filter(|i| *i + 1 == order.len() || (!root_only && rng.chance(0.35))).collect();
        let sub_nodes: Vec<Node> = subset.iter().map(|&i| order[i]).collect();
        let fsub = F::new(&b.ctx, &sub_nodes).unwrap();
        let ssub = slot_map(fsub.vars(), &b.vars).unwrap();
        let sinput: Vec<Interval> = ssub.iter().map(|&s| Interval::new(bx[s].0, bx[s].1)).collect();
        let mut sub_iv: HashMap<usize, Interval> = HashMap::new();
        if let Ok(Ok((o, _))) = guarded(|| interval_eval(&fsub, &sinput)) {
            for (k, &i) in subset.iter().enumerate() {
                sub_iv.insert(i, o[k]);
            }
            st.inc("partial_export_evals");
        }
        // -------- obligation 1: operand sampling
        for (i, &n) in order.iter().enumerate().chain(subset.iter().filter(|i| sub_iv.contains_key(i)).map(|&i| (i + order.len(), &order[i]))) {
            // indices >= order.len() denote "node i of the partial-export function"
            let (_i, i_n) = if i >= order.len() { (i - order.len(), sub_iv[&(i - order.len())]) } else { (i, ivs[i]) };
            let (opname, ia, ib, is_bin) = match *b.ctx.get_op(n).unwrap() {
                Op::Unary(o, a) => (map_un(o).name(), ivs[idx[&a]], Interval::from(0.0), false),
                Op::Binary(o, a, c) => (map_bin(o).name(), ivs[idx[&a]], ivs[idx[&c]], true),
                _ => continue,
            };
            // an interval with exactly one NaN bound is neither "the NaN
            // interval" nor an enclosure of anything, and it poisons what is
            // computed from it (candidate-based reductions ignore NaN
            // candidates): reported where it first appears
            if i_n.lower().is_nan() != i_n.upper().is_nan() {
                let first = !(ia.lower().is_nan() != ia.upper().is_nan()) && !(is_bin && ib.lower().is_nan() != ib.upper().is_nan());
                if first {
                    return Err(Viol {
                        sig: format!("local:{name}:{opname}:half_nan_interval"),
                        msg: format!("{name}: {opname} returned {i_n:?} (one bound NaN) for operand interval(s) {ia:?}{}", if is_bin { format!(", {ib:?}") } else { String::new() }),
                        detail: json!({"op": opname, "operand_interval": format!("{ia:?}"), "result_interval": format!("{i_n:?}"),
                            "box_by_var_slot": bx.iter().map(|(l, u)| format!("[{l:?}, {u:?}]")).collect::<Vec<_>>()}),
                    });
                }
            }
            if ia.has_nan() || (is_bin && ib.has_nan()) {
                st.inc("local_skipped_nan_operand_interval");
                continue;
            }
            if i_n.has_nan() {
                st.inc(&format!("local_nan_result_{name}"));
                continue;
            }
            if !(i_n.lower() <= i_n.upper()) {
                // ill-formed result: C11's business
                st.inc("local_skipped_illformed_result(C11)");
                continue;
            }
            match *b.ctx.get_op(n).unwrap() {
                Op::Unary(o, _) => {
                    let o = map_un(o);
                    for x in samples(rng, ia, 8) {
                        let r = op::un(o, x);
                        if r.is_nan() {
                            continue;
                        }
                        st.inc("local_samples_judged");
                        st.inc(&format!("judged_{name}_{}", o.name()));
                        if !within_ulps(r, i_n.lower(), i_n.upper(), ULPS) {
                            return Err(Viol {
                                sig: format!("local:{name}:{}:{}", o.name(), mag_class(&[ia.lower(), ia.upper()])),
                                msg: format!("{name}: {}({x:?}) = {r:?} with operand in {ia:?}, but the evaluator returned {i_n:?}", o.name()),
                                detail: json!({"op": o.name(), "operand": format!("{x:?}"), "operand_interval": format!("{ia:?}"), "result": format!("{r:?}"), "result_interval": format!("{i_n:?}"),
                                    "box_by_var_slot": bx.iter().map(|(l, u)| format!("[{l:?}, {u:?}]")).collect::<Vec<_>>()}),
                            });
                        }
                    }
                }
                Op::Binary(o, _, _) => {
                    let o = map_bin(o);
                    if o == Bin::Atan2 && contains_zero(ia) && contains_zero(ib) {
                        st.inc("local_skipped_atan2_both_zero");
                        continue;
                    }
                    let xs = samples(rng, ia, 3);
                    let ys = samples(rng, ib, 3);
                    for &x in &xs {
                        for &y in &ys {
                            let r = op::bin(o, x, y);
                            if r.is_nan() {
                                continue;
                            }
                            st.inc("local_samples_judged");
                            st.inc(&format!("judged_{name}_{}", o.name()));
                            if !within_ulps(r, i_n.lower(), i_n.upper(), ULPS) {
                                // narrow class for products/quotients of
                                // endpoints that are NaN (0*inf, inf/inf)
                                let nan_prod = matches!(o, Bin::Mul | Bin::Div)
                                    && [ia.lower(), ia.upper()].iter().any(|&l| {
                                        [ib.lower(), ib.upper()].iter().any(|&r| op::bin(o, l, r).is_nan())
                                    });
                                let class = if nan_prod { "nan_endpoint_product" } else { mag_class(&[ia.lower(), ia.upper(), ib.lower(), ib.upper()]) };
                                return Err(Viol {
                                    sig: format!("local:{name}:{}:{}", o.name(), class),
                                    msg: format!("{name}: {}({x:?}, {y:?}) = {r:?} with operands in {ia:?}, {ib:?}, but the evaluator returned {i_n:?}", o.name()),
                                    detail: json!({"op": o.name(), "lhs": format!("{x:?}"), "rhs": format!("{y:?}"), "lhs_interval": format!("{ia:?}"), "rhs_interval": format!("{ib:?}"),
                                        "result": format!("{r:?}"), "result_interval": format!("{i_n:?}"),
                                        "box_by_var_slot": bx.iter().map(|(l, u)| format!("[{l:?}, {u:?}]")).collect::<Vec<_>>()}),
                                });
                            }
                        }
                    }
                }
                _ => (),
            }
            let _ = opname;
        }
        // -------- obligation 2: points of the box through the point evaluator
        for _ in 0..6 {
            let q = boxes::point_in(rng, bx);
            let qv: Vec<f32> = vslot.iter().map(|&s| q[s]).collect();
            let Ok((vals, _)) = vm.point_(&qv) else { continue };
            for (i, &n) in order.iter().enumerate() {
                let kids: Vec<Node> = b.ctx.get_op(n).unwrap().iter_children().collect();
                if kids.is_empty() {
                    continue;
                }
                let i_n = ivs[i];
                let v = vals[i];
                if v.is_nan() || i_n.has_nan() || !(i_n.lower() <= i_n.upper()) {
                    continue;
                }
                let premise = kids.iter().all(|k| {
                    let iv = ivs[idx[k]];
                    let kv = vals[idx[k]];
                    !iv.has_nan() && iv.lower() <= kv && kv <= iv.upper()
                });
                if !premise {
                    st.inc("point_premise_failed");
                    continue;
                }
                if let Op::Binary(o, a, c) = *b.ctx.get_op(n).unwrap() {
                    if map_bin(o) == Bin::Atan2 && contains_zero(ivs[idx[&a]]) && contains_zero(ivs[idx[&c]]) {
                        continue;
                    }
                }
                st.inc("point_nodes_judged");
                if !within_ulps(v, i_n.lower(), i_n.upper(), ULPS) {
                    let opn = op_name(&b.ctx, n);
                    let operand_ivs: Vec<f32> = kids.iter().flat_map(|k| [ivs[idx[k]].lower(), ivs[idx[k]].upper()]).collect();
                    return Err(Viol {
                        sig: format!("point:{name}:{opn}:{}", mag_class(&operand_ivs)),
                        msg: format!("{name}: node {opn} evaluates to {v:?} at a point of the box, outside its interval {i_n:?}, although its operands lie inside their intervals"),
                        detail: json!({"op": opn, "value": format!("{v:?}"), "interval": format!("{i_n:?}"),
                            "operands": kids.iter().map(|k| format!("{:?} in {:?}", vals[idx[k]], ivs[idx[k]])).collect::<Vec<_>>(),
                            "point_by_var_slot": q.iter().map(|x| format!("{x:?}")).collect::<Vec<_>>(),
                            "box_by_var_slot": bx.iter().map(|(l, u)| format!("[{l:?}, {u:?}]")).collect::<Vec<_>>()}),
                    });
                }
            }
        }
    }
    Ok(())
}

fn random_matrix(rng: &mut Rng) -> Matrix4<f32> {
    let mut m = Matrix4::<f32>::identity();
    match rng.below(4) {
        0 => {
            // translation + non-uniform scale
            for i in 0..3 {
                m[(i, i)] = rng.uniform(-2.0, 2.0) as f32;
                m[(i, 3)] = rng.uniform(-1.0, 1.0) as f32;
            }
        }
        1 | 2 => {
            // general affine
            for i in 0..3 {
                for j in 0..4 {
                    m[(i, j)] = rng.uniform(-1.5, 1.5) as f32;
                }
            }
        }
        _ => {
            // mildly projective, or affine with a homogeneous scale w != 1
            for i in 0..3 {
                for j in 0..4 {
                    m[(i, j)] = rng.uniform(-1.5, 1.5) as f32;
                }
            }
            if rng.chance(0.5) {
                for j in 0..3 {
                    m[(3, j)] = rng.uniform(-0.1, 0.1) as f32;
                }
                m[(3, 3)] = rng.uniform(0.8, 1.2) as f32;
            } else {
                m[(3, 3)] = *rng.pick(&[0.5f32, 0.75, 2.0, 3.0]);
            }
        }
    }
    // structural special cases: some rows/columns exactly those of the
    // identity (no translation, no shear, last entry exactly 1) while others
    // are not - fast paths keyed on "looks affine / looks like the identity"
    if rng.chance(0.3) {
        if rng.chance(0.5) {
            for i in 0..3 {
                m[(i, 3)] = 0.0; // no translation
            }
        }
        if rng.chance(0.5) {
            m[(3, 3)] = 1.0;
        }
        if rng.chance(0.3) {
            for i in 0..3 {
                for j in 0..3 {
                    m[(i, j)] = if i == j { 1.0 } else { 0.0 };
                }
            }
        }
        if rng.chance(0.3) {
            for j in 0..3 {
                m[(3, j)] = rng.uniform(-0.3, 0.3) as f32; // perspective row
            }
        }
    }
    m
}

/// Transform decomposition: (1) the transformed box observed through the
/// trivial shapes X, Y, Z encloses the transformed sample points; (2) the
/// shape's result on (box, M) equals, bit for bit, the function's result on
/// that transformed box.
fn check_transform<F: Backend>(
    p: &Prog,
    b: &prog::Built,
    root: Node,
    rng: &mut Rng,
    st: &mut Stats,
) -> Result<(), Viol> {
    let name = F::NAME;
    let m = random_matrix(rng);
    let kind = boxes::random_tame_kind(rng);
    let bx = boxes::gen_box(rng, 3, kind);
    let iv = |k: usize| Interval::new(bx[k].0, bx[k].1);
    let mut ctx = fidget_core::Context::new();
    let axes = ctx.axes();
    let mut tb = vec![];
    for a in axes {
        let s = Shape::<F>::new(&ctx, a).unwrap();
        let t = s.interval_tape(Default::default());
        let mut ev = Shape::<F>::new_interval_eval();
        child::note(&format!("C03 {name} transform eval | program {:016x}", p.hash()));
        let r = guarded(|| ev.eval_with_transform(&t, iv(0), iv(1), iv(2), &m).map(|(v, _)| v));
        match r {
            Ok(Ok(v)) => tb.push(v),
            Ok(Err(e)) => return Err(Viol { sig: format!("{name}:transform_error"), msg: e.to_string(), detail: json!(null) }),
            Err(_) => {
                st.inc("interval_evals_panicked(C11)");
                return Ok(());
            }
        }
    }
    st.inc("transforms_checked");
    for _ in 0..12 {
        let q = boxes::point_in(rng, &bx);
        let tp = m.transform_point(&Point3::new(q[0], q[1], q[2]));
        for k in 0..3 {
            let v = tp[k];
            if v.is_nan() || tb[k].has_nan() {
                continue;
            }
            st.inc("transform_points_judged");
            // the interval transform accumulates 4 products and a division
            // without outward rounding: allow 8 ulps of the largest term
            let w = (0..4).map(|j| m[(3, j)] * if j < 3 { q[j] } else { 1.0 }).sum::<f32>();
            let scale = (0..4).map(|j| (m[(k, j)] * if j < 3 { q[j] } else { 1.0 }).abs()).fold(v.abs(), f32::max) / w.abs().max(1e-6);
            let slack = scale * f32::EPSILON * 16.0;
            if !(v >= tb[k].lower() - slack && v <= tb[k].upper() + slack) {
                return Err(Viol {
                    sig: format!("transform:{name}:axis{k}"),
                    msg: format!("{name}: transformed point coordinate {k} = {v:?} lies outside the transformed box {:?}", tb[k]),
                    detail: json!({"matrix": format!("{m:?}"), "point": format!("{q:?}"), "box": format!("{bx:?}")}),
                });
            }
        }
    }
    // (2) wiring: shape(box, M) == function(transformed box)
    let s = Shape::<F>::new(&b.ctx, root).unwrap();
    let t = s.interval_tape(Default::default());
    let mut ev = Shape::<F>::new_interval_eval();
    let f = F::new(&b.ctx, &[root]).unwrap();
    let mut input = vec![Interval::from(0.0); f.vars().len()];
    let mut free = false;
    for (var, i) in f.vars().iter() {
        match var {
            fidget_core::var::Var::X => input[i] = tb[0],
            fidget_core::var::Var::Y => input[i] = tb[1],
            fidget_core::var::Var::Z => input[i] = tb[2],
            _ => free = true,
        }
    }
    if free {
        return Ok(());
    }
    let r1 = guarded(|| ev.eval_with_transform(&t, iv(0), iv(1), iv(2), &m).map(|(v, _)| v));
    let r2 = guarded(|| interval_eval(&f, &input));
    if let (Ok(Ok(a)), Ok(Ok((c, _)))) = (r1, r2) {
        st.inc("transform_wiring_compared");
        if !(same_bits(a.lower(), c[0].lower()) && same_bits(a.upper(), c[0].upper())) {
            return Err(Viol {
                sig: format!("transform_wiring:{name}"),
                msg: format!("{name}: shape evaluation with a transform returned {a:?}, but the function on the transformed box returns {:?}", c[0]),
                detail: json!({"matrix": format!("{m:?}"), "box": format!("{bx:?}")}),
            });
        }
    }
    Ok(())
}

// small adapter so the interpreter can be used as the reference inside a
// function generic over another backend
trait VmRef {
    fn new_(ctx: &fidget_core::Context, roots: &[Node]) -> Self;
    fn vars_(&self) -> &fidget_core::var::VarMap;
    fn point_(&self, q: &[f32]) -> Result<(Vec<f32>, Option<Vec<fidget_core::vm::Choice>>), String>;
}
impl VmRef for VmFunction {
    fn new_(ctx: &fidget_core::Context, roots: &[Node]) -> Self {
        use fidget_core::eval::MathFunction;
        VmFunction::new(ctx, roots).unwrap()
    }
    fn vars_(&self) -> &fidget_core::var::VarMap {
        use fidget_core::eval::Function;
        self.vars()
    }
    fn point_(&self, q: &[f32]) -> Result<(Vec<f32>, Option<Vec<fidget_core::vm::Choice>>), String> {
        point_eval(self, q)
    }
}

fn check_prog(p: &Prog, seed: u64, huge: bool, st: &mut Stats) -> Option<Viol> {
    let mut rng = Rng::new(seed);
    let rng = &mut rng;
    let b = p.build();
    let roots = p.roots(&b);
    let order = graph::topo(&b.ctx, &roots);
    // (tiny programs are cheap: four times as many boxes)
    let bxs: Vec<Vec<(f32, f32)>> = (0..if p.nodes.len() <= 6 { 24 } else { 6 })
        .map(|_| {
            let k = if huge && p.nodes.len() <= 6 && rng.chance(0.6) {
                // tiny programs: the trigonometric edge boxes reach
                // sin/cos/tan unchanged
                BoxKind::TrigEdge
            } else if huge {
                match rng.below(4) {
                    0 => BoxKind::Huge,
                    1 => BoxKind::TrigEdge,
                    _ => BoxKind::MixedAll,
                }
            } else {
                boxes::random_tame_kind(rng)
            };
            boxes::gen_box(rng, p.n_vars, k)
        })
        .collect();
    if let Err(v) = check_backend::<VmFunction>(p, &b, &order, &bxs, rng, st) {
        return Some(v);
    }
    if let Err(v) = check_backend::<JitFunction>(p, &b, &order, &bxs, rng, st) {
        return Some(v);
    }
    if let Err(v) = check_transform::<VmFunction>(p, &b, roots[0], rng, st) {
        return Some(v);
    }
    if let Err(v) = check_transform::<JitFunction>(p, &b, roots[0], rng, st) {
        return Some(v);
    }
    None
}

impl Prop for C03 {
    fn id(&self) -> &'static str {
        "C03"
    }
    fn mode(&self) -> Mode {
        Mode::Children
    }
    fn crash_is_violation(&self) -> bool {
        // totality of the evaluators is C11's subject
        false
    }
    fn n_cases(&self, tier: Tier) -> u64 {
        tier.pick(120_000, 600_000)
    }
    fn time_cap_s(&self, tier: Tier) -> u64 {
        tier.pick(100, 1200)
    }
    fn run_case(&self, case: u64, rng: &mut Rng, st: &mut Stats, tier: Tier) {
        let mut cfg = GenCfg::random(rng, tier.pick(80, 160));
        cfg.n_outputs = 1;
        if rng.chance(0.5) {
            cfg.consts = Consts::Tame;
        }
        if rng.chance(0.5) {
            cfg.n_vars = 3;
        }
        let huge = rng.chance(0.3);
        if huge && rng.chance(0.5) {
            // trigonometry applied directly to the inputs, so that the edge
            // boxes reach sin/cos/tan unchanged
            cfg.profile = prog::Profile::Libm;
            cfg.size = cfg.size.min(6);
        }
        let mut huge = huge;
        if rng.chance(0.05) {
            // "unit" trigonometric programs: sin/cos/tan of a variable or of
            // an affine function of it, on the edge boxes
            cfg = GenCfg::new(1 + rng.below(3));
            cfg.allow_un = vec![prog::Un::Sin, prog::Un::Cos, prog::Un::Tan, prog::Un::Tan];
            cfg.allow_bin = vec![prog::Bin::Add, prog::Bin::Mul, prog::Bin::Sub];
            cfg.const_p = 0.3;
            cfg.consts = Consts::Tame;
            cfg.n_outputs = 1;
            huge = true;
            st.inc("unit_trig_programs");
        }
        if rng.chance(0.01) {
            cfg = GenCfg::wide_sweep(rng);
            cfg.n_outputs = 1;
            st.inc("width_sweep_programs");
        }
        let p = prog::generate(rng, &cfg);
        st.distinct(p.hash());
        st.sample(|| json!({"program": p.to_json(), "huge_boxes": huge}));
        let seed = rng.next_u64();
        if let Some(v) = check_prog(&p, seed, huge, st) {
            let sig = v.sig.clone();
            let mut scratch = Stats::default();
            let small = crate::gen_::shrink::shrink(
                &p,
                &mut |q: &Prog| matches!(guarded(|| check_prog(q, seed, huge, &mut scratch)), Ok(Some(w)) if w.sig == sig),
                300,
            );
            let v2 = check_prog(&small, seed, huge, &mut scratch).filter(|w| w.sig == sig);
            let (v, pj) = match v2 {
                Some(w) => (w, small.to_json()),
                None => (v, p.to_json()),
            };
            st.violation(case, v.sig, v.msg, json!({"detail": v.detail, "program": pj, "check_seed": seed.to_string()}));
        }
    }
    fn finish(&self, st: &mut Stats, _tier: Tier) {
        for be in ["vm", "jit"] {
            for o in prog::UNS.iter().map(|o| o.name()).chain(prog::BINS.iter().map(|o| o.name())) {
                let k = format!("judged_{be}_{o}");
                if st.get(&k) < 200 {
                    st.inconclusive.push(format!("{k} = {} (floor 200)", st.get(&k)));
                }
            }
        }
        if st.get("boxes_nondegenerate") * 10 < st.get("boxes_evaluated") * 3 {
            st.inconclusive.push("fewer than 30% non-degenerate boxes".into());
        }
    }
    fn rule(&self) -> String {
        "each case = one generated DAG with every node exported, 6 boxes (tame kinds; 25% of cases huge/mixed magnitudes), both backends: (1) per node, operand values sampled from the operand intervals the evaluator returned (endpoints, +-1,2 ulp inside, midpoint, zeros, random) pushed through the independent opcode model must lie in the node's interval +-8 ulp; (2) per node, the interpreter's point value at 6 points of the box must lie in the node's interval +-8 ulp when its operands' values lie inside their intervals; (3) transform: transformed sample points inside the box observed through the shapes X,Y,Z, and shape(box,M) bit-equal to function(transformed box); distinct = program hash".into()
    }
    fn assumptions(&self) -> Vec<String> {
        vec![
            "'a few ulps' = 8".into(),
            "atan2 with both operand intervals containing 0 is excluded (stated); NaN results/intervals are not judged; ill-formed or panicking interval results are left to C11".into(),
            "CPU evaluators only (no GPU), x86-64 JIT only".into(),
        ]
    }
}
