//! C02 - native (JIT) evaluators agree with the interpreter on every tape;
//! bulk lengths; no access outside the caller's slices (guard pages).
use crate::gen_::prog::{self, GenCfg, Inputs, Prog};
use crate::monitor::child;
use crate::monitor::guard::{self, Flush, GuardedSlice};
use crate::props::evalutil::*;
use crate::refmodel::{graph, tape_shadow};
use crate::util::{Rng, Stats, Tier, fbits, same_bits, same_val};
use crate::{Mode, Prop};
use fidget_core::compiler::RegOp;
use fidget_core::eval::{BulkEvaluator, Function, MathFunction, TracingEvaluator};
use fidget_core::vm::{GenericVmFunction, VmFunction};
use fidget_jit::JitFunction;
use serde_json::{Value, json};

pub struct C02;

const MAX_LEN: usize = 35; // 4*SIMD+3 with SIMD = 8

struct Mismatch {
    kind: String,
    culprit: String,
    detail: Value,
}

/// Runs the whole JIT-vs-VM comparison for one program. Returns the first
/// mismatch (if any). `record` = update coverage counters.
fn compare(
    p: &Prog,
    inputs: &[Vec<f32>],
    lens: &[usize],
    st: &mut Stats,
    record: bool,
) -> Option<Mismatch> {
    let b = p.build();
    let roots = p.roots(&b);
    let order = graph::topo(&b.ctx, &roots);
    let vmf = VmFunction::new(&b.ctx, &roots).unwrap();
    let jf = JitFunction::new(&b.ctx, &roots).unwrap();
    let slot_vm = slot_map(vmf.vars(), &b.vars)?;
    let slot_j = slot_map(jf.vars(), &b.vars)?;
    if record {
        let g: &GenericVmFunction<12> = (&jf).into();
        let mut spills = 0;
        for op in g.data().iter_asm() {
            if matches!(op, RegOp::Load(..) | RegOp::Store(..)) {
                spills += 1;
            }
            st.inc(&format!("native_op_{}", tape_shadow::variant_name(&op)));
        }
        st.inc("native_tapes");
        if spills > 0 {
            st.inc("native_tapes_with_spills");
        }
        if jf.vars().is_empty() {
            st.inc("zero_variable_functions");
        }
    }
    let infos: Vec<SampleInfo> =
        inputs.iter().map(|v| analyse(&b, &order, v)).collect();

    // expected values from the interpreter
    let mut expected: Vec<Vec<f32>> = vec![];
    for vals in inputs {
        let input: Vec<f32> = slot_vm.iter().map(|&s| vals[s]).collect();
        expected.push(point_eval(&vmf, &input).ok()?.0);
    }

    let judge = |o: usize,
                 i: usize,
                 got: f32,
                 st: &mut Stats,
                 record: bool|
     -> bool {
        // true = ok
        let info = &infos[i];
        let want = expected[i][o];
        match info.taint[&roots[o]] {
            Taint::Clean => {
                if record {
                    st.inc("comparisons_bitwise");
                }
                same_bits(got, want)
            }
            Taint::Source => {
                if record {
                    st.inc("comparisons_zero_sign_exempt");
                }
                same_val(got, want)
            }
            Taint::Tainted => {
                if record {
                    st.inc("skipped_dependant_of_zero_tie_or_nan_hash");
                }
                true
            }
        }
    };

    // single-point JIT
    let ptape = jf.point_tape(Default::default());
    for (i, vals) in inputs.iter().enumerate() {
        let input: Vec<f32> = slot_j.iter().map(|&s| vals[s]).collect();
        let gi = GuardedSlice::new(&input, Flush::End);
        child::note(&format!("C02 jit point eval | program {:016x}", p.hash()));
        let out: Vec<f32> = guard::with_guard(Flush::End, || {
            let mut ev = JitFunction::new_point_eval();
            let (out, _) = ev.eval(&ptape, &gi).unwrap();
            out.to_vec()
        });
        if out.len() != roots.len() {
            return Some(Mismatch {
                kind: "point_output_count".into(),
                culprit: String::new(),
                detail: json!({"got": out.len(), "want": roots.len()}),
            });
        }
        for o in 0..roots.len() {
            if !judge(o, i, out[o], st, record) {
                return Some(Mismatch {
                    kind: "point".into(),
                    culprit: op_name(&b.ctx, roots[o]),
                    detail: json!({
                        "output": o, "jit": fbits(out[o]), "vm": fbits(expected[i][o]),
                        "inputs_by_var_slot": vals.iter().map(|v| fbits(*v)).collect::<Vec<_>>(),
                    }),
                });
            }
        }
    }

    // many-point JIT, every length, both guard layouts, fresh evaluator
    let btape = jf.float_slice_tape(Default::default());
    let nv = slot_j.len();
    for &len in lens {
        for flush in [Flush::End, Flush::Start] {
            let cols: Vec<GuardedSlice<f32>> = slot_j
                .iter()
                .map(|&s| {
                    let col: Vec<f32> =
                        (0..len).map(|j| inputs[j % inputs.len()][s]).collect();
                    GuardedSlice::new(&col, flush)
                })
                .collect();
            child::note(&format!(
                "C02 jit float-slice eval | len={len} flush={flush:?} program {:016x}",
                p.hash()
            ));
            let out: Vec<Vec<f32>> = guard::with_guard(flush, || {
                let mut ev = JitFunction::new_float_slice_eval();
                let out = ev.eval(&btape, &cols).unwrap();
                (0..out.len()).map(|i| out[i].to_vec()).collect()
            });
            if record {
                st.inc(&format!("bulk_len_{len}"));
                st.inc("bulk_calls");
            }
            if out.len() != roots.len() {
                return Some(Mismatch {
                    kind: "bulk_output_count".into(),
                    culprit: String::new(),
                    detail: json!({"got": out.len(), "want": roots.len(), "len": len}),
                });
            }
            let exp_len = if nv == 0 { 0 } else { len };
            for o in 0..roots.len() {
                if out[o].len() != exp_len {
                    return Some(Mismatch {
                        kind: "bulk_result_count".into(),
                        culprit: String::new(),
                        detail: json!({"got": out[o].len(), "want": exp_len, "output": o}),
                    });
                }
                for j in 0..exp_len {
                    let i = j % inputs.len();
                    if !judge(o, i, out[o][j], st, record) {
                        return Some(Mismatch {
                            kind: "bulk".into(),
                            culprit: op_name(&b.ctx, roots[o]),
                            detail: json!({
                                "output": o, "lane": j, "len": len, "flush": format!("{flush:?}"),
                                "jit": fbits(out[o][j]), "vm": fbits(expected[i][o]),
                                "inputs_by_var_slot": inputs[i].iter().map(|v| fbits(*v)).collect::<Vec<_>>(),
                            }),
                        });
                    }
                }
            }
        }
    }
    None
}

/// The same workload in one process, for the valgrind memcheck stage
pub struct C02V;

impl Prop for C02V {
    fn id(&self) -> &'static str {
        "C02V"
    }
    fn mode(&self) -> Mode {
        Mode::Threads
    }
    fn workers(&self) -> usize {
        1
    }
    fn n_cases(&self, tier: Tier) -> u64 {
        tier.pick(25, 400)
    }
    fn time_cap_s(&self, tier: Tier) -> u64 {
        tier.pick(120, 900)
    }
    fn run_case(&self, case: u64, rng: &mut Rng, st: &mut Stats, tier: Tier) {
        C02.run_case(case, rng, st, tier)
    }
    fn rule(&self) -> String {
        "C02 workload under valgrind memcheck".into()
    }
}

impl Prop for C02 {
    fn id(&self) -> &'static str {
        "C02"
    }
    fn extra_stage(&self, st: &mut Stats, tier: Tier, seed: u64) {
        // memcheck over a subsample: invalid accesses incl.
        // below rsp, use of uninitialised spill slots / lanes
        crate::props::memcheck::run_memcheck_stage("C02V", st, tier, seed);
    }
    fn mode(&self) -> Mode {
        Mode::Children
    }
    fn n_cases(&self, tier: Tier) -> u64 {
        tier.pick(3000, 150_000)
    }
    fn time_cap_s(&self, tier: Tier) -> u64 {
        tier.pick(100, 1500)
    }
    fn run_case(&self, case: u64, rng: &mut Rng, st: &mut Stats, tier: Tier) {
        let mut cfg = GenCfg::random(rng, tier.pick(160, 300));
        if rng.chance(0.3) {
            cfg.profile = prog::Profile::Libm;
        }
        if rng.chance(0.03) {
            cfg = GenCfg::wide_sweep(rng);
            st.inc("width_sweep_programs");
        }
        let mut base = prog::generate(rng, &cfg);
        if rng.chance(0.04) {
            // constant-only function: zero variables
            use prog::PNode;
            let o = *rng.pick(&prog::BINS);
            base = Prog {
                nodes: vec![
                    PNode::Const(prog::gen_const(rng, prog::Consts::Hostile)),
                    PNode::Const(prog::gen_const(rng, prog::Consts::Hostile)),
                    PNode::Bin(o, 0, 1),
                ],
                n_vars: 3,
                outputs: if rng.chance(0.5) { vec![2] } else { vec![2, 0, 2] },
            };
        }
        let export_all = rng.chance(0.5) && base.nodes.len() <= 200;
        let p = prog_with_all_outputs(&base, export_all);
        let n_inputs = 16;
        let inputs: Vec<Vec<f32>> = (0..n_inputs)
            .map(|i| {
                prog::gen_inputs(
                    rng,
                    p.n_vars,
                    if p.nodes.len() < 12 && i % 2 == 0 {
                        Inputs::Special
                    } else if i % 4 == 3 {
                        Inputs::Tame
                    } else {
                        Inputs::Hostile
                    },
                )
            })
            .collect();
        let lens: Vec<usize> = if p.outputs.len() > 24 {
            let mut l = vec![0, 1, 7, 8, 9, 16, 17, 35];
            for _ in 0..4 {
                l.push(rng.below(MAX_LEN + 1));
            }
            l
        } else {
            (0..=MAX_LEN).collect()
        };
        st.distinct(p.hash());
        if export_all {
            st.inc("programs_all_nodes_exported");
        }
        st.sample(|| json!({"program": p.to_json(), "input0": inputs[0].iter().map(|v| format!("{v:?}")).collect::<Vec<_>>()}));
        let g0 = guard::GUARD_ALLOCS.load(std::sync::atomic::Ordering::Relaxed);
        let r = compare(&p, &inputs, &lens, st, true);
        st.add(
            "guard_allocations",
            (guard::GUARD_ALLOCS.load(std::sync::atomic::Ordering::Relaxed) - g0) as u64,
        );
        if let Some(m) = r {
            // localise through the all-nodes-exported twin when needed
            let culprit = if export_all || m.culprit.is_empty() {
                m.culprit.clone()
            } else {
                let mut scratch = Stats::default();
                match compare(&base.export_all(), &inputs, &lens, &mut scratch, false) {
                    Some(m2) if !m2.culprit.is_empty() => m2.culprit,
                    _ => format!("unlocalised({})", m.culprit),
                }
            };
            st.violation(
                case,
                format!("jit_{}:{}", m.kind, culprit),
                format!("JIT {} evaluation disagrees with the interpreter (first bad node: {})", m.kind, culprit),
                json!({"kind": m.kind, "culprit": culprit, "detail": m.detail, "program": p.to_json()}),
            );
        }
    }
    fn finish(&self, st: &mut Stats, tier: Tier) {
        if st.get("native_tapes_with_spills") < tier.pick(500, 500) {
            st.inconclusive.push(format!(
                "only {} native tapes with spills",
                st.get("native_tapes_with_spills")
            ));
        }
        for len in 0..=MAX_LEN {
            if st.get(&format!("bulk_len_{len}")) == 0 {
                st.inconclusive.push(format!("bulk length {len} never run"));
            }
        }
        let seen = st
            .counters
            .keys()
            .filter(|k| k.starts_with("native_op_"))
            .count();
        st.add("native_regop_variants_seen", seen as u64);
        if seen < 53 {
            st.inconclusive
                .push(format!("only {seen} RegOp variants compiled natively"));
        }
        let cmp = st.get("comparisons_bitwise") + st.get("comparisons_zero_sign_exempt");
        let skipped = st.get("skipped_dependant_of_zero_tie_or_nan_hash");
        if skipped * 10 > cmp + skipped {
            st.inconclusive.push(format!(
                "zero-tie dependants skipped {skipped} of {} comparisons (>10%)",
                cmp + skipped
            ));
        }
    }
    fn rule(&self) -> String {
        "each case = one generated DAG (natural outputs or all nodes exported) compiled by the x86-64 JIT and the interpreter; 16 inputs incl. NaN/inf/+-0/denormals; JitPointEval and JitFloatSliceEval (fresh evaluator per call, lengths 0..=35, guard-paged inputs flush-to-end and flush-to-start, guard-page allocator on) compared per output bit-for-bit with VmPointEval (NaN~NaN; min/max of two zeros compared by value, their dependants skipped); runs in child processes so SIGSEGV/abort is attributed to the case; distinct = structural program hash".into()
    }
    fn assumptions(&self) -> Vec<String> {
        vec![
            "x86-64 assembler only (aarch64 code cannot execute here)".into(),
            "guard pages detect accesses outside mappings; in-bounds wrong-lane writes are visible only through the value oracle".into(),
        ]
    }
}
