//! C08 - meshes are closed, consistently oriented and enclose the shape's
//! volume. Oracle: independent mesh checks (directed-edge pairing, repeated
//! indices, finite coordinates), per-component orientation against an f64
//! dual-number gradient, signed volume against a Monte-Carlo estimate.
use crate::gen_::prog::Prog;
use crate::gen_::shape::{self, ShapeCfg};
use crate::monitor::child;
use crate::props::renderutil::*;
use crate::refmodel::dual::{self, D};
use crate::refmodel::graph;
use crate::refmodel::meshcheck::{self, Defect, V3};
use crate::util::{Rng, Stats, Tier, guarded};
use crate::{Mode, Prop};
use fidget_core::context::{Context, Node};
use fidget_core::eval::{BulkEvaluator, Function, MathFunction};
use fidget_core::render::{CancelToken, RenderHints};
use fidget_core::shape::Shape;
use fidget_core::var::Var;
use fidget_core::vm::VmFunction;
use fidget_jit::JitFunction;
use fidget_mesh::{Mesh, Octree, Settings};
use nalgebra::{Matrix4, Point3};
use serde_json::{Value, json};
use std::collections::HashMap;

pub struct C08;

pub struct MeshSetup {
    pub depth: u8,
    pub mat: Matrix4<f32>,
    pub jit: bool,
    pub pool: Option<usize>,
}

pub fn build_mesh<F: Function + MathFunction + RenderHints + Clone>(
    ctx: &Context,
    root: Node,
    su: &MeshSetup,
    cancel: CancelToken,
) -> Result<Option<Mesh>, String> {
    let shape = Shape::<F>::new(ctx, root).map_err(|_| "bad node".to_string())?;
    let bound = shape.try_into().map_err(|_| "free variables".to_string())?;
    let settings = Settings {
        depth: su.depth,
        world_to_model: su.mat,
        threads: su.pool.map(pool),
        cancel,
    };
    Ok(Octree::build(&bound, &settings).map(|o| o.walk_dual()))
}

/// Rigid motion + scale that keeps a surface inside the 0.62-ball inside the
/// unit region: model = M * world
pub fn random_mesh_mat(rng: &mut Rng) -> Matrix4<f32> {
    if rng.chance(0.35) {
        return Matrix4::identity();
    }
    // a skew axis, or (30%) exactly one of the coordinate axes - then with a
    // random angle or an exact quarter/half turn: matrices with a structure
    // (zeros, antisymmetric off-diagonal pairs) between "axis-aligned" and
    // "general"
    let principal = rng.chance(0.3);
    let axis = if principal {
        let mut a = nalgebra::Vector3::zeros();
        a[rng.below(3)] = if rng.chance(0.5) { 1.0 } else { -1.0 };
        nalgebra::Unit::new_normalize(a)
    } else {
        nalgebra::Unit::new_normalize(nalgebra::Vector3::new(
            rng.uniform(-1.0, 1.0) as f32,
            rng.uniform(-1.0, 1.0) as f32,
            rng.uniform(-1.0, 1.0) as f32 + 1e-3,
        ))
    };
    let angle = if principal && rng.chance(0.4) {
        *rng.pick(&[std::f32::consts::FRAC_PI_2, -std::f32::consts::FRAC_PI_2, std::f32::consts::PI, std::f32::consts::FRAC_PI_4])
    } else {
        rng.uniform(-3.1, 3.1) as f32
    };
    let rot = nalgebra::Rotation3::from_axis_angle(&axis, angle);
    // world cube [-1,1] -> model: scale >= 1 keeps the (model-space) shape
    // further inside the world region
    let s = rng.uniform(1.0, 1.3) as f32;
    let mut m = Matrix4::identity();
    for i in 0..3 {
        for j in 0..3 {
            m[(i, j)] = rot[(i, j)] * s;
        }
    }
    // shape extent 0.62 (model) -> world 0.62/s; translation (model units)
    // keeps |world| <= 0.9 : |t|/s + 0.62/s <= 0.9
    let room = (0.9 * s - 0.62 - 0.05).max(0.0) / 3f32.sqrt();
    for i in 0..3 {
        m[(i, 3)] = rng.uniform(-room as f64, room as f64) as f32;
    }
    m
}

/// f at many model-space points (interpreter, bulk)
fn eval_points(ctx: &Context, root: Node, pts: &[[f32; 3]]) -> Vec<f32> {
    let f = VmFunction::new(ctx, &[root]).unwrap();
    let tape = f.float_slice_tape(Default::default());
    let mut ev = VmFunction::new_float_slice_eval();
    let vmap = f.vars();
    if vmap.is_empty() {
        let v = ctx.eval(root, &HashMap::new()).unwrap();
        return vec![v; pts.len()];
    }
    let mut cols: Vec<Vec<f32>> = vec![Vec::with_capacity(pts.len()); vmap.len()];
    for (var, idx) in vmap.iter() {
        let k = match var {
            Var::X => 0,
            Var::Y => 1,
            Var::Z => 2,
            _ => 0,
        };
        cols[idx].extend(pts.iter().map(|p| p[k]));
    }
    ev.eval(&tape, &cols).unwrap()[0].to_vec()
}

/// Does the surface lie strictly inside the meshing region? (f > margin on a
/// sample of the region boundary, and f < 0 somewhere inside)
fn surface_inside(ctx: &Context, root: Node, m: &Matrix4<f32>) -> bool {
    let n = 20;
    let mut pts = vec![];
    for a in 0..=n {
        for b in 0..=n {
            let (u, v) = (-1.0 + 2.0 * a as f32 / n as f32, -1.0 + 2.0 * b as f32 / n as f32);
            for s in [-1.0f32, 1.0] {
                for w in [[s, u, v], [u, s, v], [u, v, s]] {
                    let q = m.transform_point(&Point3::new(w[0], w[1], w[2]));
                    pts.push([q.x, q.y, q.z]);
                }
            }
        }
    }
    let vals = eval_points(ctx, root, &pts);
    if !vals.iter().all(|v| *v > 0.05) {
        return false;
    }
    let c = m.transform_point(&Point3::new(0.0, 0.0, 0.0));
    let mut inner = vec![[c.x, c.y, c.z]];
    for a in 0..6 {
        for b in 0..6 {
            for cc in 0..6 {
                let w = [-0.8 + 0.32 * a as f32, -0.8 + 0.32 * b as f32, -0.8 + 0.32 * cc as f32];
                let q = m.transform_point(&Point3::new(w[0], w[1], w[2]));
                inner.push([q.x, q.y, q.z]);
            }
        }
    }
    eval_points(ctx, root, &inner).iter().any(|v| *v < -0.02)
}

pub fn check_mesh(
    ctx: &Context,
    root: Node,
    mesh: &Mesh,
    su: &MeshSetup,
    rng: &mut Rng,
    volume_check: bool,
    st: &mut Stats,
) -> Option<(String, String, Value)> {
    let verts: Vec<V3> = mesh.vertices.iter().map(|v| [v.x as f64, v.y as f64, v.z as f64]).collect();
    let tris: Vec<[usize; 3]> = mesh.triangles.iter().map(|t| [t.x, t.y, t.z]).collect();
    let rep = meshcheck::check(&verts, &tris);
    st.add("triangles", tris.len() as u64);
    st.inc("meshes_checked");
    if tris.is_empty() {
        st.inc("meshes_empty");
    }
    let inv = su.mat.try_inverse();
    if let Some(d) = rep.defects.first() {
        let (sig, msg) = match d {
            Defect::NonFinite { vertex } => ("nonfinite_vertex".to_string(), format!("vertex {vertex} has a non-finite coordinate")),
            Defect::IndexOutOfRange { triangle } => ("index_out_of_range".to_string(), format!("triangle {triangle} refers to a missing vertex")),
            Defect::RepeatedIndex { triangle } => ("degenerate_triangle".to_string(), format!("triangle {triangle} repeats a vertex index")),
            Defect::EdgeCounts { a, b, fwd, rev, apexes } => {
                // geometric class of the offending edge: the known
                // ambiguous-face pattern has multiplicity 2/2 and all four
                // apexes on one axis-aligned grid plane (in world space)
                let world = |i: usize| -> [f64; 3] {
                    let v = mesh.vertices[i];
                    match inv {
                        Some(inv) => {
                            let q = inv.transform_point(&Point3::new(v.x, v.y, v.z));
                            [q.x as f64, q.y as f64, q.z as f64]
                        }
                        None => [v.x as f64, v.y as f64, v.z as f64],
                    }
                };
                let ap: Vec<[f64; 3]> = apexes.iter().map(|i| world(*i)).collect();
                let coplanar_axis = (0..3).any(|k| {
                    let lo = ap.iter().map(|p| p[k]).fold(f64::MAX, f64::min);
                    let hi = ap.iter().map(|p| p[k]).fold(f64::MIN, f64::max);
                    hi - lo < 1e-4
                });
                let class = if *fwd == 2 && *rev == 2 && ap.len() == 4 && coplanar_axis {
                    "ambiguous_face_dual_edge".to_string()
                } else if *fwd + *rev == 1 {
                    "unpaired_edge".to_string()
                } else {
                    format!("edge_multiplicity_{fwd}_{rev}")
                };
                (format!("nonmanifold:{class}"), format!("directed edge ({a},{b}) occurs {fwd} time(s) and its reverse {rev} time(s)"))
            }
        };
        return Some((sig, msg, json!({"depth": su.depth, "backend": if su.jit { "jit" } else { "vm" }, "world_to_model": format!("{:?}", su.mat),
            "triangles": tris.len(), "defects": rep.defects.len()})));
    }
    if tris.is_empty() {
        // an empty mesh is fine when the solid is thinner than the cells; it
        // is not when some point lies deeper inside the solid than 1.5 cells
        // (the CSG fields are 1-Lipschitz, so a ball of that radius is
        // inside and contains a cell corner)
        if volume_check {
            let s_max = (0..3)
                .map(|j| (0..3).map(|i| (su.mat[(i, j)] as f64).powi(2)).sum::<f64>().sqrt())
                .fold(0f64, f64::max);
            let h = 2.0 / (1u32 << su.depth) as f64 * s_max;
            let n = 20_000usize;
            let pts: Vec<[f32; 3]> = (0..n)
                .map(|_| {
                    let w = [rng.uniform(-0.95, 0.95) as f32, rng.uniform(-0.95, 0.95) as f32, rng.uniform(-0.95, 0.95) as f32];
                    let q = su.mat.transform_point(&Point3::new(w[0], w[1], w[2]));
                    [q.x, q.y, q.z]
                })
                .collect();
            let vals = eval_points(ctx, root, &pts);
            st.inc("empty_meshes_judged");
            if let Some(k) = vals.iter().position(|v| (*v as f64) < -1.5 * h) {
                return Some(("empty_mesh".into(),
                    format!("the mesh is empty although the shape is {:.3} deep at {:?} (cell size {:.4})", -vals[k], pts[k], h),
                    json!({"depth": su.depth, "backend": if su.jit { "jit" } else { "vm" }, "world_to_model": format!("{:?}", su.mat), "threads": su.pool.map(|i| POOL_SIZES[i % POOL_SIZES.len()])})));
            }
        }
        return None;
    }
    st.inc("meshes_closed_manifold");
    // ---- orientation per connected component
    let order = graph::topo(ctx, &[root]);
    let mut score = vec![0f64; rep.n_components];
    let mut tot = vec![0f64; rep.n_components];
    // signed volume and total area per component (thickness = 2|V|/A)
    let mut cvol = vec![0f64; rep.n_components];
    let mut carea = vec![0f64; rep.n_components];
    for t in &tris {
        let (a, b, c) = (verts[t[0]], verts[t[1]], verts[t[2]]);
        let n = meshcheck::cross(meshcheck::sub(b, a), meshcheck::sub(c, a));
        let area = meshcheck::dot(n, n).sqrt() / 2.0;
        cvol[rep.component[t[0]]] += meshcheck::dot(a, meshcheck::cross(b, c)) / 6.0;
        carea[rep.component[t[0]]] += area;
        if area < 1e-12 {
            continue;
        }
        let cen = [(a[0] + b[0] + c[0]) / 3.0, (a[1] + b[1] + c[1]) / 3.0, (a[2] + b[2] + c[2]) / 3.0];
        let inputs: HashMap<Var, D> = [
            (Var::X, D { v: cen[0], d: [1.0, 0.0, 0.0] }),
            (Var::Y, D { v: cen[1], d: [0.0, 1.0, 0.0] }),
            (Var::Z, D { v: cen[2], d: [0.0, 0.0, 1.0] }),
        ]
        .into_iter()
        .collect();
        let (g, skip) = dual::eval_graph_dual(ctx, &order, &inputs)[&root];
        if skip || !g.d.iter().all(|x| x.is_finite()) {
            continue;
        }
        let comp = rep.component[t[0]];
        let s = meshcheck::dot(n, g.d);
        if s != 0.0 {
            score[comp] += area * s.signum();
            tot[comp] += area;
        }
    }
    if std::env::var("FV_DEBUG").is_ok() {
        for c in 0..rep.n_components {
            let vs: Vec<[f64; 3]> = (0..verts.len()).filter(|i| rep.component[*i] == c).map(|i| verts[i]).collect();
            let mut lo = [f64::MAX; 3];
            let mut hi = [f64::MIN; 3];
            for v in &vs {
                for k in 0..3 {
                    lo[k] = lo[k].min(v[k]);
                    hi[k] = hi[k].max(v[k]);
                }
            }
            let nt = tris.iter().filter(|t| rep.component[t[0]] == c).count();
            eprintln!("component {c}: {} vertices, {nt} triangles, judged area {:.5}, score {:.5}, volume {:.6}, area {:.5}, bbox {lo:?} .. {hi:?}", vs.len(), tot[c], score[c], cvol[c], carea[c]);
        }
    }
    st.add("components", rep.n_components as u64);
    // (judged only when the grid resolves the generator's features: on a
    // coarser grid the centroid of a triangle is far from the surface and the
    // gradient there says nothing about the triangle)
    for c in 0..rep.n_components {
        if tot[c] > 0.0 {
            st.max("min_component_agreement_neg", -(score[c] / tot[c]));
        }
        // CSG intersections create arbitrarily thin slivers whatever the
        // primitives' sizes: only components of substantial area (>= 100
        // cells' worth) with a decisive verdict are judged
        let s_max = (0..3)
            .map(|j| (0..3).map(|i| (su.mat[(i, j)] as f64).powi(2)).sum::<f64>().sqrt())
            .fold(0f64, f64::max);
        let h = 2.0 / (1u32 << su.depth) as f64 * s_max;
        // ... and of substantial thickness: a sheet thinner than a cell
        // (2|V|/A < h, e.g. what is left of a torus after a cylinder that
        // almost fills its hole was subtracted: area 0.16, volume 0.0007) has
        // its two faces inside the same cells, and neither the mesh nor the
        // gradient at a centroid says which face is which
        let thick = carea[c] > 0.0 && 2.0 * cvol[c].abs() / carea[c] >= h;
        if volume_check && tot[c] >= 100.0 * h * h && !thick {
            st.inc("components_not_judged_thinner_than_a_cell");
        }
        if volume_check && tot[c] >= 100.0 * h * h && thick {
            st.inc("components_judged_for_orientation");
        }
        if volume_check && tot[c] >= 100.0 * h * h && thick && score[c] < -0.5 * tot[c] {
            return Some(("orientation:inward_component".into(),
                format!("a connected component is wound inward (area-weighted agreement {:.2})", score[c] / tot[c]),
                json!({"depth": su.depth, "backend": if su.jit { "jit" } else { "vm" }, "world_to_model": format!("{:?}", su.mat), "component": c})));
        }
    }
    // ---- volume
    if volume_check {
        let n = 120_000usize;
        let mut pts = Vec::with_capacity(n);
        for _ in 0..n {
            let w = [rng.uniform(-1.0, 1.0) as f32, rng.uniform(-1.0, 1.0) as f32, rng.uniform(-1.0, 1.0) as f32];
            let q = su.mat.transform_point(&Point3::new(w[0], w[1], w[2]));
            pts.push([q.x, q.y, q.z]);
        }
        let vals = eval_points(ctx, root, &pts);
        let frac = vals.iter().filter(|v| **v < 0.0).count() as f64 / n as f64;
        let det = su.mat.fixed_view::<3, 3>(0, 0).determinant().abs() as f64;
        let region = 8.0 * det;
        let v_ref = frac * region;
        let sigma = region * (frac * (1.0 - frac) / n as f64).sqrt();
        let s_max = (0..3)
            .map(|j| (0..3).map(|i| (su.mat[(i, j)] as f64).powi(2)).sum::<f64>().sqrt())
            .fold(0f64, f64::max);
        let h = 2.0 / (1u32 << su.depth) as f64 * s_max;
        let tol = 0.4 * h * rep.area + 4.0 * sigma + 1e-6;
        st.inc("volumes_compared");
        st.max("max_volume_error_over_tolerance", (rep.volume - v_ref).abs() / tol);
        if (rep.volume - v_ref).abs() > tol {
            return Some(("volume".into(),
                format!("mesh encloses signed volume {:.5} but the shape's negative region measures {:.5} (tolerance {:.5}, cell size {:.4}, area {:.3})", rep.volume, v_ref, tol, h, rep.area),
                json!({"depth": su.depth, "backend": if su.jit { "jit" } else { "vm" }, "world_to_model": format!("{:?}", su.mat)})));
        }
    }
    None
}

/// Big axis-aligned boxes (flat faces, exact sharp edges): whole coarse cells
/// collapse, including the top-level cells that the multi-threaded builder
/// merges in its serial fix-up pass. Paired with scale+translate transforms,
/// under which the boxes stay axis-aligned in world space.
fn big_box_scene(rng: &mut Rng) -> Prog {
    use crate::gen_::shape::B;
    let mut b = B::new();
    let (x, y, z) = (b.var(0), b.var(1), b.var(2));
    let one = |b: &mut B, rng: &mut Rng| {
        let c = [rng.uniform(-0.15, 0.15) as f32, rng.uniform(-0.15, 0.15) as f32, rng.uniform(-0.15, 0.15) as f32];
        let h = [rng.uniform(0.3, 0.55) as f32, rng.uniform(0.3, 0.55) as f32, rng.uniform(0.3, 0.55) as f32];
        let mut m = None;
        for (k, v) in [x, y, z].into_iter().enumerate() {
            let t = b.subc(v, c[k]);
            let a = b.abs(t);
            let d = b.subc(a, h[k]);
            m = Some(match m {
                None => d,
                Some(p) => b.max(p, d),
            });
        }
        m.unwrap()
    };
    let a = one(&mut b, rng);
    let root = match rng.below(3) {
        0 => a,
        1 => {
            let c = one(&mut b, rng);
            b.min(a, c)
        }
        _ => {
            let c = one(&mut b, rng);
            let n = b.un(crate::gen_::prog::Un::Neg, c);
            b.max(a, n)
        }
    };
    Prog { nodes: b.nodes, n_vars: 3, outputs: vec![root] }
}

/// Grid-aligned scenes: faces on dyadic coordinates (cell corners of the
/// octree evaluate to exactly 0 there), solids of revolution about a grid
/// line (the gradient of sqrt(x^2+y^2) is NaN on the axis, where cell edges
/// cross the surface), dyadic sizes
fn aligned_scene(rng: &mut Rng) -> Prog {
    use crate::gen_::shape::B;
    let mut b = B::new();
    let (x, y, z) = (b.var(0), b.var(1), b.var(2));
    let one = |b: &mut B, rng: &mut Rng| -> u32 {
        let off = |rng: &mut Rng| *rng.pick(&[0.0f32, 0.0, 0.125, -0.125, 0.25, -0.25]);
        let size = |rng: &mut Rng| *rng.pick(&[0.25f32, 0.375, 0.5]);
        let (cx, cy, cz) = (off(rng), off(rng), off(rng));
        let (tx, ty, tz) = (b.subc(x, cx), b.subc(y, cy), b.subc(z, cz));
        match rng.below(4) {
            0 => {
                // box
                let mut m = None;
                for t in [tx, ty, tz] {
                    let a = b.abs(t);
                    let d = b.subc(a, size(rng));
                    m = Some(match m {
                        None => d,
                        Some(p) => b.max(p, d),
                    });
                }
                m.unwrap()
            }
            1 => {
                // ball as a solid of revolution
                let (sx, sy, sz) = (b.sq(tx), b.sq(ty), b.sq(tz));
                let r2 = b.add(sx, sy);
                let r = b.sqrt(r2);
                let rr = b.sq(r);
                let s = b.add(rr, sz);
                let d = b.sqrt(s);
                b.subc(d, size(rng))
            }
            2 => {
                // torus about the z axis
                let (sx, sy, sz) = (b.sq(tx), b.sq(ty), b.sq(tz));
                let r2 = b.add(sx, sy);
                let r = b.sqrt(r2);
                let q = b.subc(r, 0.375);
                let q2 = b.sq(q);
                let s = b.add(q2, sz);
                let d = b.sqrt(s);
                b.subc(d, *rng.pick(&[0.125f32, 0.1875]))
            }
            _ => {
                // capped cylinder about the z axis
                let (sx, sy) = (b.sq(tx), b.sq(ty));
                let r2 = b.add(sx, sy);
                let r = b.sqrt(r2);
                let side = b.subc(r, size(rng));
                let az = b.abs(tz);
                let cap = b.subc(az, size(rng));
                b.max(side, cap)
            }
        }
    };
    let a = one(&mut b, rng);
    let root = match rng.below(4) {
        0 | 1 => a,
        2 => {
            let c = one(&mut b, rng);
            b.min(a, c)
        }
        _ => {
            let c = one(&mut b, rng);
            let n = b.un(crate::gen_::prog::Un::Neg, c);
            b.max(a, n)
        }
    };
    Prog { nodes: b.nodes, n_vars: 3, outputs: vec![root] }
}

/// identity, or a dyadic scale with a dyadic translation
fn dyadic_mat(rng: &mut Rng) -> Matrix4<f32> {
    let mut m = Matrix4::identity();
    if rng.chance(0.5) {
        return m;
    }
    let s = *rng.pick(&[1.0f32, 1.25, 1.5, 2.0]);
    for i in 0..3 {
        m[(i, i)] = s;
        m[(i, 3)] = *rng.pick(&[0.0f32, 0.0, 0.125, -0.125]);
    }
    m
}

fn scale_translate_mat(rng: &mut Rng) -> Matrix4<f32> {
    let mut m = Matrix4::identity();
    for i in 0..3 {
        m[(i, i)] = rng.uniform(1.0, 1.5) as f32 * if rng.chance(0.2) { -1.0 } else { 1.0 };
        m[(i, 3)] = rng.uniform(-0.2, 0.2) as f32;
    }
    m
}

fn check_prog(p: &Prog, seed: u64, tier: Tier, st: &mut Stats, off: [f32; 3]) -> Option<(String, String, Value)> {
    check_prog__(p, seed, tier, st, 0, off)
}

fn check_prog_(p: &Prog, seed: u64, tier: Tier, st: &mut Stats, view: u8) -> Option<(String, String, Value)> {
    check_prog__(p, seed, tier, st, view, [0.0; 3])
}

/// `view`: 0 = random rigid + scale, 1 = scale/translate/mirror, 2 = dyadic
/// `off`: the scene lives around this model-space position (see
/// `shape::shift`); the view looks at it
fn check_prog__(p: &Prog, seed: u64, tier: Tier, st: &mut Stats, view: u8, off: [f32; 3]) -> Option<(String, String, Value)> {
    let mut rng = Rng::new(seed);
    let rng = &mut rng;
    let max_depth = tier.pick(5, 6);
    let su = MeshSetup {
        depth: if rng.chance(0.45) { max_depth as u8 } else { 1 + rng.below(max_depth) as u8 },
        mat: {
            let mut m = match view {
                1 => scale_translate_mat(rng),
                2 => dyadic_mat(rng),
                _ => random_mesh_mat(rng),
            };
            for i in 0..3 {
                m[(i, 3)] += off[i];
            }
            m
        },
        jit: rng.chance(0.5),
        pool: if rng.chance(0.5) { None } else { Some(rng.below(POOL_SIZES.len())) },
    };
    check_with_setup(p, &su, rng, st)
}

/// Parses the `Debug` rendering of a nalgebra matrix ("[[c0r0, c0r1, ..], [c1r0, ..], ..]",
/// column by column)
pub fn parse_mat4(s: &str) -> Option<Matrix4<f32>> {
    let nums: Vec<f32> = s
        .split(|c: char| c == '[' || c == ']' || c == ',' || c.is_whitespace())
        .filter(|t| !t.is_empty())
        .map(|t| t.parse::<f32>())
        .collect::<Result<_, _>>()
        .ok()?;
    if nums.len() != 16 {
        return None;
    }
    Some(Matrix4::from_column_slice(&nums))
}

fn check_with_setup(p: &Prog, su: &MeshSetup, rng: &mut Rng, st: &mut Stats) -> Option<(String, String, Value)> {
    let b = p.build();
    let root = built_root(p, &b);
    if !surface_inside(&b.ctx, root, &su.mat) {
        st.inc("scenes_rejected_surface_not_inside");
        return None;
    }
    st.inc(&format!("depth_{}", su.depth));
    child::note(&format!("C08 mesh build depth={} | {}", su.depth, if su.jit { "jit" } else { "vm" }));
    let r = guarded(|| {
        if su.jit {
            build_mesh::<JitFunction>(&b.ctx, root, &su, CancelToken::new())
        } else {
            build_mesh::<VmFunction>(&b.ctx, root, &su, CancelToken::new())
        }
    });
    let setup = json!({"depth": su.depth, "backend": if su.jit { "jit" } else { "vm" }, "world_to_model": format!("{:?}", su.mat), "threads": su.pool.map(|i| POOL_SIZES[i % POOL_SIZES.len()])});
    let mesh = match r {
        Ok(Ok(Some(m))) => m,
        Ok(Ok(None)) => return Some(("none_without_cancel".into(), "meshing returned None although the token was never cancelled".into(), setup)),
        Ok(Err(e)) => return Some(("mesh_error".into(), e, setup)),
        Err(pi) => return Some((format!("panic:{}:{}", pi.site(), pi.msg_class()), format!("meshing panicked at {}: {}", pi.site(), pi.msg), setup)),
    };
    // features are >= 0.2 in model units; the cell size must be <= a third
    let s_max = (0..3)
        .map(|j| (0..3).map(|i| (su.mat[(i, j)] as f64).powi(2)).sum::<f64>().sqrt())
        .fold(0f64, f64::max);
    let h = 2.0 / (1u32 << su.depth) as f64 * s_max;
    let volume_check = 3.0 * h <= 0.25;
    check_mesh(&b.ctx, root, &mesh, &su, rng, volume_check, st)
}

impl Prop for C08 {
    fn id(&self) -> &'static str {
        "C08"
    }
    fn mode(&self) -> Mode {
        Mode::Children
    }
    fn n_cases(&self, tier: Tier) -> u64 {
        tier.pick(5000, 100_000)
    }
    fn time_cap_s(&self, tier: Tier) -> u64 {
        tier.pick(110, 1500)
    }
    fn run_case(&self, case: u64, rng: &mut Rng, st: &mut Stats, tier: Tier) {
        if case % 5 == 3 {
            let p = aligned_scene(rng);
            st.distinct(p.hash());
            st.inc("scenes_grid_aligned");
            let seed = rng.next_u64();
            if let Some((sig, msg, detail)) = check_prog_(&p, seed, tier, st, 2) {
                st.violation(case, sig, msg, json!({"detail": detail, "shape": p.to_json(), "check_seed": seed.to_string()}));
            }
            return;
        }
        if case % 5 == 4 {
            let p = big_box_scene(rng);
            st.distinct(p.hash());
            st.inc("scenes_big_axis_aligned_boxes");
            let seed = rng.next_u64();
            if let Some((sig, msg, detail)) = check_prog_(&p, seed, tier, st, 1) {
                st.violation(case, sig, msg, json!({"detail": detail, "shape": p.to_json(), "check_seed": seed.to_string()}));
            }
            return;
        }
        let mut cfg = ShapeCfg::mesh();
        cfg.min_feature = 0.25;
        cfg.max_depth = 1 + rng.below(3);
        let mut p = shape::generate(rng, &cfg);
        // one scene in ten is divided by a field that is identically 2 but
        // whose *interval* contains zero over large cells (dependency
        // over-estimation: xy - (y+x)x + xx): the quotient's interval is NaN
        // there - undecided, not empty - and the surface is unchanged
        if rng.chance(0.1) {
            use crate::gen_::prog::{Bin, PNode};
            let mut push = |n: PNode| {
                p.nodes.push(n);
                (p.nodes.len() - 1) as u32
            };
            let (x, y) = (push(PNode::Var(0)), push(PNode::Var(1)));
            let xy = push(PNode::Bin(Bin::Mul, x, y));
            let ypx = push(PNode::Bin(Bin::Add, y, x));
            let t = push(PNode::Bin(Bin::Mul, ypx, x));
            let xx = push(PNode::Bin(Bin::Mul, x, x));
            let a = push(PNode::Bin(Bin::Sub, xy, t));
            let b = push(PNode::Bin(Bin::Add, a, xx));
            let two = push(PNode::Const(2.0));
            let d = push(PNode::Bin(Bin::Add, two, b));
            let old = p.outputs[0];
            let root = push(PNode::Bin(Bin::Div, old, d));
            p.outputs = vec![root];
            st.inc("scenes_with_nan_intervals_over_large_cells");
        }
        // one scene in ten is a truncated field, max(f, -c): the same solid,
        // but flat (zero gradient) a little below the surface - a field
        // that is no distance bound
        if rng.chance(0.1) {
            use crate::gen_::prog::{Bin, PNode};
            let c = -(rng.uniform(0.02, 0.1) as f32);
            p.nodes.push(PNode::Const(c));
            let k = (p.nodes.len() - 1) as u32;
            let old = p.outputs[0];
            p.nodes.push(PNode::Bin(Bin::Max, old, k));
            p.outputs = vec![(p.nodes.len() - 1) as u32];
            st.inc("scenes_with_truncated_field");
        }
        // one scene in eight lives a few units away from the model origin
        // (a part of a larger model), and the view looks at it there
        let mut off = [0f32; 3];
        if rng.chance(0.125) {
            let dir = loop {
                let v = [rng.uniform(-1.0, 1.0), rng.uniform(-1.0, 1.0), rng.uniform(-1.0, 1.0)];
                let n = (v[0] * v[0] + v[1] * v[1] + v[2] * v[2]).sqrt();
                if n > 0.2 && n <= 1.0 {
                    break [v[0] / n, v[1] / n, v[2] / n];
                }
            };
            let r = rng.uniform(1.5, 6.0);
            off = [(dir[0] * r) as f32, (dir[1] * r) as f32, (dir[2] * r) as f32];
            p = shape::shift(&p, off);
            st.inc("scenes_away_from_the_model_origin");
        }
        st.distinct(p.hash());
        st.sample(|| json!({"shape": p.to_json()}));
        let seed = rng.next_u64();
        if let Some((sig, msg, detail)) = check_prog(&p, seed, tier, st, off) {
            let mut scratch = Stats::default();
            let sig0 = sig.clone();
            let small = crate::gen_::shrink::shrink(
                &p,
                &mut |q: &Prog| matches!(guarded(|| check_prog(q, seed, tier, &mut scratch, off)), Ok(Some((s, _, _))) if s == sig0),
                40,
            );
            if let Some((s2, m2, d2)) = check_prog(&small, seed, tier, &mut scratch, off) {
                if s2 == sig {
                    st.violation(case, s2, m2, json!({"detail": d2, "shape": small.to_json(), "check_seed": seed.to_string()}));
                    return;
                }
            }
            st.violation(case, sig, msg, json!({"detail": detail, "shape": p.to_json(), "check_seed": seed.to_string()}));
        }
    }
    fn replay_detail(&self, replay: &Value, st: &mut Stats) -> bool {
        let d = &replay["detail"];
        let (Some(p), Some(mat)) = (Prog::from_json(&d["shape"]), d["detail"]["world_to_model"].as_str().and_then(parse_mat4)) else {
            return false;
        };
        let Some(depth) = d["detail"]["depth"].as_u64() else { return false };
        let pool = d["detail"]["threads"].as_u64().and_then(|t| POOL_SIZES.iter().position(|s| *s as u64 == t));
        let su = MeshSetup { depth: depth as u8, mat, jit: d["detail"]["backend"].as_str() == Some("jit"), pool };
        let seed = d["check_seed"].as_str().and_then(|s| s.parse::<u64>().ok()).unwrap_or(1);
        // the sampling of the mesh checks is random: try a few streams
        for k in 0..4 {
            let mut rng = Rng::new(seed ^ k);
            if let Some((sig, msg, detail)) = check_with_setup(&p, &su, &mut rng, st) {
                st.violation(replay["case"].as_u64().unwrap_or(0), sig, msg, json!({"detail": detail, "shape": p.to_json()}));
                break;
            }
        }
        true
    }
    fn finish(&self, st: &mut Stats, tier: Tier) {
        for d in 1..=tier.pick(5, 6) {
            if st.get(&format!("depth_{d}")) < 20 {
                st.inconclusive.push(format!("fewer than 20 meshes at depth {d}"));
            }
        }
        if st.get("meshes_closed_manifold") < 300 {
            st.inconclusive.push(format!("only {} non-empty closed meshes", st.get("meshes_closed_manifold")));
        }
        if st.get("volumes_compared") < 300 {
            st.inconclusive.push(format!("only {} volume comparisons", st.get("volumes_compared")));
        }
    }
    fn rule(&self) -> String {
        "each case = one CSG scene (unions/intersections/differences of spheres, boxes, cylinders, tori, rounded boxes; features >= 0.25) accepted only if the shape is positive on a sample of the region boundary and negative somewhere inside; meshed once at depth 1..5 (6 in thorough) with a random rigid+scale world_to_model, VM or JIT, no pool or 1..16 threads; mesh checked for directed-edge pairing, repeated indices, finite coordinates, per-component outward winding (against an f64 dual-number gradient at triangle centroids) and, when the cell size is <= a third of the smallest feature, signed volume against a 120k-point Monte-Carlo estimate (tolerance 0.4*h*area + 4 sigma); distinct = scene hash".into()
    }
    fn assumptions(&self) -> Vec<String> {
        vec![
            "'degenerate' = repeated vertex index; zero-area slivers are legal in dual contouring".into(),
            "volume is judged only when the cell size is at most a third of the generator's smallest feature".into(),
            "orientation is judged per connected component of at least 100 cells' area and at least one cell's thickness (2|V|/A >= h), with a decisive area-weighted verdict (< -0.5)".into(),
        ]
    }
}
