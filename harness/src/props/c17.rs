//! C17 - scripts build the same expressions as the Rust API.
//!
//! A grammar-driven generator emits, in lock-step, (i) the text of a Rhai
//! script and (ii) the `Tree` that the *corresponding Rust calls* build
//! (`fidget_core::context::Tree` operators / methods and the `fidget_shapes`
//! structs converted with `Tree::from`).  The script is run through the real
//! engine (`fidget_rhai::engine().eval::<Tree>`) and the two trees are compared
//! with the structural `Tree == Tree`.
//!
//! The expectations (which script function is the namesake of which Rust
//! call, operand order, number -> constant, array -> union, field defaults,
//! vec2 -> vec3 default z, axis / plane names) are written here from the
//! crate documentation of `fidget-rhai` and the field documentation of
//! `fidget-shapes`; nothing of `fidget_rhai` except the engine is called.
//!
//! Three kinds of scripts per case:
//!  * a random multi-statement script (only call forms that the documentation
//!    promises *and* that are mutually composable),
//!  * a small *focus* script selected round-robin from the full table
//!    operator x operand form / function x call style / shape x call form, so
//!    that every combination is observed many times in every run,
//!  * a comparison (`== != < > <= >=`) with a tree on either side, which must
//!    be rejected with an error.
use crate::util::{PanicInfo, Rng, Stats, Tier, guarded, hash_str};
use crate::{Mode, Prop};
use fidget_core::context::Tree;
use fidget_shapes as fs;
use fidget_shapes::types::{Axis, Plane, Vec2, Vec3};
use serde_json::json;
use std::any::Any;
use std::cell::{Cell, RefCell};

pub struct C17;

////////////////////////////////////////////////////////////////////////////////
// Engine access.  The harness does not depend on `rhai` directly, so the
// engine type is only ever named through inference (`fn() -> E`).

thread_local! {
    static ENGINE: RefCell<Option<Box<dyn Any>>> = const { RefCell::new(None) };
    static ENGINE_USES: Cell<u32> = const { Cell::new(0) };
}

/// Runs `f` on this thread's engine (created on first use, re-created every
/// 4096 uses so that registration itself is exercised more than once)
fn with_engine<E: 'static, R>(make: fn() -> E, f: impl FnOnce(&E) -> R) -> R {
    ENGINE.with(|slot| {
        let mut slot = slot.borrow_mut();
        let uses = ENGINE_USES.with(|u| {
            let v = u.get();
            u.set(v.wrapping_add(1));
            v
        });
        if uses % 4096 == 0 {
            *slot = None;
        }
        if slot.is_none() {
            *slot = Some(Box::new(make()));
        }
        let e = slot
            .as_ref()
            .unwrap()
            .downcast_ref::<E>()
            .expect("engine type");
        f(e)
    })
}

fn drop_engine() {
    ENGINE.with(|s| {
        if let Ok(mut s) = s.try_borrow_mut() {
            *s = None;
        }
    });
}

enum Ev {
    Tree(Tree),
    Err(String),
    Panic(PanicInfo),
}

/// `engine.eval::<Tree>(script)`
fn eval_tree(script: &str) -> Ev {
    let r = guarded(|| {
        with_engine(fidget_rhai::engine, |e| {
            e.eval::<Tree>(script).map_err(|e| e.to_string())
        })
    });
    match r {
        Ok(Ok(t)) => Ev::Tree(t),
        Ok(Err(e)) => Ev::Err(e),
        Err(pi) => {
            drop_engine();
            Ev::Panic(pi)
        }
    }
}

/// `engine.run(script)` (result value of any type is discarded)
fn run_unit(script: &str) -> Result<Result<(), String>, PanicInfo> {
    let r = guarded(|| {
        with_engine(fidget_rhai::engine, |e| {
            e.run(script).map_err(|e| e.to_string())
        })
    });
    if r.is_err() {
        drop_engine();
    }
    r
}

////////////////////////////////////////////////////////////////////////////////
// Operator / function tables (script name -> Rust namesake)

/// (Rust name, infix symbol or script function name, is infix, precedence)
const BIN_OPS: [(&str, &str, bool, u8); 12] = [
    ("add", "+", true, 0),
    ("sub", "-", true, 0),
    ("mul", "*", true, 1),
    ("div", "/", true, 1),
    ("modulo", "%", true, 1),
    ("min", "min", false, 4),
    ("max", "max", false, 4),
    ("compare", "compare", false, 4),
    ("mix", "mix", false, 4),
    ("and", "and", false, 4),
    ("or", "or", false, 4),
    ("atan2", "atan2", false, 4),
];

fn apply_bin(name: &str, a: Tree, b: Tree) -> Tree {
    match name {
        "add" => a + b,
        "sub" => a - b,
        "mul" => a * b,
        "div" => a / b,
        "modulo" => a.modulo(b),
        "min" => a.min(b),
        "max" => a.max(b),
        "compare" => a.compare(b),
        "mix" => a.mix(b),
        "and" => a.and(b),
        "or" => a.or(b),
        "atan2" => a.atan2(b),
        _ => unreachable!("binary {name}"),
    }
}

const UN_OPS: [&str; 17] = [
    "abs", "sqrt", "square", "sin", "cos", "tan", "asin", "acos", "atan",
    "exp", "ln", "not", "rand", "ceil", "floor", "round", "neg",
];

fn apply_un(name: &str, a: Tree) -> Tree {
    match name {
        "abs" => a.abs(),
        "sqrt" => a.sqrt(),
        "square" => a.square(),
        "sin" => a.sin(),
        "cos" => a.cos(),
        "tan" => a.tan(),
        "asin" => a.asin(),
        "acos" => a.acos(),
        "atan" => a.atan(),
        "exp" => a.exp(),
        "ln" => a.ln(),
        "not" => a.not(),
        "rand" => a.rand(),
        "ceil" => a.ceil(),
        "floor" => a.floor(),
        "round" => a.round(),
        "neg" => -a,
        _ => unreachable!("unary {name}"),
    }
}

/// Operand forms of a binary operator / function.  T = tree expression,
/// I = integer literal, F = float literal, V = number held in a variable or
/// named constant, A = array of trees (must coerce to their union)
#[derive(Copy, Clone, PartialEq, Eq, Debug)]
enum Form {
    TT,
    TI,
    TF,
    TV,
    IT,
    FT,
    VT,
    TA,
    AT,
}
const FORMS: [Form; 9] = [
    Form::TT,
    Form::TI,
    Form::TF,
    Form::TV,
    Form::IT,
    Form::FT,
    Form::VT,
    Form::TA,
    Form::AT,
];
impl Form {
    fn name(&self) -> &'static str {
        match self {
            Form::TT => "tree_tree",
            Form::TI => "tree_int",
            Form::TF => "tree_float",
            Form::TV => "tree_numvar",
            Form::IT => "int_tree",
            Form::FT => "float_tree",
            Form::VT => "numvar_tree",
            Form::TA => "tree_array",
            Form::AT => "array_tree",
        }
    }
    fn sides(&self) -> (char, char) {
        match self {
            Form::TT => ('T', 'T'),
            Form::TI => ('T', 'I'),
            Form::TF => ('T', 'F'),
            Form::TV => ('T', 'V'),
            Form::IT => ('I', 'T'),
            Form::FT => ('F', 'T'),
            Form::VT => ('V', 'T'),
            Form::TA => ('T', 'A'),
            Form::AT => ('A', 'T'),
        }
    }
}

const CMP_OPS: [&str; 6] = ["==", "!=", "<", ">", "<=", ">="];
const CMP_FORMS: [Form; 7] = [
    Form::TT,
    Form::TI,
    Form::TF,
    Form::TV,
    Form::IT,
    Form::FT,
    Form::VT,
];

/// Named constants documented in `fidget_rhai` (values from the documentation:
/// the `std::f64::consts` namesakes, golden ratio)
const NAMED: [(&str, f64); 19] = [
    ("PI", std::f64::consts::PI),
    ("E", std::f64::consts::E),
    ("TAU", std::f64::consts::TAU),
    ("SQRT_2", std::f64::consts::SQRT_2),
    ("LN_2", std::f64::consts::LN_2),
    ("LN_10", std::f64::consts::LN_10),
    ("LOG2_E", std::f64::consts::LOG2_E),
    ("LOG10_E", std::f64::consts::LOG10_E),
    ("FRAC_PI_2", std::f64::consts::FRAC_PI_2),
    ("FRAC_PI_3", std::f64::consts::FRAC_PI_3),
    ("FRAC_PI_4", std::f64::consts::FRAC_PI_4),
    ("FRAC_PI_6", std::f64::consts::FRAC_PI_6),
    ("FRAC_PI_8", std::f64::consts::FRAC_PI_8),
    ("FRAC_1_PI", std::f64::consts::FRAC_1_PI),
    ("FRAC_2_PI", std::f64::consts::FRAC_2_PI),
    ("FRAC_2_SQRT_PI", std::f64::consts::FRAC_2_SQRT_PI),
    ("PHI", 1.618033988749895),
    ("GOLDEN_RATIO", 1.618033988749895),
    ("FRAC_1_SQRT_2", std::f64::consts::FRAC_1_SQRT_2),
];

////////////////////////////////////////////////////////////////////////////////
// Shape table, written from the field documentation of `fidget_shapes`
// (names, types, order, documented defaults)

#[derive(Copy, Clone, PartialEq, Eq, Debug)]
enum K {
    Tree,
    VecTree,
    Float,
    Vec2,
    Vec3,
    Axis,
    Plane,
}

#[derive(Copy, Clone, Debug)]
enum D {
    No,
    F(f32),
    V2(f32, f32),
    V3(f32, f32, f32),
    AxisZ,
    PlaneYZ,
}

struct SD {
    name: &'static str,
    f: &'static [(&'static str, K, D)],
}

const Z3: D = D::V3(0.0, 0.0, 0.0);

const SHAPES: &[SD] = &[
    SD { name: "sphere", f: &[("center", K::Vec3, Z3), ("radius", K::Float, D::F(1.0))] },
    SD { name: "box", f: &[("lower", K::Vec3, D::No), ("upper", K::Vec3, D::No)] },
    SD { name: "plane", f: &[("axis", K::Axis, D::No), ("offset", K::Float, D::No)] },
    SD { name: "circle", f: &[("center", K::Vec2, D::V2(0.0, 0.0)), ("radius", K::Float, D::F(1.0))] },
    SD { name: "rectangle", f: &[("lower", K::Vec2, D::No), ("upper", K::Vec2, D::No)] },
    SD { name: "move", f: &[("shape", K::Tree, D::No), ("offset", K::Vec3, Z3)] },
    SD { name: "scale", f: &[("shape", K::Tree, D::No), ("scale", K::Vec3, D::V3(1.0, 1.0, 1.0))] },
    SD { name: "scale_uniform", f: &[("shape", K::Tree, D::No), ("scale", K::Float, D::F(1.0))] },
    SD { name: "reflect", f: &[("shape", K::Tree, D::No), ("plane", K::Plane, D::PlaneYZ)] },
    SD { name: "reflect_x", f: &[("shape", K::Tree, D::No), ("offset", K::Float, D::F(0.0))] },
    SD { name: "reflect_y", f: &[("shape", K::Tree, D::No), ("offset", K::Float, D::F(0.0))] },
    SD { name: "reflect_z", f: &[("shape", K::Tree, D::No), ("offset", K::Float, D::F(0.0))] },
    SD { name: "reflect_xy", f: &[("shape", K::Tree, D::No), ("offset", K::Float, D::F(0.0))] },
    SD { name: "repeat_x", f: &[("shape", K::Tree, D::No), ("radius", K::Float, D::F(1.0)), ("offset", K::Float, D::F(0.0))] },
    SD { name: "rotate", f: &[("shape", K::Tree, D::No), ("axis", K::Axis, D::AxisZ), ("angle", K::Float, D::F(0.0)), ("center", K::Vec3, Z3)] },
    SD { name: "rotate_x", f: &[("shape", K::Tree, D::No), ("angle", K::Float, D::F(0.0)), ("center", K::Vec3, Z3)] },
    SD { name: "rotate_y", f: &[("shape", K::Tree, D::No), ("angle", K::Float, D::F(0.0)), ("center", K::Vec3, Z3)] },
    SD { name: "rotate_z", f: &[("shape", K::Tree, D::No), ("angle", K::Float, D::F(0.0)), ("center", K::Vec3, Z3)] },
    SD { name: "revolve_y", f: &[("shape", K::Tree, D::No), ("offset", K::Float, D::F(0.0))] },
    SD { name: "extrude_z", f: &[("shape", K::Tree, D::No), ("lower", K::Float, D::F(0.0)), ("upper", K::Float, D::F(1.0))] },
    SD { name: "loft_z", f: &[("a", K::Tree, D::No), ("b", K::Tree, D::No), ("lower", K::Float, D::F(0.0)), ("upper", K::Float, D::F(1.0))] },
    SD { name: "union", f: &[("input", K::VecTree, D::No)] },
    SD { name: "blend", f: &[("a", K::Tree, D::No), ("b", K::Tree, D::No), ("radius", K::Float, D::No)] },
    SD { name: "intersection", f: &[("input", K::VecTree, D::No)] },
    SD { name: "difference", f: &[("shape", K::Tree, D::No), ("cutout", K::Tree, D::No)] },
    SD { name: "inverse", f: &[("shape", K::Tree, D::No)] },
];

#[derive(Clone, Debug)]
enum V {
    Tree(Tree),
    VecTree(Vec<Tree>),
    Float(f32),
    Vec2(Vec2),
    Vec3(Vec3),
    Axis(Axis),
    Plane(Plane),
}

impl V {
    fn tree(&self) -> Tree {
        match self {
            V::Tree(t) => t.clone(),
            _ => panic!("harness: expected tree value, got {self:?}"),
        }
    }
    fn trees(&self) -> Vec<Tree> {
        match self {
            V::VecTree(t) => t.clone(),
            _ => panic!("harness: expected tree list, got {self:?}"),
        }
    }
    fn f(&self) -> f32 {
        match self {
            V::Float(t) => *t,
            _ => panic!("harness: expected float, got {self:?}"),
        }
    }
    fn v2(&self) -> Vec2 {
        match self {
            V::Vec2(t) => *t,
            _ => panic!("harness: expected vec2, got {self:?}"),
        }
    }
    fn v3(&self) -> Vec3 {
        match self {
            V::Vec3(t) => *t,
            _ => panic!("harness: expected vec3, got {self:?}"),
        }
    }
    fn axis(&self) -> Axis {
        match self {
            V::Axis(t) => *t,
            _ => panic!("harness: expected axis, got {self:?}"),
        }
    }
    fn plane(&self) -> Plane {
        match self {
            V::Plane(t) => *t,
            _ => panic!("harness: expected plane, got {self:?}"),
        }
    }
}

fn default_value(d: D) -> V {
    match d {
        D::No => panic!("harness: no default"),
        D::F(v) => V::Float(v),
        D::V2(x, y) => V::Vec2(Vec2::new(x, y)),
        D::V3(x, y, z) => V::Vec3(Vec3::new(x, y, z)),
        D::AxisZ => V::Axis(Axis::Z),
        D::PlaneYZ => V::Plane(Plane::YZ),
    }
}

/// The Rust side of a shape constructor: fill the struct, convert to `Tree`
fn build_shape(name: &str, v: &[V]) -> Tree {
    match name {
        "sphere" => fs::Sphere { center: v[0].v3(), radius: v[1].f() }.into(),
        "box" => fs::Box { lower: v[0].v3(), upper: v[1].v3() }.into(),
        "plane" => Plane { axis: v[0].axis(), offset: v[1].f() }.into(),
        "circle" => fs::Circle { center: v[0].v2(), radius: v[1].f() }.into(),
        "rectangle" => fs::Rectangle { lower: v[0].v2(), upper: v[1].v2() }.into(),
        "move" => fs::Move { shape: v[0].tree(), offset: v[1].v3() }.into(),
        "scale" => fs::Scale { shape: v[0].tree(), scale: v[1].v3() }.into(),
        "scale_uniform" => fs::ScaleUniform { shape: v[0].tree(), scale: v[1].f() }.into(),
        "reflect" => fs::Reflect { shape: v[0].tree(), plane: v[1].plane() }.into(),
        "reflect_x" => fs::ReflectX { shape: v[0].tree(), offset: v[1].f() }.into(),
        "reflect_y" => fs::ReflectY { shape: v[0].tree(), offset: v[1].f() }.into(),
        "reflect_z" => fs::ReflectZ { shape: v[0].tree(), offset: v[1].f() }.into(),
        "reflect_xy" => fs::ReflectXY { shape: v[0].tree(), offset: v[1].f() }.into(),
        "repeat_x" => fs::RepeatX { shape: v[0].tree(), radius: v[1].f(), offset: v[2].f() }.into(),
        "rotate" => fs::Rotate { shape: v[0].tree(), axis: v[1].axis(), angle: v[2].f(), center: v[3].v3() }.into(),
        "rotate_x" => fs::RotateX { shape: v[0].tree(), angle: v[1].f(), center: v[2].v3() }.into(),
        "rotate_y" => fs::RotateY { shape: v[0].tree(), angle: v[1].f(), center: v[2].v3() }.into(),
        "rotate_z" => fs::RotateZ { shape: v[0].tree(), angle: v[1].f(), center: v[2].v3() }.into(),
        "revolve_y" => fs::RevolveY { shape: v[0].tree(), offset: v[1].f() }.into(),
        "extrude_z" => fs::ExtrudeZ { shape: v[0].tree(), lower: v[1].f(), upper: v[2].f() }.into(),
        "loft_z" => fs::LoftZ { a: v[0].tree(), b: v[1].tree(), lower: v[2].f(), upper: v[3].f() }.into(),
        "union" => fs::Union { input: v[0].trees() }.into(),
        "blend" => fs::Blend { a: v[0].tree(), b: v[1].tree(), radius: v[2].f() }.into(),
        "intersection" => fs::Intersection { input: v[0].trees() }.into(),
        "difference" => fs::Difference { shape: v[0].tree(), cutout: v[1].tree() }.into(),
        "inverse" => fs::Inverse { shape: v[0].tree() }.into(),
        _ => unreachable!("shape {name}"),
    }
}

fn union_of(v: Vec<Tree>) -> Tree {
    fs::Union { input: v }.into()
}

/// Call forms of a shape constructor
#[derive(Copy, Clone, PartialEq, Eq, Debug)]
enum SF {
    /// `name(#{ field: value, .. })`, defaulted fields may be omitted
    Map,
    /// `name(a, b, ..)` with uniquely-typed arguments in any order, defaulted
    /// fields may be omitted; `tree.name(..)` is the same call
    Unique,
    /// `tree.name(#{ remaining fields })` / `name(tree, #{ .. })`
    Chain,
    /// all fields in declaration order (shapes whose field types are not
    /// unique)
    Ordered,
    /// `name(a, b)` for shapes made of exactly two trees
    Binary,
    /// `name(t1, .., tn)` for shapes made of one list of trees
    Reduce,
    /// `name([t1, .., tn])`
    ReduceArray,
}
impl SF {
    fn name(&self) -> &'static str {
        match self {
            SF::Map => "map",
            SF::Unique => "unique",
            SF::Chain => "chain_map",
            SF::Ordered => "ordered",
            SF::Binary => "two_trees",
            SF::Reduce => "reduce",
            SF::ReduceArray => "reduce_array",
        }
    }
}

fn kinds_unique(sd: &SD) -> bool {
    for (i, a) in sd.f.iter().enumerate() {
        for b in &sd.f[i + 1..] {
            if a.1 == b.1 {
                return false;
            }
        }
    }
    true
}
fn n_trees(sd: &SD) -> usize {
    sd.f.iter().filter(|f| f.1 == K::Tree).count()
}
fn is_reduce(sd: &SD) -> bool {
    sd.f.len() == 1 && sd.f[0].1 == K::VecTree
}
fn is_chain(sd: &SD) -> bool {
    sd.f.len() >= 2 && sd.f[0].1 == K::Tree && n_trees(sd) == 1
}

fn forms_of(sd: &SD) -> Vec<SF> {
    let mut out = vec![SF::Map];
    if is_reduce(sd) {
        out.push(SF::Reduce);
        out.push(SF::ReduceArray);
        return out;
    }
    if n_trees(sd) == 2 && sd.f.len() == 2 {
        out.push(SF::Binary);
        return out;
    }
    if kinds_unique(sd) {
        out.push(SF::Unique);
    } else {
        out.push(SF::Ordered);
    }
    if is_chain(sd) {
        out.push(SF::Chain);
    }
    out
}

/// Call forms that the documentation promises but that are kept out of the
/// composed scripts; they are only produced by dedicated focus scripts, so a
/// rejection cannot mask the other checks.
#[derive(Copy, Clone, PartialEq, Eq, Debug)]
enum Quirk {
    None,
    /// "Any shape which takes a `Tree` will also accept an array of trees" in
    /// the uniquely-typed positional form, e.g. `[a, b].move([1, 1])`
    UniqueArrayForTree,
    /// "Fields with default values may be omitted from the map" in the
    /// `tree.name(#{..})` form
    ChainOmitDefault,
    /// "individual tree arguments (up to an 8-tuple)" with one argument
    ReduceOne,
    /// uniquely-typed positional form of the `plane` shape with the axis
    /// first and a float offset second
    PlaneAxisFloat,
}
impl Quirk {
    fn name(&self) -> &'static str {
        match self {
            Quirk::None => "",
            Quirk::UniqueArrayForTree => "unique_form_array_for_tree",
            Quirk::ChainOmitDefault => "chain_map_default_omitted",
            Quirk::ReduceOne => "reduce_one_tree_argument",
            Quirk::PlaneAxisFloat => "plane_unique_axis_then_float",
        }
    }
}

////////////////////////////////////////////////////////////////////////////////
// Generator

/// Precedence classes of a script fragment
const P_ADD: u8 = 0;
const P_MUL: u8 = 1;
const P_NEG: u8 = 2;
const P_PROP: u8 = 3; // `a.x`: fine as an operand, wrapped when a receiver
const P_PRIM: u8 = 4;

/// Unfolded size above which operands are replaced by leaves (bounds the
/// cost of the structural comparison, which does not share work)
const MAX_SIZE: u64 = 6000;
const VAR_PICK_MAX: u64 = 600;

/// Tree-valued script expression together with the tree it must build
#[derive(Clone)]
struct TE {
    s: String,
    t: Tree,
    /// nesting cost in (generous) units of the engine's expression depth
    depth: u32,
    /// upper bound of the unfolded node count of `t`
    size: u64,
    prec: u8,
}

impl TE {
    fn recv(&self) -> String {
        if self.prec >= P_PRIM {
            self.s.clone()
        } else {
            format!("({})", self.s)
        }
    }
}

/// Tree-valued sub-expression, logged in post-order for localisation
struct Sub {
    s: String,
    t: Tree,
    tag: String,
}

struct NumLit {
    s: String,
    v: f32,
    /// 'I' int literal, 'F' float literal, 'V' variable / constant
    k: char,
}

/// Non-tree argument value
struct FV {
    s: String,
    v: V,
    depth: u32,
    size: u64,
    /// `Some(prec)` when the script is a tree expression (usable as a method
    /// receiver), `Some(P_PRIM)` for array literals
    recv_prec: Option<u8>,
}

impl FV {
    fn recv(&self) -> String {
        match self.recv_prec {
            Some(p) if p >= P_PRIM => self.s.clone(),
            _ => format!("({})", self.s),
        }
    }
}

#[derive(Copy, Clone, PartialEq, Eq)]
enum Ctx {
    /// the target type is known (map forms): all documented coercions apply
    Tagged,
    /// uniquely-typed positional argument
    Positional,
    /// positional argument in declaration order
    Ordered,
}

struct TVar {
    name: String,
    t: Tree,
    size: u64,
    used: bool,
}

struct StmtInfo {
    /// tree variable bound by this statement (name, expected tree)
    var: Option<(String, Tree)>,
    subs: (usize, usize),
}

struct Gen {
    rng: Rng,
    stmts: Vec<String>,
    info: Vec<StmtInfo>,
    subs: Vec<Sub>,
    tvars: Vec<TVar>,
    nvars: Vec<(String, f32, bool)>,
    axes_var: Option<String>,
    /// x/y/z re-bound by a `let` to a tree (index into tvars)
    shadow_tree: [Option<usize>; 3],
    /// x/y/z re-bound by a `let` to a number
    shadow_num: [bool; 3],
    cov: Vec<(&'static str, String)>,
    nodes_left: i32,
    next_id: u32,
}

const AXIS_NAMES: [&str; 3] = ["x", "y", "z"];

fn axis_tree(i: usize) -> Tree {
    match i {
        0 => Tree::x(),
        1 => Tree::y(),
        _ => Tree::z(),
    }
}

fn fmt_f64(v: f64) -> String {
    // Debug always prints a '.' or an exponent for f64
    let s = format!("{v:?}");
    debug_assert!(s.contains('.') || s.contains('e'));
    s
}

impl Gen {
    fn new(rng: Rng) -> Self {
        Gen {
            rng,
            stmts: vec![],
            info: vec![],
            subs: vec![],
            tvars: vec![],
            nvars: vec![],
            axes_var: None,
            shadow_tree: [None; 3],
            shadow_num: [false; 3],
            cov: vec![],
            nodes_left: 8,
            next_id: 0,
        }
    }

    fn cov(&mut self, set: &'static str, member: impl Into<String>) {
        self.cov.push((set, member.into()));
    }

    fn id(&mut self) -> u32 {
        self.next_id += 1;
        self.next_id - 1
    }

    fn push_plain_stmt(&mut self, s: String) {
        let n = self.subs.len();
        self.stmts.push(s);
        self.info.push(StmtInfo { var: None, subs: (n, n) });
    }

    fn log(&mut self, te: &TE, tag: String) {
        self.subs.push(Sub { s: te.s.clone(), t: te.t.clone(), tag });
    }

    ////////////////////////////////////////////////////////////////////////////
    // Numbers (all exactly representable in f32)

    fn int_lit(&mut self) -> NumLit {
        let r = self.rng.below(100);
        let (s, v) = if r < 55 {
            let v = self.rng.range(-9, 9);
            (format!("{v}"), v as f32)
        } else if r < 85 {
            let v = self.rng.range(-64, 64);
            (format!("{v}"), v as f32)
        } else {
            let sp: [(&str, f32); 10] = [
                ("100", 100.0),
                ("255", 255.0),
                ("256", 256.0),
                ("1000", 1000.0),
                ("-4096", -4096.0),
                ("65536", 65536.0),
                ("16777216", 16777216.0),
                ("-16777216", -16777216.0),
                ("0x10", 16.0),
                ("1_000", 1000.0),
            ];
            let (s, v) = *self.rng.pick(&sp);
            (s.to_string(), v)
        };
        NumLit { s, v, k: 'I' }
    }

    fn float_lit(&mut self) -> NumLit {
        let r = self.rng.below(100);
        let (s, v) = if r < 50 {
            let k = self.rng.range(-80, 80);
            let v = k as f64 / 8.0;
            (fmt_f64(v), v as f32)
        } else if r < 90 {
            let k = self.rng.range(-4096, 4096);
            let v = k as f64 / 64.0;
            (fmt_f64(v), v as f32)
        } else {
            let sp: [(&str, f32); 5] = [
                ("1e2", 100.0),
                ("2.5e1", 25.0),
                ("1.25e2", 125.0),
                ("0.5", 0.5),
                ("3.0", 3.0),
            ];
            let (s, v) = *self.rng.pick(&sp);
            (s.to_string(), v)
        };
        NumLit { s, v, k: 'F' }
    }

    /// Number held in a variable (`let`), a script constant (`const`), a
    /// number shadowing an axis name, or a documented named constant
    fn num_var(&mut self) -> NumLit {
        let r = self.rng.below(10);
        if r < 2 {
            let (name, v) = *self.rng.pick(&NAMED);
            self.cov("number_forms", "named_constant");
            return NumLit { s: name.to_string(), v: v as f32, k: 'V' };
        }
        if !self.nvars.is_empty() && r < 7 {
            let i = self.rng.below(self.nvars.len());
            let (name, v, _) = self.nvars[i].clone();
            return NumLit { s: name, v, k: 'V' };
        }
        // new binding
        let lit = if self.rng.chance(0.5) { self.int_lit() } else { self.float_lit() };
        let is_int = lit.k == 'I';
        // the literal may be negative: `let n = -3;` is fine
        let (name, kw) = if self.rng.chance(0.25) {
            self.cov("number_forms", "const_binding");
            (format!("K{}", self.id()), "const")
        } else {
            self.cov("number_forms", "let_binding");
            (format!("n{}", self.id()), "let")
        };
        self.push_plain_stmt(format!("{kw} {name} = {};", lit.s));
        self.nvars.push((name.clone(), lit.v, is_int));
        NumLit { s: name, v: lit.v, k: 'V' }
    }

    fn num_of(&mut self, k: char) -> NumLit {
        match k {
            'I' => self.int_lit(),
            'F' => self.float_lit(),
            _ => self.num_var(),
        }
    }

    fn num(&mut self) -> NumLit {
        match self.rng.weighted(&[5, 5, 2]) {
            0 => self.int_lit(),
            1 => self.float_lit(),
            _ => self.num_var(),
        }
    }

    fn num_nonzero(&mut self) -> NumLit {
        loop {
            let n = if self.rng.chance(0.5) { self.int_lit() } else { self.float_lit() };
            if n.v != 0.0 {
                return n;
            }
        }
    }

    /// Integer-valued number whose *runtime type* is an integer
    fn int_typed(&mut self) -> NumLit {
        let ints: Vec<usize> = (0..self.nvars.len()).filter(|&i| self.nvars[i].2).collect();
        if !ints.is_empty() && self.rng.chance(0.3) {
            let i = *self.rng.pick(&ints);
            let (name, v, _) = self.nvars[i].clone();
            return NumLit { s: name, v, k: 'V' };
        }
        self.int_lit()
    }

    ////////////////////////////////////////////////////////////////////////////
    // Vectors

    fn comp(&mut self, nonzero: bool) -> NumLit {
        if nonzero {
            self.num_nonzero()
        } else if self.rng.chance(0.85) {
            if self.rng.chance(0.5) { self.int_lit() } else { self.float_lit() }
        } else {
            self.num_var()
        }
    }

    /// A `vec2`-compatible value: (script, value, form name, depth)
    fn vec2_value(&mut self, nonzero: bool) -> (String, Vec2, &'static str, u32) {
        let a = self.comp(nonzero);
        let b = self.comp(nonzero);
        let v = Vec2::new(a.v, b.v);
        let r = self.rng.below(100);
        if r < 40 {
            (format!("[{}, {}]", a.s, b.s), v, "array", 3)
        } else if r < 65 {
            (format!("vec2({}, {})", a.s, b.s), v, "ctor", 3)
        } else if r < 75 {
            (format!("vec2([{}, {}])", a.s, b.s), v, "ctor_array", 5)
        } else if r < 80 {
            (format!("vec2(vec2({}, {}))", a.s, b.s), v, "ctor_idempotent", 5)
        } else if nonzero {
            (format!("vec2({}, {})", a.s, b.s), v, "ctor", 3)
        } else {
            // vector arithmetic (types.rs): namesake operations on Vec2
            let c = self.comp(false);
            let d = self.comp(false);
            let w = Vec2::new(c.v, d.v);
            let vs = format!("vec2({}, {})", a.s, b.s);
            let ws = format!("vec2({}, {})", c.s, d.s);
            let n = if self.rng.chance(0.5) { self.int_lit() } else { self.float_lit() };
            match self.rng.below(10) {
                0 => (format!("{vs} + {ws}"), v + w, "arith", 6),
                1 => (format!("{vs} - {ws}"), v - w, "arith", 6),
                2 => (format!("{vs} * {ws}"), v * w, "arith", 6),
                3 => (format!("{vs} * {}", n.s), v * n.v, "arith", 6),
                4 => (format!("{} * {vs}", n.s), n.v * v, "arith", 6),
                5 => (format!("{} - {vs}", n.s), n.v - v, "arith", 6),
                6 => (format!("{vs} + {}", n.s), v + n.v, "arith", 6),
                7 => (format!("-{vs}"), -v, "arith", 6),
                8 => (format!("min({vs}, {ws})"), v.min(w), "arith", 6),
                _ => (format!("max({vs}, {ws})"), v.max(w), "arith", 6),
            }
        }
    }

    /// A `vec3`-compatible value.  `promote_z`: when `Some(z)`, a 2-vector may
    /// be given and must be promoted with that z
    fn vec3_value(
        &mut self,
        nonzero: bool,
        promote_z: Option<f32>,
    ) -> (String, Vec3, &'static str, u32) {
        if let Some(z) = promote_z {
            if self.rng.chance(0.35) {
                // vec2 forms that are plain values (no arithmetic when the
                // components must stay non-zero)
                let (s, v, form, d) = self.vec2_value(nonzero);
                let name = match form {
                    "array" => "vec2_array_promoted",
                    "arith" => "vec2_arith_promoted",
                    _ => "vec2_ctor_promoted",
                };
                return (s, Vec3::new(v.x, v.y, z), name, d);
            }
        }
        let a = self.comp(nonzero);
        let b = self.comp(nonzero);
        let c = self.comp(nonzero);
        let v = Vec3::new(a.v, b.v, c.v);
        let r = self.rng.below(100);
        if r < 45 {
            (format!("[{}, {}, {}]", a.s, b.s, c.s), v, "array", 3)
        } else if r < 70 {
            (format!("vec3({}, {}, {})", a.s, b.s, c.s), v, "ctor", 3)
        } else if r < 80 {
            (format!("vec3([{}, {}, {}])", a.s, b.s, c.s), v, "ctor_array", 5)
        } else if r < 85 || nonzero {
            (format!("vec3(vec3({}, {}, {}))", a.s, b.s, c.s), v, "ctor_idempotent", 5)
        } else {
            let d = self.comp(false);
            let e = self.comp(false);
            let f = self.comp(false);
            let w = Vec3::new(d.v, e.v, f.v);
            let vs = format!("vec3({}, {}, {})", a.s, b.s, c.s);
            let ws = format!("vec3({}, {}, {})", d.s, e.s, f.s);
            let n = if self.rng.chance(0.5) { self.int_lit() } else { self.float_lit() };
            match self.rng.below(8) {
                0 => (format!("{vs} + {ws}"), v + w, "arith", 6),
                1 => (format!("{vs} - {ws}"), v - w, "arith", 6),
                2 => (format!("{vs} * {}", n.s), v * n.v, "arith", 6),
                3 => (format!("{} * {vs}", n.s), n.v * v, "arith", 6),
                4 => (format!("{} - {vs}", n.s), n.v - v, "arith", 6),
                5 => (format!("-{vs}"), -v, "arith", 6),
                6 => (format!("abs({vs})"), v.abs(), "arith", 6),
                _ => (format!("max({vs}, {ws})"), v.max(w), "arith", 6),
            }
        }
    }

    ////////////////////////////////////////////////////////////////////////////
    // Axes and planes

    fn axis_name(&mut self) -> (String, Axis, &'static str) {
        let i = self.rng.below(3);
        let ax = [Axis::X, Axis::Y, Axis::Z][i];
        let lower = ["x", "y", "z"][i];
        let upper = ["X", "Y", "Z"][i];
        let n = if self.rng.chance(0.7) { lower } else { upper };
        if self.rng.chance(0.6) {
            (format!("\"{n}\""), ax, "string")
        } else {
            (format!("'{n}'"), ax, "char")
        }
    }

    /// Non-degenerate direction vector script (array / vec3 / 2-array)
    fn axis_vector(&mut self) -> (String, Axis, &'static str) {
        loop {
            let a = self.rng.range(-4, 4);
            let b = self.rng.range(-4, 4);
            let c = self.rng.range(-4, 4);
            let r = self.rng.below(10);
            if r < 2 {
                if a == 0 && b == 0 {
                    continue;
                }
                // 2-vector: z = 0
                let ax = Axis::try_from(Vec3::new(a as f32, b as f32, 0.0)).unwrap();
                return (format!("[{a}, {b}]"), ax, "vec2_array");
            }
            if a == 0 && b == 0 && c == 0 {
                continue;
            }
            let ax = Axis::try_from(Vec3::new(a as f32, b as f32, c as f32)).unwrap();
            return if r < 7 {
                (format!("[{a}, {b}, {c}]"), ax, "vec3_array")
            } else {
                (format!("vec3({a}, {b}, {c})"), ax, "vec3_ctor")
            };
        }
    }

    /// (script, value, form, depth)
    fn axis_value(&mut self, ctx: Ctx) -> (String, Axis, String, u32) {
        let r = self.rng.below(100);
        if r < 45 {
            let (s, a, f) = self.axis_name();
            (s, a, f.to_string(), 1)
        } else if r < 60 {
            let (s, a, f) = self.axis_name();
            (format!("axis({s})"), a, format!("axis_ctor_{f}"), 3)
        } else if r < 75 || ctx != Ctx::Tagged {
            let (s, a, f) = self.axis_vector();
            (format!("axis({s})"), a, format!("axis_ctor_{f}"), 5)
        } else {
            let (s, a, f) = self.axis_vector();
            (s, a, f.to_string(), 3)
        }
    }

    fn plane_name(&mut self) -> (String, Plane) {
        let i = self.rng.below(3);
        let p = [Plane::XY, Plane::YZ, Plane::ZX][i];
        let n = if self.rng.chance(0.7) {
            ["xy", "yz", "zx"][i]
        } else {
            ["XY", "YZ", "ZX"][i]
        };
        (format!("\"{n}\""), p)
    }

    /// (script, value, form, depth)
    fn plane_value(&mut self, ctx: Ctx) -> (String, Plane, String, u32) {
        let r = self.rng.below(100);
        if r < 25 {
            let (s, p) = self.plane_name();
            (s, p, "plane_string".into(), 1)
        } else if r < 45 {
            let (s, a, f, d) = self.axis_value(ctx);
            (s, Plane { axis: a, offset: 0.0 }, format!("axis:{f}"), d)
        } else {
            // explicit `plane(..)` value
            let (bs, base, bf, bd) = if self.rng.chance(0.4) {
                let (s, p) = self.plane_name();
                (s, p, "plane_string".to_string(), 1)
            } else {
                // the argument of `plane(..)` is converted with the target
                // type known, so every axis form is allowed
                let (s, a, f, d) = self.axis_value(Ctx::Tagged);
                (s, Plane { axis: a, offset: 0.0 }, format!("axis:{f}"), d)
            };
            if self.rng.chance(0.5) {
                (format!("plane({bs})"), base, format!("plane_ctor({bf})"), bd + 2)
            } else {
                // the offset of the value constructor is a float
                let o = self.float_lit();
                (
                    format!("plane({bs}, {})", o.s),
                    Plane { axis: base.axis, offset: o.v },
                    format!("plane_ctor({bf}, offset)"),
                    bd + 2,
                )
            }
        }
    }
}

////////////////////////////////////////////////////////////////////////////////
// Tree expressions

impl Gen {
    fn injected_axis(&mut self) -> TE {
        let free: Vec<usize> = (0..3).filter(|&i| !self.shadow_num[i]).collect();
        if free.is_empty() {
            return TE { s: "axes().x".into(), t: Tree::x(), depth: 3, size: 1, prec: P_PROP };
        }
        let i = *self.rng.pick(&free);
        if let Some(vi) = self.shadow_tree[i] {
            self.cov("leaf_kinds", "axis_name_shadowed_by_tree");
            self.tvars[vi].used = true;
            let v = &self.tvars[vi];
            if v.size <= VAR_PICK_MAX {
                let te = TE { s: v.name.clone(), t: v.t.clone(), depth: 1, size: v.size, prec: P_PRIM };
                self.log(&te, "leaf:axis_name_rebound_by_let".to_string());
                return te;
            }
            return TE { s: "axes().x".into(), t: Tree::x(), depth: 3, size: 1, prec: P_PROP };
        }
        self.cov("leaf_kinds", "injected_xyz");
        let te = TE { s: AXIS_NAMES[i].into(), t: axis_tree(i), depth: 1, size: 1, prec: P_PRIM };
        if self.shadow_tree.iter().any(|s| s.is_some()) || self.shadow_num.iter().any(|s| *s) {
            // some other axis name is re-bound: this one must still be injected
            self.log(&te, "leaf:injected_axis_beside_rebound_name".to_string());
        }
        te
    }

    fn leaf(&mut self) -> TE {
        let unused: Vec<usize> = (0..self.tvars.len())
            .filter(|&i| !self.tvars[i].used && self.tvars[i].size <= VAR_PICK_MAX)
            .collect();
        if !unused.is_empty() && self.rng.chance(0.5) {
            let i = *self.rng.pick(&unused);
            return self.var_leaf(i);
        }
        match self.rng.weighted(&[6, 2, 2, 4]) {
            0 => self.injected_axis(),
            1 => {
                let i = self.rng.below(3);
                self.cov("leaf_kinds", "axes()_call");
                TE {
                    s: format!("axes().{}", AXIS_NAMES[i]),
                    t: axis_tree(i),
                    depth: 3,
                    size: 1,
                    prec: P_PROP,
                }
            }
            2 => {
                let name = match &self.axes_var {
                    Some(n) => n.clone(),
                    None => {
                        let n = format!("ax{}", self.id());
                        self.push_plain_stmt(format!("let {n} = axes();"));
                        self.axes_var = Some(n.clone());
                        n
                    }
                };
                let i = self.rng.below(3);
                self.cov("leaf_kinds", "axes()_variable");
                TE {
                    s: format!("{name}.{}", AXIS_NAMES[i]),
                    t: axis_tree(i),
                    depth: 2,
                    size: 1,
                    prec: P_PROP,
                }
            }
            _ => {
                let ok: Vec<usize> = (0..self.tvars.len())
                    .filter(|&i| self.tvars[i].size <= VAR_PICK_MAX)
                    .collect();
                if ok.is_empty() {
                    self.injected_axis()
                } else {
                    let i = *self.rng.pick(&ok);
                    self.var_leaf(i)
                }
            }
        }
    }

    fn var_leaf(&mut self, i: usize) -> TE {
        self.tvars[i].used = true;
        self.cov("leaf_kinds", "let_bound_tree");
        let v = &self.tvars[i];
        TE { s: v.name.clone(), t: v.t.clone(), depth: 1, size: v.size, prec: P_PRIM }
    }

    /// Replaces an over-sized operand by a leaf
    fn fit(&mut self, te: TE, allowance: u64) -> TE {
        if te.size > allowance {
            let i = self.rng.below(3);
            TE {
                s: format!("axes().{}", AXIS_NAMES[i]),
                t: axis_tree(i),
                depth: 3,
                size: 1,
                prec: P_PROP,
            }
        } else {
            te
        }
    }

    /// A tree-valued expression whose nesting cost stays within `budget`
    fn tree(&mut self, budget: u32) -> TE {
        if budget < 6 || self.nodes_left <= 0 {
            return self.leaf();
        }
        self.nodes_left -= 1;
        let w_shape = if budget >= 16 { 6 } else { 0 };
        let w_remap = if budget >= 8 { 1 } else { 0 };
        match self.rng.weighted(&[2, 3, 7, w_shape, w_remap, 1]) {
            0 => self.leaf(),
            1 => {
                let op = self.rng.below(UN_OPS.len());
                let style = self.rng.below(3) as u8;
                self.unary(budget, op, style)
            }
            2 => {
                let op = self.rng.below(BIN_OPS.len());
                let form = match self.rng.weighted(&[10, 3, 3, 2, 3, 3, 2, 1, 1]) {
                    i => FORMS[i],
                };
                let method = self.rng.chance(0.3);
                self.binary(budget, op, form, method)
            }
            3 => {
                let si = self.rng.below(SHAPES.len());
                let forms = forms_of(&SHAPES[si]);
                let form = *self.rng.pick(&forms);
                self.shape(si, form, budget, Quirk::None)
            }
            4 => {
                let three = self.rng.chance(0.6);
                self.remap(budget, three)
            }
            _ => {
                let inner = self.tree(budget - 2);
                let te = TE {
                    s: format!("({})", inner.s),
                    t: inner.t.clone(),
                    depth: inner.depth + 2,
                    size: inner.size,
                    prec: P_PRIM,
                };
                te
            }
        }
    }

    /// Array literal of trees: (script, trees, depth, size)
    fn tree_array(&mut self, n: usize, budget: u32) -> (String, Vec<Tree>, u32, u64) {
        let mut parts = vec![];
        let mut trees = vec![];
        let mut depth = 1;
        let mut size = 1u64;
        let inner = budget.saturating_sub(2);
        for i in 0..n {
            let r = self.rng.below(100);
            // the first element is always a real tree so that the array can
            // never be read as a numeric vector
            if i > 0 && r < 8 {
                let k = self.num();
                parts.push(k.s);
                trees.push(Tree::constant(k.v));
                size += 1;
                self.cov("array_elements", "number");
            } else if i > 0 && r < 14 && inner >= 8 {
                let m = self.rng.below(3) + 1;
                let (s, ts, d, sz) = self.tree_array(m, inner);
                parts.push(s);
                trees.push(union_of(ts));
                depth = depth.max(d);
                size += sz;
                self.cov("array_elements", "nested_array");
            } else {
                let te = self.tree(inner);
                let te = self.fit(te, MAX_SIZE / 8);
                parts.push(te.s);
                trees.push(te.t);
                depth = depth.max(te.depth);
                size += te.size;
                self.cov("array_elements", "tree");
            }
        }
        (format!("[{}]", parts.join(", ")), trees, depth + 2, size + n as u64)
    }

    fn array_len(&mut self) -> usize {
        match self.rng.weighted(&[1, 3, 8, 5, 3, 1, 1, 1, 1]) {
            i => i,
        }
    }

    /// style: 0 = `f(a)`, 1 = `a.f()`, 2 = `f([a, b])` (array operand)
    fn unary(&mut self, budget: u32, op: usize, style: u8) -> TE {
        let name = UN_OPS[op];
        let inner = budget.saturating_sub(4);
        let te;
        let tag;
        if style == 2 && inner >= 6 {
            let n = self.array_len();
            let (s, ts, d, sz) = self.tree_array(n, inner);
            let arg = union_of(ts);
            let (s, prec) = if name == "neg" {
                // no unary minus on arrays: use the function form of another
                // operator instead
                (format!("abs({s})"), P_PRIM)
            } else if self.rng.chance(0.5) {
                (format!("{name}({s})"), P_PRIM)
            } else {
                (format!("{s}.{name}()"), P_PRIM)
            };
            let rname = if name == "neg" { "abs" } else { name };
            te = TE { s, t: apply_un(rname, arg), depth: d + 2, size: sz + 1, prec };
            tag = format!("un:{rname}:array");
            self.cov("unary_forms", format!("{rname}:array"));
        } else {
            let a = self.tree(inner);
            if name == "neg" {
                let s = if a.prec > P_NEG { format!("-{}", a.s) } else { format!("-({})", a.s) };
                te = TE { s, t: apply_un(name, a.t.clone()), depth: a.depth + 3, size: a.size + 1, prec: P_NEG };
                tag = "un:neg:prefix".to_string();
                self.cov("unary_forms", "neg:prefix");
            } else if style == 1 {
                te = TE {
                    s: format!("{}.{name}()", a.recv()),
                    t: apply_un(name, a.t.clone()),
                    depth: a.depth + 4,
                    size: a.size + 1,
                    prec: P_PRIM,
                };
                tag = format!("un:{name}:method");
                self.cov("unary_forms", format!("{name}:method"));
            } else {
                te = TE {
                    s: format!("{name}({})", a.s),
                    t: apply_un(name, a.t.clone()),
                    depth: a.depth + 2,
                    size: a.size + 1,
                    prec: P_PRIM,
                };
                tag = format!("un:{name}:call");
                self.cov("unary_forms", format!("{name}:call"));
            }
        }
        self.log(&te, tag);
        te
    }

    /// One side of a binary operation: (script, tree, depth, size, prec)
    fn operand(&mut self, k: char, budget: u32) -> (String, Tree, u32, u64, u8) {
        match k {
            'T' => {
                let te = self.tree(budget);
                let te = self.fit(te, MAX_SIZE / 2);
                (te.s, te.t, te.depth, te.size, te.prec)
            }
            'A' => {
                let n = self.array_len();
                let (s, ts, d, sz) = self.tree_array(n, budget.max(4));
                (s, union_of(ts), d, sz, P_PRIM)
            }
            _ => {
                let n = self.num_of(k);
                let prec = if n.s.starts_with('-') { P_NEG } else { P_PRIM };
                (n.s, Tree::constant(n.v), 1, 1, prec)
            }
        }
    }

    fn binary(&mut self, budget: u32, op: usize, form: Form, method: bool) -> TE {
        let (name, sym, infix, p) = BIN_OPS[op];
        let inner = budget.saturating_sub(5);
        let (lk, rk) = form.sides();
        let l = self.operand(lk, inner);
        let r = self.operand(rk, inner);
        let t = apply_bin(name, l.1.clone(), r.1.clone());
        let depth = l.2.max(r.2) + 5;
        let size = l.3 + r.3 + 1;
        let (s, prec, style) = if infix {
            let extra = self.rng.chance(0.12);
            let ls = if l.4 < p || extra { format!("({})", l.0) } else { l.0.clone() };
            let rs = if r.4 <= p || extra { format!("({})", r.0) } else { r.0.clone() };
            (format!("{ls} {sym} {rs}"), p, "infix")
        } else if method && (lk == 'T' || lk == 'A') {
            let recv = if l.4 >= P_PRIM { l.0.clone() } else { format!("({})", l.0) };
            (format!("{recv}.{sym}({})", r.0), P_PRIM, "method")
        } else {
            (format!("{sym}({}, {})", l.0, r.0), P_PRIM, "call")
        };
        let te = TE { s, t, depth, size, prec };
        self.cov("binop_forms", format!("{name}:{}", form.name()));
        self.cov("binop_styles", format!("{name}:{style}"));
        self.log(&te, format!("bin:{name}:{}", form.name()));
        te
    }

    fn remap(&mut self, budget: u32, three: bool) -> TE {
        let inner = budget.saturating_sub(4);
        let style = self.rng.below(3);
        // receiver: tree, or array of trees (coerces to union)
        let (rs, rt, rd, rsz) = if style == 2 && inner >= 6 {
            let n = self.array_len();
            let (s, ts, d, sz) = self.tree_array(n, inner);
            (s, union_of(ts), d, sz)
        } else {
            let te = self.tree(inner);
            let te = self.fit(te, MAX_SIZE / 4);
            (te.recv(), te.t, te.depth + 2, te.size)
        };
        let a = self.tree(inner);
        let a = self.fit(a, MAX_SIZE / 8);
        let b = self.tree(inner);
        let b = self.fit(b, MAX_SIZE / 8);
        let (args, t, d, sz) = if three {
            let c = self.tree(inner);
            let c = self.fit(c, MAX_SIZE / 8);
            (
                format!("{}, {}, {}", a.s, b.s, c.s),
                rt.remap_xyz(a.t.clone(), b.t.clone(), c.t.clone()),
                a.depth.max(b.depth).max(c.depth),
                a.size + b.size + c.size,
            )
        } else {
            (
                format!("{}, {}", a.s, b.s),
                rt.remap_xyz(a.t.clone(), b.t.clone(), Tree::z()),
                a.depth.max(b.depth),
                a.size + b.size + 1,
            )
        };
        let s = if style == 0 {
            format!("remap({rs}, {args})")
        } else {
            format!("{rs}.remap({args})")
        };
        let te = TE { s, t, depth: rd.max(d) + 4, size: rsz + sz + 1, prec: P_PRIM };
        let tag = format!("remap:{}", if three { "xyz" } else { "xy" });
        self.cov("remap_forms", format!("{}:{}", if three { "xyz" } else { "xy" }, ["call", "method", "array_receiver"][style]));
        self.log(&te, tag);
        te
    }
}

////////////////////////////////////////////////////////////////////////////////
// Shape constructor calls

impl Gen {
    /// Value for field `i` of shape `sd` in the given argument context
    fn field_value(&mut self, sd: &SD, i: usize, ctx: Ctx, budget: u32, array_for_tree: bool) -> FV {
        let (fname, kind, def) = sd.f[i];
        match kind {
            K::Tree => {
                let r = self.rng.below(100);
                let arrays_ok = ctx == Ctx::Tagged || array_for_tree;
                if arrays_ok && (array_for_tree || r < 12) && budget >= 6 {
                    let n = if array_for_tree { self.rng.below(3) + 2 } else { self.array_len() };
                    let (s, ts, d, sz) = self.tree_array(n, budget);
                    self.cov("tree_argument_forms", format!("{}:array", ctx_name(ctx)));
                    FV { s, v: V::Tree(union_of(ts)), depth: d, size: sz, recv_prec: Some(P_PRIM) }
                } else if ctx == Ctx::Tagged && r < 18 {
                    let n = self.num();
                    self.cov("tree_argument_forms", "tagged:number");
                    FV { s: n.s, v: V::Tree(Tree::constant(n.v)), depth: 1, size: 1, recv_prec: None }
                } else {
                    let te = self.tree(budget);
                    let te = self.fit(te, MAX_SIZE / 4);
                    self.cov("tree_argument_forms", format!("{}:tree", ctx_name(ctx)));
                    FV { s: te.s, v: V::Tree(te.t), depth: te.depth, size: te.size, recv_prec: Some(te.prec) }
                }
            }
            K::VecTree => {
                let n = self.array_len();
                let (s, ts, d, sz) = self.tree_array(n, budget.max(4));
                FV { s, v: V::VecTree(ts), depth: d, size: sz, recv_prec: Some(P_PRIM) }
            }
            K::Float => {
                let n = if sd.name == "scale_uniform" { self.num_nonzero() } else { self.num() };
                self.cov("float_argument_forms", format!("{}", n.k));
                FV { s: n.s, v: V::Float(n.v), depth: 1, size: 0, recv_prec: None }
            }
            K::Vec2 => {
                let (s, v, form, d) = self.vec2_value(false);
                self.cov("vec2_forms", form);
                FV { s, v: V::Vec2(v), depth: d, size: 0, recv_prec: None }
            }
            K::Vec3 => {
                let nonzero = fname == "scale";
                // documented promotion: z comes from the field's default; in
                // the map forms a field without default is a position (z = 0)
                let promote = match (ctx, def) {
                    (Ctx::Ordered, _) => None,
                    (_, D::V3(_, _, z)) => Some(z),
                    (Ctx::Tagged, _) => Some(0.0),
                    _ => None,
                };
                let (s, v, form, d) = self.vec3_value(nonzero, promote);
                self.cov("vec3_forms", form);
                if form.ends_with("promoted") {
                    self.cov("vec2_to_vec3", format!("{}.{fname}:{}", sd.name, ctx_name(ctx)));
                }
                FV { s, v: V::Vec3(v), depth: d, size: 0, recv_prec: None }
            }
            K::Axis => {
                let (s, a, form, d) = self.axis_value(ctx);
                self.cov("axis_forms", format!("{}:{form}", ctx_name(ctx)));
                FV { s, v: V::Axis(a), depth: d, size: 0, recv_prec: None }
            }
            K::Plane => {
                let (s, p, form, d) = self.plane_value(ctx);
                self.cov("plane_forms", format!("{}:{form}", ctx_name(ctx)));
                FV { s, v: V::Plane(p), depth: d, size: 0, recv_prec: None }
            }
        }
    }

    fn shape(&mut self, si: usize, form: SF, budget: u32, quirk: Quirk) -> TE {
        let sd = &SHAPES[si];
        let inner = budget.saturating_sub(8);
        let nf = sd.f.len();
        let mut vals: Vec<Option<V>> = vec![None; nf];
        let mut depth = 1u32;
        let mut size = 100u64;
        let mult = if sd.name == "blend" { 2 } else { 1 };
        let s: String;
        let mut form_note = form.name().to_string();
        match form {
            SF::Map => {
                let mut parts = vec![];
                let mut omitted = 0;
                for i in 0..nf {
                    let has_default = !matches!(sd.f[i].2, D::No);
                    if has_default && self.rng.chance(0.4) {
                        vals[i] = Some(default_value(sd.f[i].2));
                        omitted += 1;
                        continue;
                    }
                    let fv = self.field_value(sd, i, Ctx::Tagged, inner, false);
                    depth = depth.max(fv.depth);
                    size += mult * fv.size;
                    parts.push(format!("{}: {}", sd.f[i].0, fv.s));
                    vals[i] = Some(fv.v);
                }
                if omitted > 0 {
                    self.cov("defaults_omitted", format!("{}:map", sd.name));
                }
                self.rng.shuffle(&mut parts);
                s = format!("{}(#{{ {} }})", sd.name, parts.join(", "));
                depth += 6;
            }
            SF::Unique => {
                let mut chosen: Vec<usize> = vec![];
                for i in 0..nf {
                    let has_default = !matches!(sd.f[i].2, D::No);
                    if has_default && self.rng.chance(0.4) {
                        vals[i] = Some(default_value(sd.f[i].2));
                        self.cov("defaults_omitted", format!("{}:unique", sd.name));
                    } else {
                        chosen.push(i);
                    }
                }
                self.rng.shuffle(&mut chosen);
                let array_for_tree = quirk == Quirk::UniqueArrayForTree;
                // the `plane` *shape* shares its name with the `plane(axis,
                // float)` value constructor: (axis, float) in that order is
                // only produced by the dedicated focus script
                let mut plane_int_offset = false;
                if sd.name == "plane" {
                    let axis_first = chosen[0] == 0;
                    if quirk == Quirk::PlaneAxisFloat {
                        chosen = vec![0, 1];
                    } else if axis_first {
                        plane_int_offset = true;
                    }
                }
                let mut args: Vec<(usize, FV)> = vec![];
                for &i in &chosen {
                    let fv = if sd.name == "plane" && i == 1 {
                        let n = if quirk == Quirk::PlaneAxisFloat {
                            self.float_lit()
                        } else if plane_int_offset {
                            self.int_typed()
                        } else {
                            self.num()
                        };
                        FV { s: n.s, v: V::Float(n.v), depth: 1, size: 0, recv_prec: None }
                    } else {
                        self.field_value(sd, i, Ctx::Positional, inner, array_for_tree)
                    };
                    depth = depth.max(fv.depth);
                    size += mult * fv.size;
                    vals[i] = Some(fv.v.clone());
                    args.push((i, fv));
                }
                // method style: the tree (or array) first
                let tree_pos = args.iter().position(|(i, _)| sd.f[*i].1 == K::Tree);
                let method = tree_pos.is_some() && self.rng.chance(0.5);
                if method {
                    let (_, recv) = args.remove(tree_pos.unwrap());
                    let rest: Vec<String> = args.iter().map(|(_, a)| a.s.clone()).collect();
                    s = format!("{}.{}({})", recv.recv(), sd.name, rest.join(", "));
                    form_note = "unique_method".into();
                    depth += 2;
                } else {
                    let all: Vec<String> = args.iter().map(|(_, a)| a.s.clone()).collect();
                    s = format!("{}({})", sd.name, all.join(", "));
                }
                self.cov("unique_arg_counts", format!("{}:{}", sd.name, chosen.len()));
                if chosen.len() >= 2 {
                    let order: Vec<String> = chosen.iter().map(|i| sd.f[*i].0.to_string()).collect();
                    self.cov("unique_arg_orders", format!("{}:{}", sd.name, order.join(",")));
                }
                depth += 2;
            }
            SF::Chain => {
                let array_recv = self.rng.chance(0.15);
                let recv = if array_recv && inner >= 6 {
                    let n = self.array_len();
                    let (s, ts, d, sz) = self.tree_array(n, inner);
                    self.cov("tree_argument_forms", "chain_receiver:array");
                    FV { s, v: V::Tree(union_of(ts)), depth: d, size: sz, recv_prec: Some(P_PRIM) }
                } else {
                    let te = self.tree(inner);
                    let te = self.fit(te, MAX_SIZE / 4);
                    self.cov("tree_argument_forms", "chain_receiver:tree");
                    FV { s: te.s.clone(), v: V::Tree(te.t.clone()), depth: te.depth, size: te.size, recv_prec: Some(te.prec) }
                };
                depth = depth.max(recv.depth);
                size += recv.size;
                vals[0] = Some(recv.v.clone());
                let mut parts = vec![];
                let defaulted: Vec<usize> = (1..nf).filter(|&i| !matches!(sd.f[i].2, D::No)).collect();
                let mut omit: Vec<usize> = vec![];
                if quirk == Quirk::ChainOmitDefault && !defaulted.is_empty() {
                    // omit a non-empty subset of the defaulted fields
                    for &i in &defaulted {
                        if self.rng.chance(0.5) {
                            omit.push(i);
                        }
                    }
                    if omit.is_empty() {
                        omit.push(*self.rng.pick(&defaulted));
                    }
                }
                for i in 1..nf {
                    if omit.contains(&i) {
                        vals[i] = Some(default_value(sd.f[i].2));
                        continue;
                    }
                    let fv = self.field_value(sd, i, Ctx::Tagged, inner, false);
                    depth = depth.max(fv.depth);
                    parts.push(format!("{}: {}", sd.f[i].0, fv.s));
                    vals[i] = Some(fv.v);
                }
                self.rng.shuffle(&mut parts);
                let map = format!("#{{ {} }}", parts.join(", "));
                if self.rng.chance(0.6) {
                    s = format!("{}.{}({map})", recv.recv(), sd.name);
                    form_note = "chain_map_method".into();
                } else {
                    s = format!("{}({}, {map})", sd.name, recv.s);
                }
                depth += 8;
            }
            SF::Ordered => {
                let mut args: Vec<FV> = vec![];
                for i in 0..nf {
                    let fv = self.field_value(sd, i, Ctx::Ordered, inner, false);
                    depth = depth.max(fv.depth);
                    size += mult * fv.size;
                    vals[i] = Some(fv.v.clone());
                    args.push(fv);
                }
                let method = sd.f[0].1 == K::Tree && self.rng.chance(0.5);
                if method {
                    let recv = args.remove(0);
                    let rest: Vec<String> = args.iter().map(|a| a.s.clone()).collect();
                    s = format!("{}.{}({})", recv.recv(), sd.name, rest.join(", "));
                    form_note = "ordered_method".into();
                } else {
                    let all: Vec<String> = args.iter().map(|a| a.s.clone()).collect();
                    s = format!("{}({})", sd.name, all.join(", "));
                }
                depth += 4;
            }
            SF::Binary => {
                // both operands are converted with the target type known
                let a = self.field_value(sd, 0, Ctx::Tagged, inner, false);
                let b = self.field_value(sd, 1, Ctx::Tagged, inner, false);
                depth = depth.max(a.depth).max(b.depth);
                size += a.size + b.size;
                vals[0] = Some(a.v.clone());
                vals[1] = Some(b.v.clone());
                if a.recv_prec.is_some() && self.rng.chance(0.5) {
                    s = format!("{}.{}({})", a.recv(), sd.name, b.s);
                    form_note = "two_trees_method".into();
                } else {
                    s = format!("{}({}, {})", sd.name, a.s, b.s);
                }
                depth += 4;
            }
            SF::Reduce => {
                let n = if quirk == Quirk::ReduceOne { 1 } else { self.rng.below(7) + 2 };
                let mut parts = vec![];
                let mut trees = vec![];
                for k in 0..n {
                    let r = self.rng.below(100);
                    if k > 0 && r < 6 {
                        let m = self.num();
                        parts.push(m.s);
                        trees.push(Tree::constant(m.v));
                        size += 1;
                    } else if quirk == Quirk::None && r < 16 && inner >= 6 {
                        let m = self.rng.below(3) + 1;
                        let (s, ts, d, sz) = self.tree_array(m, inner);
                        parts.push(s);
                        trees.push(union_of(ts));
                        depth = depth.max(d);
                        size += sz;
                    } else {
                        let te = self.tree(inner);
                        let te = self.fit(te, MAX_SIZE / 10);
                        depth = depth.max(te.depth);
                        size += te.size;
                        parts.push(te.s);
                        trees.push(te.t);
                    }
                }
                vals[0] = Some(V::VecTree(trees));
                s = format!("{}({})", sd.name, parts.join(", "));
                form_note = format!("reduce_{n}");
                depth += 4;
            }
            SF::ReduceArray => {
                let n = self.rng.below(9);
                let (arr, ts, d, sz) = self.tree_array(n, inner.max(4));
                depth = depth.max(d);
                size += sz;
                vals[0] = Some(V::VecTree(ts));
                s = format!("{}({arr})", sd.name);
                form_note = format!("reduce_array_{n}");
                depth += 4;
            }
        }
        let vals: Vec<V> = vals.into_iter().map(|v| v.expect("harness: field value")).collect();
        let t = build_shape(sd.name, &vals);
        let te = TE { s, t, depth, size, prec: P_PRIM };
        let tag = if quirk == Quirk::None {
            self.cov("shape_forms", format!("{}:{}", sd.name, form_note));
            format!("shape:{}:{}", sd.name, form.name())
        } else {
            self.cov("promised_forms", format!("{}:{}", quirk.name(), sd.name));
            self.cov("promised_form_kinds", quirk.name());
            format!("promised:{}", quirk.name())
        };
        self.log(&te, tag);
        te
    }
}

fn ctx_name(c: Ctx) -> &'static str {
    match c {
        Ctx::Tagged => "tagged",
        Ctx::Positional => "positional",
        Ctx::Ordered => "ordered",
    }
}

////////////////////////////////////////////////////////////////////////////////
// Whole scripts

impl Gen {
    fn bind_tree(&mut self, te: TE, subs_start: usize) {
        // now and then re-bind an injected axis name instead of a fresh name
        let free: Vec<usize> = (0..3)
            .filter(|&i| self.shadow_tree[i].is_none() && !self.shadow_num[i])
            .collect();
        let shadow = if !free.is_empty() && self.rng.chance(0.07) {
            Some(*self.rng.pick(&free))
        } else {
            None
        };
        let name = match shadow {
            Some(i) => AXIS_NAMES[i].to_string(),
            None => format!("t{}", self.id()),
        };
        // now and then the bound expression is evaluated where Rhai resolves
        // names dynamically instead of through pre-computed scope slots:
        // inside a closure that captures the names it uses, or inside
        // `eval("...")`. Names bound by the script (let-bound trees, re-bound
        // axis names, numbers) must still win over the injected x/y/z there
        let small = te.depth <= 10 && te.size <= 60 && !te.s.contains('\\');
        match if small { self.rng.weighted(&[88, 6, 6]) } else { 0 } {
            1 => {
                let f = format!("f{}", self.id());
                self.cov("binding_styles", "closure_call");
                self.push_plain_stmt(format!("let {f} = || {};", te.s));
                self.stmts.push(format!("let {name} = {f}.call();"));
            }
            2 => {
                self.cov("binding_styles", "eval_string");
                let quoted = te.s.replace('"', "\\\"");
                self.stmts.push(format!("let {name} = eval(\"{quoted}\");"));
            }
            _ => self.stmts.push(format!("let {name} = {};", te.s)),
        }
        self.info.push(StmtInfo {
            var: Some((name.clone(), te.t.clone())),
            subs: (subs_start, self.subs.len()),
        });
        self.tvars.push(TVar { name, t: te.t, size: te.size, used: false });
        if let Some(i) = shadow {
            self.shadow_tree[i] = Some(self.tvars.len() - 1);
        }
    }

    /// Random multi-statement script; returns the final expression and the
    /// range of its logged sub-expressions
    fn gen_main(&mut self) -> (TE, (usize, usize)) {
        let n_stmts = self.rng.weighted(&[2, 3, 3, 3, 2, 1, 1]);
        const BUDGETS: [u32; 6] = [6, 10, 16, 22, 30, 40];
        for _ in 0..n_stmts {
            self.maybe_shadow_with_number();
            let start = self.subs.len();
            self.nodes_left = self.rng.range(1, 10) as i32;
            let budget = *self.rng.pick(&BUDGETS);
            let te = self.tree(budget);
            self.bind_tree(te, start);
        }
        let start = self.subs.len();
        self.nodes_left = self.rng.range(1, 14) as i32;
        let budget = *self.rng.pick(&BUDGETS);
        let mut fin = self.tree(budget.min(32));
        // every binding must flow into the result
        let mut unused: Vec<usize> =
            (0..self.tvars.len()).filter(|&i| !self.tvars[i].used).collect();
        while !unused.is_empty() {
            let take = unused.len().min(7);
            let batch: Vec<usize> = unused.drain(..take).collect();
            let mut parts = vec![fin.s.clone()];
            let mut trees = vec![fin.t.clone()];
            let mut size = fin.size + 1;
            for i in batch {
                self.tvars[i].used = true;
                parts.push(self.tvars[i].name.clone());
                trees.push(self.tvars[i].t.clone());
                size += self.tvars[i].size;
            }
            let (name, t): (&str, Tree) = if self.rng.chance(0.5) {
                ("union", fs::Union { input: trees }.into())
            } else {
                ("intersection", fs::Intersection { input: trees }.into())
            };
            let n = parts.len();
            fin = TE {
                s: format!("{name}({})", parts.join(", ")),
                t,
                depth: fin.depth + 4,
                size,
                prec: P_PRIM,
            };
            self.cov("shape_forms", format!("{name}:reduce_{n}"));
            self.log(&fin, format!("shape:{name}:reduce"));
        }
        (fin, (start, self.subs.len()))
    }

    /// `let y = 3;` between statements: from here on `y` is a number (the
    /// resolver must not inject the axis any more)
    fn maybe_shadow_with_number(&mut self) {
        let free: Vec<usize> = (0..3)
            .filter(|&i| self.shadow_tree[i].is_none() && !self.shadow_num[i])
            .collect();
        if free.len() >= 2 && self.rng.chance(0.06) {
            let i = *self.rng.pick(&free);
            let lit = if self.rng.chance(0.5) { self.int_lit() } else { self.float_lit() };
            self.shadow_num[i] = true;
            self.cov("leaf_kinds", "axis_name_shadowed_by_number");
            self.push_plain_stmt(format!("let {} = {};", AXIS_NAMES[i], lit.s));
            self.nvars.push((AXIS_NAMES[i].to_string(), lit.v, lit.k == 'I'));
        }
    }

    fn script_with(&self, last: &str) -> String {
        let mut s = self.stmts.join("\n");
        if !s.is_empty() {
            s.push('\n');
        }
        s.push_str(last);
        s
    }
}

#[derive(Copy, Clone, Debug)]
enum Focus {
    Bin(usize, Form, bool),
    Un(usize, u8),
    Shape(usize, SF),
    Promised(usize, SF, Quirk),
    Remap(bool),
}

fn focus_items() -> &'static Vec<Focus> {
    static ITEMS: std::sync::OnceLock<Vec<Focus>> = std::sync::OnceLock::new();
    ITEMS.get_or_init(|| {
        let mut v = vec![];
        for (op, o) in BIN_OPS.iter().enumerate() {
            for f in FORMS {
                v.push(Focus::Bin(op, f, false));
                if !o.2 {
                    v.push(Focus::Bin(op, f, true));
                }
            }
        }
        for (op, name) in UN_OPS.iter().enumerate() {
            v.push(Focus::Un(op, 0));
            if *name != "neg" {
                v.push(Focus::Un(op, 1));
                v.push(Focus::Un(op, 2));
            }
        }
        for _ in 0..3 {
            for (si, sd) in SHAPES.iter().enumerate() {
                for f in forms_of(sd) {
                    v.push(Focus::Shape(si, f));
                }
            }
        }
        for (si, sd) in SHAPES.iter().enumerate() {
            let forms = forms_of(sd);
            if forms.contains(&SF::Unique) && n_trees(sd) == 1 {
                v.push(Focus::Promised(si, SF::Unique, Quirk::UniqueArrayForTree));
            }
            if forms.contains(&SF::Chain)
                && sd.f.iter().any(|f| !matches!(f.2, D::No))
            {
                v.push(Focus::Promised(si, SF::Chain, Quirk::ChainOmitDefault));
            }
            if forms.contains(&SF::Reduce) {
                v.push(Focus::Promised(si, SF::Reduce, Quirk::ReduceOne));
            }
            if sd.name == "plane" {
                v.push(Focus::Promised(si, SF::Unique, Quirk::PlaneAxisFloat));
            }
        }
        v.push(Focus::Remap(true));
        v.push(Focus::Remap(false));
        v
    })
}

/// Members that must have been observed for the run to count (per set)
fn required_coverage() -> Vec<(&'static str, String)> {
    let mut v: Vec<(&'static str, String)> = vec![];
    for o in BIN_OPS.iter() {
        for f in FORMS {
            v.push(("binop_forms", format!("{}:{}", o.0, f.name())));
        }
        if o.2 {
            v.push(("binop_styles", format!("{}:infix", o.0)));
        } else {
            v.push(("binop_styles", format!("{}:call", o.0)));
            v.push(("binop_styles", format!("{}:method", o.0)));
        }
    }
    for name in UN_OPS.iter() {
        if *name == "neg" {
            v.push(("unary_forms", "neg:prefix".into()));
        } else {
            for st in ["call", "method", "array"] {
                v.push(("unary_forms", format!("{name}:{st}")));
            }
        }
    }
    for sd in SHAPES {
        let n = sd.name;
        for f in forms_of(sd) {
            match f {
                SF::Map => v.push(("shape_forms", format!("{n}:map"))),
                SF::Unique => {
                    v.push(("shape_forms", format!("{n}:unique")));
                    if n_trees(sd) == 1 {
                        v.push(("shape_forms", format!("{n}:unique_method")));
                    }
                    let nd = sd.f.iter().filter(|f| !matches!(f.2, D::No)).count();
                    for k in sd.f.len() - nd..=sd.f.len() {
                        v.push(("unique_arg_counts", format!("{n}:{k}")));
                    }
                }
                SF::Chain => {
                    v.push(("shape_forms", format!("{n}:chain_map")));
                    v.push(("shape_forms", format!("{n}:chain_map_method")));
                }
                SF::Ordered => {
                    v.push(("shape_forms", format!("{n}:ordered")));
                    if sd.f[0].1 == K::Tree {
                        v.push(("shape_forms", format!("{n}:ordered_method")));
                    }
                }
                SF::Binary => {
                    v.push(("shape_forms", format!("{n}:two_trees")));
                    v.push(("shape_forms", format!("{n}:two_trees_method")));
                }
                SF::Reduce => {
                    for k in 2..=8 {
                        v.push(("shape_forms", format!("{n}:reduce_{k}")));
                    }
                }
                SF::ReduceArray => {
                    for k in 0..=8 {
                        v.push(("shape_forms", format!("{n}:reduce_array_{k}")));
                    }
                }
            }
        }
    }
    for m in [
        "scale.scale:positional",
        "scale.scale:tagged",
        "move.offset:positional",
        "move.offset:tagged",
        "sphere.center:positional",
        "sphere.center:tagged",
        "rotate.center:positional",
        "rotate_z.center:tagged",
        "box.lower:tagged",
    ] {
        v.push(("vec2_to_vec3", m.to_string()));
    }
    for op in CMP_OPS {
        for f in CMP_FORMS {
            v.push(("comparison_forms", format!("{op}:{}", f.name())));
        }
    }
    for m in [
        "injected_xyz",
        "axes()_call",
        "axes()_variable",
        "let_bound_tree",
        "axis_name_shadowed_by_tree",
        "axis_name_shadowed_by_number",
    ] {
        v.push(("leaf_kinds", m.to_string()));
    }
    for m in ["named_constant", "const_binding", "let_binding"] {
        v.push(("number_forms", m.to_string()));
    }
    for m in ["closure_call", "eval_string"] {
        v.push(("binding_styles", m.to_string()));
    }
    for m in [
        "tagged:string",
        "tagged:char",
        "tagged:vec3_array",
        "tagged:vec2_array",
        "tagged:vec3_ctor",
        "tagged:axis_ctor_string",
        "positional:string",
        "positional:char",
        "positional:axis_ctor_vec3_array",
    ] {
        v.push(("axis_forms", m.to_string()));
    }
    for m in [
        "tagged:plane_string",
        "positional:plane_string",
        "tagged:axis:string",
        "positional:axis:string",
        "positional:axis:char",
        "tagged:axis:vec3_array",
        "tagged:plane_ctor(plane_string)",
        "positional:plane_ctor(plane_string, offset)",
        "tagged:plane_ctor(axis:string, offset)",
    ] {
        v.push(("plane_forms", m.to_string()));
    }
    for q in [
        Quirk::UniqueArrayForTree,
        Quirk::ChainOmitDefault,
        Quirk::ReduceOne,
        Quirk::PlaneAxisFloat,
    ] {
        v.push(("promised_form_kinds", q.name().to_string()));
    }
    v
}

////////////////////////////////////////////////////////////////////////////////
// Oracle

fn clip(s: String, n: usize) -> String {
    if s.len() <= n {
        s
    } else {
        let mut end = n;
        while !s.is_char_boundary(end) {
            end -= 1;
        }
        format!("{}... [{} bytes]", &s[..end], s.len())
    }
}

fn show_tree(t: &Tree) -> String {
    clip(format!("{t:?}"), 1500)
}

/// Input-independent class of an engine error message
fn err_class(e: &str) -> String {
    let e = e.split(" (line ").next().unwrap_or(e);
    let after = |pat: &str| -> String {
        e.split(pat)
            .nth(1)
            .unwrap_or("")
            .split_whitespace()
            .next()
            .unwrap_or("")
            .chars()
            .filter(|c| c.is_ascii_alphanumeric())
            .take(16)
            .collect()
    };
    if e.contains("exceeds maximum complexity") {
        "engine_limit:expression_depth".into()
    } else if e.contains("script runtime exceeded") || e.contains("Too many operations") {
        "engine_limit:operations".into()
    } else if e.contains("Syntax error") {
        "syntax_error".into()
    } else if e.contains("must be provided for") {
        "field_must_be_provided".into()
    } else if e.contains("missing argument of type") {
        format!("missing_argument_of_type_{}", after("of type "))
    } else if e.contains("does not have an argument of type") {
        format!("no_argument_of_type_{}", after("of type "))
    } else if e.contains("Output type incorrect") {
        format!("output_type_{}", after("incorrect: "))
    } else if e.contains("Data type incorrect") {
        format!("data_type_{}", after("incorrect: "))
    } else if e.contains("Function not found") {
        "function_not_found".into()
    } else if e.contains("Variable not found") {
        "variable_not_found".into()
    } else if e.contains("is not present in") {
        "field_not_present".into()
    } else if e.contains("cannot compare Tree") {
        "cannot_compare_tree".into()
    } else {
        let c: String = e
            .chars()
            .map(|c| if c.is_ascii_alphabetic() { c } else { '_' })
            .take(40)
            .collect();
        format!("other:{c}")
    }
}

fn describe(ev: &Ev) -> String {
    match ev {
        Ev::Tree(t) => format!("tree {}", show_tree(t)),
        Ev::Err(e) => format!("error: {e}"),
        Ev::Panic(pi) => format!("panic at {}: {}", pi.site(), pi.msg),
    }
}

fn note_inconclusive(st: &mut Stats, msg: String) {
    st.inc("inconclusive_events");
    if st.inconclusive.len() < 4 {
        st.inconclusive.push(msg);
    }
}

/// Reports outcome `ev` (which is not the expected tree) of a script
fn report(
    st: &mut Stats,
    case: u64,
    kind: &str,
    tag: &str,
    ev: &Ev,
    detail: serde_json::Value,
) {
    match ev {
        Ev::Tree(_) => st.violation(
            case,
            format!("mismatch:{tag}"),
            format!("{kind} script evaluates to a tree different from the one built by the corresponding Rust calls (first differing construct: {tag})"),
            detail,
        ),
        Ev::Err(e) => {
            let class = err_class(e);
            if class.starts_with("engine_limit") || class == "syntax_error" {
                // generator trouble, not a fidget fault
                note_inconclusive(st, format!("case {case}: generated script not accepted by the parser/limits: {e}; detail {}", clip(detail.to_string(), 600)));
            } else {
                st.violation(
                    case,
                    format!("error:{tag}:{class}"),
                    format!("{kind} script uses only documented forms but is rejected ({tag}): {e}"),
                    detail,
                );
            }
        }
        Ev::Panic(pi) => {
            if pi.in_repo() {
                st.violation(
                    case,
                    format!("panic:{}:{}", pi.site(), pi.msg_class()),
                    format!("panic inside fidget while evaluating a {kind} script at {}: {}", pi.site(), pi.msg),
                    detail,
                );
            } else {
                note_inconclusive(st, format!("case {case}: panic outside fidget at {}:{}: {}", pi.file, pi.line, pi.msg));
            }
        }
    }
}

/// Evaluates the script made of `g`'s statements and `fin`; on disagreement
/// finds the first sub-expression that disagrees on its own
fn check_script(
    st: &mut Stats,
    case: u64,
    g: &Gen,
    fin: &TE,
    fin_subs: (usize, usize),
    kind: &str,
) -> bool {
    let script = g.script_with(&fin.s);
    st.inc("scripts_evaluated");
    st.max("max_script_bytes", script.len() as f64);
    st.max("max_unfolded_tree_bound", fin.size as f64);
    st.max("max_depth_units", fin.depth as f64);
    let whole = eval_tree(&script);
    if let Ev::Tree(t) = &whole {
        if *t == fin.t {
            st.inc(&format!("{kind}_scripts_equal"));
            return true;
        }
    }
    // localise: statements in order, sub-expressions in post-order
    let mut found: Option<(String, String, Ev, String)> = None;
    let mut ranges: Vec<(usize, (usize, usize))> =
        g.info.iter().enumerate().map(|(k, i)| (k, i.subs)).collect();
    ranges.push((g.stmts.len(), fin_subs));
    'outer: for (k, (a, b)) in ranges {
        let mut prefix = g.stmts[..k].join("\n");
        if !prefix.is_empty() {
            prefix.push('\n');
        }
        for sub in &g.subs[a..b] {
            let s = format!("{prefix}{}", sub.s);
            let ev = eval_tree(&s);
            let ok = matches!(&ev, Ev::Tree(t) if *t == sub.t);
            if !ok {
                found = Some((sub.tag.clone(), s, ev, show_tree(&sub.t)));
                break 'outer;
            }
        }
    }
    match found {
        Some((tag, sub_script, ev, expected)) => {
            let detail = json!({
                "script": clip(script, 4000),
                "whole_script_outcome": describe(&whole),
                "whole_script_expected": show_tree(&fin.t),
                "first_failing_subexpression": sub_script,
                "subexpression_outcome": describe(&ev),
                "subexpression_expected": expected,
                "construct": tag,
            });
            report(st, case, kind, &tag, &ev, detail);
        }
        None => {
            let detail = json!({
                "script": clip(script, 4000),
                "whole_script_outcome": describe(&whole),
                "whole_script_expected": show_tree(&fin.t),
                "note": "every logged sub-expression agrees on its own",
            });
            report(st, case, kind, "unlocalised", &whole, detail);
        }
    }
    false
}

fn flush_cov(st: &mut Stats, g: &mut Gen) {
    for (set, m) in g.cov.drain(..) {
        st.set_insert(set, &m);
    }
}

fn run_main(case: u64, rng: &mut Rng, st: &mut Stats) {
    let mut g = Gen::new(rng.fork());
    let (fin, fin_subs) = g.gen_main();
    let script = g.script_with(&fin.s);
    st.distinct(hash_str(&script));
    st.add("statements", g.stmts.len() as u64 + 1);
    st.add("tree_subexpressions", g.subs.len() as u64);
    check_script(st, case, &g, &fin, fin_subs, "main");
    st.sample(|| json!({"script": clip(script, 1200), "expected_tree": clip(format!("{:?}", fin.t), 600)}));
    flush_cov(st, &mut g);
}

fn run_focus(case: u64, rng: &mut Rng, st: &mut Stats) {
    let items = focus_items();
    let item = items[(case % items.len() as u64) as usize];
    let mut g = Gen::new(rng.fork());
    g.nodes_left = rng.range(0, 3) as i32;
    let budget = 24;
    let start = g.subs.len();
    let (fin, kind) = match item {
        Focus::Bin(op, form, method) => (g.binary(budget, op, form, method), "focus"),
        Focus::Un(op, style) => (g.unary(budget, op, style), "focus"),
        Focus::Shape(si, f) => (g.shape(si, f, budget, Quirk::None), "focus"),
        Focus::Promised(si, f, q) => (g.shape(si, f, budget, q), "promised"),
        Focus::Remap(three) => (g.remap(budget, three), "focus"),
    };
    // half of the time through a binding
    let end = g.subs.len();
    if rng.chance(0.3) {
        let name = format!("r{}", g.id());
        g.stmts.push(format!("let {name} = {};", fin.s));
        g.info.push(StmtInfo { var: Some((name.clone(), fin.t.clone())), subs: (start, end) });
        let fin2 = TE { s: name, t: fin.t.clone(), depth: 1, size: fin.size, prec: P_PRIM };
        check_script(st, case, &g, &fin2, (end, end), kind);
    } else {
        check_script(st, case, &g, &fin, (start, end), kind);
    }
    if kind == "promised" {
        st.inc("promised_form_scripts");
    }
    flush_cov(st, &mut g);
}

/// Comparison operators with a tree on either side must be rejected
fn run_cmp(case: u64, rng: &mut Rng, st: &mut Stats) {
    let n = (CMP_OPS.len() * CMP_FORMS.len()) as u64;
    let idx = (case % n) as usize;
    let op = CMP_OPS[idx / CMP_FORMS.len()];
    let form = CMP_FORMS[idx % CMP_FORMS.len()];
    let variant = (case / n) % 3;
    let mut g = Gen::new(rng.fork());
    g.nodes_left = rng.range(0, 3) as i32;
    let (lk, rk) = form.sides();
    let l = g.operand(lk, 14);
    let r = g.operand(rk, 14);
    let ls = format!("({})", l.0);
    let rs = format!("({})", r.0);
    // the operands alone must be fine
    let pre = g.script_with(&format!("let l_ = {ls};\nlet r_ = {rs};"));
    match run_unit(&pre) {
        Ok(Ok(())) => {}
        other => {
            st.inc("comparison_operands_not_accepted");
            if let Err(pi) = other {
                if pi.in_repo() {
                    st.violation(
                        case,
                        format!("panic:{}:{}", pi.site(), pi.msg_class()),
                        format!("panic inside fidget at {}: {}", pi.site(), pi.msg),
                        json!({"script": pre}),
                    );
                }
            }
            return;
        }
    }
    let script = match variant {
        0 => g.script_with(&format!("{ls} {op} {rs};")),
        1 => g.script_with(&format!("let c_ = {ls} {op} {rs};\naxes().x")),
        _ => g.script_with(&format!("if {ls} {op} {rs} {{ axes().x }} else {{ axes().y }}")),
    };
    st.inc("comparison_scripts");
    let accepted: Option<String> = if variant == 0 {
        match run_unit(&script) {
            Ok(Ok(())) => Some("script ran to completion".into()),
            Ok(Err(e)) => {
                st.set_insert("comparison_error_classes", &err_class(&e));
                None
            }
            Err(pi) => {
                if pi.in_repo() {
                    st.violation(
                        case,
                        format!("panic:{}:{}", pi.site(), pi.msg_class()),
                        format!("panic inside fidget at {}: {}", pi.site(), pi.msg),
                        json!({"script": script}),
                    );
                } else {
                    note_inconclusive(st, format!("case {case}: panic outside fidget: {}", pi.msg));
                }
                return;
            }
        }
    } else {
        match eval_tree(&script) {
            Ev::Tree(t) => Some(format!("script returned {}", show_tree(&t))),
            Ev::Err(e) => {
                st.set_insert("comparison_error_classes", &err_class(&e));
                None
            }
            Ev::Panic(pi) => {
                if pi.in_repo() {
                    st.violation(
                        case,
                        format!("panic:{}:{}", pi.site(), pi.msg_class()),
                        format!("panic inside fidget at {}: {}", pi.site(), pi.msg),
                        json!({"script": script}),
                    );
                } else {
                    note_inconclusive(st, format!("case {case}: panic outside fidget: {}", pi.msg));
                }
                return;
            }
        }
    };
    st.set_insert("comparison_forms", &format!("{op}:{}", form.name()));
    let template = ["statement", "let binding", "if condition"][variant as usize];
    match accepted {
        None => st.inc("comparisons_rejected"),
        Some(how) => st.violation(
            case,
            format!("comparison_accepted:{op}:{}", form.name()),
            format!("comparison `{op}` with a tree operand ({}) was not rejected: {how}", form.name()),
            json!({"script": script, "operator": op, "operand_form": form.name(),
                   "template": template}),
        ),
    }
    flush_cov(st, &mut g);
}

impl Prop for C17 {
    fn id(&self) -> &'static str {
        "C17"
    }
    fn mode(&self) -> Mode {
        Mode::Threads
    }
    fn n_cases(&self, tier: Tier) -> u64 {
        tier.pick(100_000, 3_000_000)
    }
    fn time_cap_s(&self, tier: Tier) -> u64 {
        tier.pick(60, 800)
    }
    fn run_case(&self, case: u64, rng: &mut Rng, st: &mut Stats, _tier: Tier) {
        run_main(case, rng, st);
        run_focus(case, rng, st);
        run_cmp(case, rng, st);
    }
    fn extra_stage(&self, st: &mut Stats, tier: Tier, _seed: u64) {
        // the `unsafe` reflection code behind every script call form
        // (`Type::build_from_default_fn`, `eval_default_fn`, the
        // `facet::Partial` builder), interpreted by Miri
        if tier == Tier::Thorough {
            crate::props::miri::run_miri_stage(st, "script", 0, None, 2 * 3600);
        }
    }
    fn finish(&self, st: &mut Stats, _tier: Tier) {
        let mut missing: Vec<String> = vec![];
        for (set, m) in required_coverage() {
            let seen = st.sets.get(set).map(|s| s.contains(&m)).unwrap_or(false);
            if !seen {
                missing.push(format!("{set}/{m}"));
            }
        }
        st.add("required_coverage_members", required_coverage().len() as u64);
        st.add("required_coverage_missing", missing.len() as u64);
        if !missing.is_empty() {
            let shown: Vec<String> = missing.iter().take(12).cloned().collect();
            st.inconclusive.push(format!(
                "{} required operator/shape/call-form combinations were never observed, e.g. {}",
                missing.len(),
                shown.join(", ")
            ));
        }
        let cases = st.get("cases_run");
        if st.get("scripts_evaluated") < 2 * cases || cases == 0 {
            st.inconclusive.push(format!(
                "only {} scripts evaluated in {} cases",
                st.get("scripts_evaluated"),
                cases
            ));
        }
        let cmp = st.get("comparison_scripts");
        if cmp * 10 < cases * 9 {
            st.inconclusive.push(format!(
                "only {cmp} comparison scripts in {cases} cases ({} operand pairs not accepted)",
                st.get("comparison_operands_not_accepted")
            ));
        }
    }
    fn rule(&self) -> String {
        "each case = (a) one generated multi-statement script (let/const bindings, injected x/y/z, axes(), shadowing, every operator/function in tree∘tree, tree∘number, number∘tree, tree∘array forms with int/float literals, every fidget_shapes constructor in map / uniquely-typed positional (any order, defaults omitted) / chained-map / ordered / two-tree / reduction forms, vec2→vec3 promotion, axis/plane from strings, chars, vectors) evaluated by fidget_rhai::engine().eval::<Tree>() and compared with Tree == Tree against the tree built by the corresponding fidget_core / fidget_shapes calls; (b) one small focus script taken round-robin from the table operator×operand form, function×call style, shape×call form (incl. documented forms kept out of (a)); (c) one comparison (== != < > <= >=) with a tree on either side in statement / let / if position, which must raise an error; distinct = hash of the main script text".into()
    }
    fn assumptions(&self) -> Vec<String> {
        vec![
            "the namesake of a script function is the fidget_core::context::Tree method / operator of the same name (`%` = modulo, `atan2` = atan2), of a shape constructor the fidget_shapes struct of the same (CamelCase) name converted with Tree::from".into(),
            "field defaults and the vec2→vec3 default z are the `#[facet(default = ..)]` values documented on the fidget_shapes fields; a vec3 field without default promoted in a map form gets z = 0".into(),
            "number literals are exactly representable in f32; scripts stay below expression depth 64 and 50 000 operations (scripts refused by the parser for these limits are counted as inconclusive, never as violations)".into(),
            "also judged by the same rule because the anchored files register them: `remap` (= Tree::remap_xyz, z kept for the 2-argument form), vec2/vec3 arithmetic (= the fidget_shapes::types operators), the documented named constants (value `as f32`), and the declaration-ordered positional form used by the repository's own tests (`rectangle([0,0],[1,1])`, `extrude_z(x, 0, 1)`)".into(),
            "calls with two values of the same type in the uniquely-typed form, vectors as axis in the uniquely-typed form, unary functions of plain numbers and number∘number arithmetic are outside the documented domain and not generated".into(),
        ]
    }
}
