//! C14 - shape evaluation binds variables by identity and applies the
//! transform. Every shape-level entry point is compared with (a) the same
//! backend's raw function fed by identity through its own `vars()` map, with
//! the transformed inputs observed through the trivial shapes X, Y, Z, and
//! (b) `Context::eval` at the position transformed with nalgebra.
use crate::gen_::boxes;
use crate::gen_::prog::{self, Bin, Consts, GenCfg, Inputs, Prog, Un};
use crate::monitor::child;
use crate::props::evalutil::*;
use crate::refmodel::graph;
use crate::util::{Rng, Stats, Tier, fbits, guarded, same_bits, same_val};
use crate::{Mode, Prop};
use fidget_core::context::{Context, Node};
use fidget_core::shape::{Shape, ShapeVars};
use fidget_core::types::{Grad, Interval};
use fidget_core::var::Var;
use fidget_core::vm::{Choice, VmFunction, VmTrace};
use fidget_jit::JitFunction;
use nalgebra::{Matrix4, Point3};
use serde_json::{Value, json};
use std::collections::HashMap;

pub struct C14;

struct Viol {
    sig: String,
    msg: String,
    detail: Value,
}

fn random_matrix(rng: &mut Rng) -> Matrix4<f32> {
    let mut m = Matrix4::<f32>::identity();
    let proj = rng.chance(0.25);
    for i in 0..3 {
        for j in 0..4 {
            m[(i, j)] = rng.uniform(-1.5, 1.5) as f32;
        }
    }
    if proj {
        if rng.chance(0.5) {
            for j in 0..3 {
                m[(3, j)] = rng.uniform(-0.1, 0.1) as f32;
            }
            m[(3, 3)] = rng.uniform(0.8, 1.2) as f32;
        } else {
            // affine with a homogeneous scale w != 1
            m[(3, 3)] = *rng.pick(&[0.5f32, 0.75, 2.0, 3.0]);
        }
    }
    // structural special cases (see C03): parts of the matrix exactly those
    // of the identity while others are not
    if rng.chance(0.3) {
        if rng.chance(0.5) {
            for i in 0..3 {
                m[(i, 3)] = 0.0;
            }
        }
        if rng.chance(0.5) {
            m[(3, 3)] = 1.0;
        }
        if rng.chance(0.3) {
            for i in 0..3 {
                for j in 0..3 {
                    m[(i, j)] = if i == j { 1.0 } else { 0.0 };
                }
            }
        }
        if rng.chance(0.3) {
            for j in 0..3 {
                m[(3, j)] = rng.uniform(-0.3, 0.3) as f32;
            }
            // a single perspective term (a view tilted about one axis)
            if rng.chance(0.4) {
                let keep = rng.below(3);
                for j in 0..3 {
                    if j != keep {
                        m[(3, j)] = 0.0;
                    }
                }
            }
        }
    }
    m
}

thread_local! {
    /// evaluator type -> evaluator kept for the whole run of this thread
    static LONG: std::cell::RefCell<HashMap<std::any::TypeId, Box<dyn std::any::Any>>> = std::cell::RefCell::new(HashMap::new());
}

/// Runs `f` on this thread's long-lived evaluator of type `T`
fn with_long<T: 'static, R>(make: impl FnOnce() -> T, f: impl FnOnce(&mut T) -> R) -> R {
    let mut ev: Box<T> = LONG
        .with(|m| m.borrow_mut().remove(&std::any::TypeId::of::<T>()))
        .and_then(|b| b.downcast::<T>().ok())
        .unwrap_or_else(|| Box::new(make()));
    let r = f(&mut ev);
    LONG.with(|m| m.borrow_mut().insert(std::any::TypeId::of::<T>(), ev));
    r
}

fn g_eq(a: Grad, b: Grad) -> bool {
    same_bits(a.v, b.v) && same_bits(a.dx, b.dx) && same_bits(a.dy, b.dy) && same_bits(a.dz, b.dz)
}
fn i_eq(a: Interval, b: Interval) -> bool {
    same_bits(a.lower(), b.lower()) && same_bits(a.upper(), b.upper())
}

fn check_backend<F: Backend>(
    p: &Prog,
    b: &prog::Built,
    root: Node,
    rng: &mut Rng,
    st: &mut Stats,
) -> Result<(), Viol>
where
    <F as fidget_core::eval::Function>::PointEval: 'static,
    <F as fidget_core::eval::Function>::IntervalEval: 'static,
    <F as fidget_core::eval::Function>::FloatSliceEval: 'static,
    <F as fidget_core::eval::Function>::GradSliceEval: 'static,
{
    let name = F::NAME;
    let v = |sig: &str, msg: String, detail: Value| Viol { sig: format!("{name}:{sig}"), msg, detail };
    let shape = Shape::<F>::new(&b.ctx, root).unwrap();
    let f = F::new(&b.ctx, &[root]).unwrap();
    let vmap = f.vars();
    let used: Vec<Var> = vmap.iter().map(|(v, _)| v).collect();
    let free: Vec<Var> = used.iter().copied().filter(|v| matches!(v, Var::V(_))).collect();
    if free.len() >= 10 {
        st.inc("functions_with_10plus_free_vars");
    }
    // trivial shapes to observe the transformed inputs
    let mut actx = Context::new();
    let axes = actx.axes();
    let ax_shapes: Vec<Shape<F>> = axes.iter().map(|a| Shape::<F>::new(&actx, *a).unwrap()).collect();

    // values by program variable slot
    let vals = prog::gen_inputs(rng, p.n_vars, Inputs::Tame);
    let val_of: HashMap<Var, f32> = b.vars.iter().zip(vals.iter()).map(|(v, x)| (*v, *x)).collect();
    let pos = [vals[0], vals[1], vals[2]];
    // supply variables in random order, with extras
    let mut order: Vec<Var> = free.clone();
    rng.shuffle(&mut order);
    let mut sv: ShapeVars<f32> = ShapeVars::new();
    for _ in 0..rng.below(4) {
        sv.insert(Var::new().index().unwrap(), rng.uniform(-5.0, 5.0) as f32);
    }
    for var in &order {
        sv.insert(var.index().unwrap(), val_of[var]);
    }
    // unused program variables as extras, too
    for var in b.vars.iter().skip(3) {
        if !used.contains(var) && rng.chance(0.5) {
            sv.insert(var.index().unwrap(), 99.0);
        }
    }
    let m = random_matrix(rng);
    let raw_input = |x: f32, y: f32, z: f32| -> Vec<f32> {
        let mut inp = vec![0f32; vmap.len()];
        for (var, idx) in vmap.iter() {
            inp[idx] = match var {
                Var::X => x,
                Var::Y => y,
                Var::Z => z,
                other => val_of[&other],
            };
        }
        inp
    };
    let order_nodes = graph::topo(&b.ctx, &[root]);
    let setup = || json!({"values_by_var_slot": vals.iter().map(|v| format!("{v:?}")).collect::<Vec<_>>(), "matrix": format!("{m:?}"), "free_vars_used": free.len()});

    // ---------------- point evaluator
    {
        let tape = shape.point_tape(Default::default());
        let mut ev = Shape::<F>::new_point_eval();
        child::note(&format!("C14 {name} shape point eval | program {:016x}", p.hash()));
        // without transform
        let got = ev.eval_with_vars(&tape, pos[0], pos[1], pos[2], &sv).map(|r| r.0).map_err(|e| v("point_error", e.to_string(), setup()))?;
        let (want, _) = point_eval(&f, &raw_input(pos[0], pos[1], pos[2])).map_err(|e| v("eval_error", e, json!(null)))?;
        st.inc("point_checks");
        if !same_bits(got, want[0]) {
            return Err(v("point_binding", format!("shape point evaluation gives {got:?}, the function fed by identity gives {:?}", want[0]), setup()));
        }
        // independent: Context::eval by identity
        let mut hm = val_of.clone();
        hm.insert(Var::X, pos[0]);
        hm.insert(Var::Y, pos[1]);
        hm.insert(Var::Z, pos[2]);
        let info = analyse_with(b, &order_nodes, &vals, F::IS_JIT);
        let cref = b.ctx.eval(root, &hm).unwrap();
        match info.taint[&root] {
            Taint::Clean => {
                st.inc("context_checks");
                if !same_bits(got, cref) {
                    return Err(v("point_vs_context", format!("shape point evaluation gives {got:?}, Context::eval with the variables taken by identity gives {cref:?}"), setup()));
                }
            }
            Taint::Source => {
                if !same_val(got, cref) {
                    return Err(v("point_vs_context", format!("shape point evaluation gives {got:?}, Context::eval gives {cref:?}"), setup()));
                }
            }
            Taint::Tainted => st.inc("context_checks_skipped_taint"),
        }
        // with transform: position transformed as documented (nalgebra)
        let got_t = ev.eval_with_transform_and_vars(&tape, pos[0], pos[1], pos[2], &m, &sv).map(|r| r.0).map_err(|e| v("point_error", e.to_string(), setup()))?;
        let q = m.transform_point(&Point3::new(pos[0], pos[1], pos[2]));
        let (want_t, _) = point_eval(&f, &raw_input(q.x, q.y, q.z)).map_err(|e| v("eval_error", e, json!(null)))?;
        st.inc("point_transform_checks");
        if !same_bits(got_t, want_t[0]) {
            return Err(v("point_transform", format!("shape point evaluation with a transform gives {got_t:?}, the function at the transformed position gives {:?}", want_t[0]), setup()));
        }
        // the same call through an evaluator that has lived through every
        // earlier case of this thread (whose shapes, tapes and variable maps
        // have all been dropped since - their addresses are in use again)
        let long = with_long(Shape::<F>::new_point_eval, |ev| ev.eval_with_transform_and_vars(&tape, pos[0], pos[1], pos[2], &m, &sv).map(|r| r.0));
        st.inc("long_lived_point_evaluator_checks");
        match long {
            Ok(l) if same_bits(l, got_t) => {}
            Ok(l) => return Err(v("long_lived_point_eval_binding", format!("a point evaluator used for earlier (dropped) shapes gives {l:?}, a fresh one gives {got_t:?}"), setup())),
            Err(e) => return Err(v("long_lived_point_eval_error", format!("a point evaluator used for earlier (dropped) shapes fails with {e}, a fresh one succeeds"), setup())),
        }
        if free.is_empty() {
            let g2 = ev.eval(&tape, pos[0], pos[1], pos[2]).map(|r| r.0).map_err(|e| v("point_error", e.to_string(), setup()))?;
            let g3 = ev.eval_with_transform(&tape, pos[0], pos[1], pos[2], &m).map(|r| r.0).map_err(|e| v("point_error", e.to_string(), setup()))?;
            if !same_bits(g2, got) || !same_bits(g3, got_t) {
                return Err(v("point_entry_points", "eval / eval_with_transform disagree with the *_and_vars entry points".into(), setup()));
            }
        } else {
            // a missing variable is an error naming that variable
            let miss = *rng.pick(&free);
            let mut sv2: ShapeVars<f32> = ShapeVars::new();
            for var in &free {
                if *var != miss {
                    sv2.insert(var.index().unwrap(), val_of[var]);
                }
            }
            // unrelated extras, sometimes more of them than needed variables
            for _ in 0..*rng.pick(&[0usize, 1, 2, 5, 50]) {
                sv2.insert(Var::new().index().unwrap(), rng.uniform(-5.0, 5.0) as f32);
            }
            st.inc("missing_var_checks");
            match ev.eval_with_vars(&tape, pos[0], pos[1], pos[2], &sv2) {
                Err(fidget_core::shape::ShapeTracingEvalError::MissingVar(mv)) => {
                    if Some(mv.var) != miss.index() {
                        return Err(v("missing_var_wrong_name", "MissingVar names a variable that was supplied".into(), setup()));
                    }
                }
                Ok(_) => return Err(v("missing_var_accepted", "evaluation succeeded although a bound variable was missing".into(), setup())),
            }
            if shape.bind(&sv2).is_ok() {
                return Err(v("bind_missing_accepted", "Shape::bind accepted a variable set with a missing variable".into(), setup()));
            }
            if shape.bind(&sv).is_err() {
                return Err(v("bind_rejected", "Shape::bind rejected a complete variable set (with extras)".into(), setup()));
            }
        }
        // survive simplification: trace at this point, child keeps numbering
        let ptape = f.point_tape(Default::default());
        let _ = ptape;
        let (_, tr) = point_eval(&f, &raw_input(pos[0], pos[1], pos[2])).map_err(|e| v("eval_error", e, json!(null)))?;
        if let Some(tr) = tr {
            let mut t = VmTrace::default();
            t.resize(tr.len(), Choice::Unknown);
            t.as_mut_slice().copy_from_slice(&tr);
            if let Ok(Ok(child_shape)) = guarded(|| shape.simplify(&t, Default::default(), &mut Default::default())) {
                let cv = child_shape.inner().vars();
                for (var, idx) in cv.iter() {
                    if vmap.get(&var) != Some(idx) {
                        return Err(v("simplify_renumbered", "the simplified shape renumbered a variable".into(), setup()));
                    }
                }
                let ctape = child_shape.point_tape(Default::default());
                let mut cev = Shape::<F>::new_point_eval();
                let cg = cev.eval_with_vars(&ctape, pos[0], pos[1], pos[2], &sv).map(|r| r.0).map_err(|e| v("point_error", e.to_string(), setup()))?;
                st.inc("simplified_checks");
                if !same_bits(cg, got) {
                    return Err(v("simplified_binding", format!("after simplification the shape evaluates to {cg:?} at the traced point instead of {got:?}"), setup()));
                }
            }
        }
    }

    // transformed inputs as seen by each evaluator kind
    // ---------------- bulk float
    {
        let n = 1 + rng.below(11);
        let mut xs: Vec<f32> = (0..n).map(|_| rng.uniform(-2.0, 2.0) as f32).collect();
        let mut ys: Vec<f32> = (0..n).map(|_| rng.uniform(-2.0, 2.0) as f32).collect();
        let mut zs: Vec<f32> = (0..n).map(|_| rng.uniform(-2.0, 2.0) as f32).collect();
        // samples at exactly special positions: coordinates that are exactly
        // zero (of either sign), and - under a perspective row - positions
        // on the locus where the homogeneous weight is exactly m33 (every
        // coordinate with a non-zero perspective coefficient is zero), e.g.
        // the plane z = 0 of a view with bottom row [0, 0, p, 1]
        for j in 0..n {
            match rng.below(6) {
                0 => {
                    let k = rng.below(3);
                    let z = if rng.chance(0.5) { 0.0 } else { -0.0 };
                    [&mut xs, &mut ys, &mut zs][k][j] = z;
                }
                1 => {
                    for (k, col) in [&mut xs, &mut ys, &mut zs].into_iter().enumerate() {
                        if m[(3, k)] != 0.0 {
                            col[j] = 0.0;
                        }
                    }
                    st.inc("samples_on_unit_weight_locus");
                }
                _ => {}
            }
        }
        let tape = shape.float_slice_tape(Default::default());
        let mut ev = Shape::<F>::new_float_slice_eval();
        child::note(&format!("C14 {name} shape bulk eval | program {:016x}", p.hash()));
        let got: Vec<f32> = ev.eval_with_transform_and_vars(&tape, &xs, &ys, &zs, &m, &sv).map(|o| o.to_vec()).map_err(|e| v("bulk_error", e.to_string(), setup()))?;
        // the same call through a bulk evaluator that has lived through
        // every earlier case of this thread (other variable counts, other
        // sample counts)
        {
            let long = guarded(|| with_long(Shape::<F>::new_float_slice_eval, |ev| ev.eval_with_transform_and_vars(&tape, &xs, &ys, &zs, &m, &sv).map(|o| o.to_vec())));
            st.inc("long_lived_bulk_evaluator_checks");
            match long {
                Ok(Ok(l)) if l.len() == got.len() && l.iter().zip(&got).all(|(a, b)| same_bits(*a, *b)) => {}
                Ok(Ok(l)) => return Err(v("long_lived_bulk_eval_binding", format!("a float-slice shape evaluator used for earlier shapes gives {l:?}, a fresh one gives {got:?}"), setup())),
                Ok(Err(e)) => return Err(v("long_lived_bulk_eval_error", format!("a float-slice shape evaluator used for earlier shapes fails with {e}, a fresh one succeeds"), setup())),
                Err(pi) => return Err(v("long_lived_bulk_eval_panic", format!("a float-slice shape evaluator used for earlier shapes panics at {}: {}", pi.site(), pi.msg), setup())),
            }
        }
        // per-sample variable arrays (each sample its own value)
        let arrays: HashMap<Var, Vec<f32>> = free.iter().map(|var| (*var, (0..n).map(|j| val_of[var] + j as f32 * 0.25).collect())).collect();
        let mut sva: ShapeVars<Vec<f32>> = ShapeVars::new();
        for var in &order {
            sva.insert(var.index().unwrap(), arrays[var].clone());
        }
        sva.insert(Var::new().index().unwrap(), vec![7.0; n]);
        // "extra supplied variables are ignored": also one whose array has
        // another length (nothing ever reads it)
        sva.insert(Var::new().index().unwrap(), vec![7.0; *rng.pick(&[0usize, 1, n + 1, 2 * n + 3])]);
        let got_arr: Vec<f32> = ev.eval_with_transform_and_var_arrays(&tape, &xs, &ys, &zs, &m, &sva).map(|o| o.to_vec()).map_err(|e| v("bulk_error", e.to_string(), setup()))?;
        let got_plain: Vec<f32> = ev.eval_with_vars(&tape, &xs, &ys, &zs, &sv).map(|o| o.to_vec()).map_err(|e| v("bulk_error", e.to_string(), setup()))?;
        let got_plain_arr: Vec<f32> = ev.eval_with_var_arrays(&tape, &xs, &ys, &zs, &sva).map(|o| o.to_vec()).map_err(|e| v("bulk_error", e.to_string(), setup()))?;
        if got.len() != n || got_arr.len() != n || got_plain.len() != n || got_plain_arr.len() != n {
            return Err(v("bulk_len", "bulk shape evaluation returned the wrong number of samples".into(), setup()));
        }
        // reference: raw function, columns arranged by identity
        let col = |tx: &[f32], ty: &[f32], tz: &[f32], per_sample: bool| -> Vec<Vec<f32>> {
            let mut cols = vec![vec![0f32; n]; vmap.len()];
            for (var, idx) in vmap.iter() {
                cols[idx] = match var {
                    Var::X => tx.to_vec(),
                    Var::Y => ty.to_vec(),
                    Var::Z => tz.to_vec(),
                    other => {
                        if per_sample {
                            arrays[&other].clone()
                        } else {
                            vec![val_of[&other]; n]
                        }
                    }
                };
            }
            cols
        };
        let tq: Vec<Point3<f32>> = (0..n).map(|j| m.transform_point(&Point3::new(xs[j], ys[j], zs[j]))).collect();
        let (tx, ty, tz): (Vec<f32>, Vec<f32>, Vec<f32>) = (tq.iter().map(|q| q.x).collect(), tq.iter().map(|q| q.y).collect(), tq.iter().map(|q| q.z).collect());
        if !vmap.is_empty() {
            for (what, got, cols) in [
                ("bulk_transform_vars", &got, col(&tx, &ty, &tz, false)),
                ("bulk_transform_var_arrays", &got_arr, col(&tx, &ty, &tz, true)),
                ("bulk_vars", &got_plain, col(&xs, &ys, &zs, false)),
                ("bulk_var_arrays", &got_plain_arr, col(&xs, &ys, &zs, true)),
            ] {
                let want = float_slice_eval(&f, &cols).map_err(|e| v("eval_error", e, json!(null)))?;
                st.inc("bulk_checks");
                for j in 0..n {
                    if !same_bits(got[j], want[0][j]) {
                        return Err(v(what, format!("{what}: sample {j} gives {:?}, the function fed by identity gives {:?}", got[j], want[0][j]), setup()));
                    }
                }
            }
        }
        // mismatched variable array length is an error
        if let Some(var) = free.first() {
            let mut bad: ShapeVars<Vec<f32>> = ShapeVars::new();
            for w in &free {
                bad.insert(w.index().unwrap(), if w == var { vec![0.0; n + 1] } else { arrays[w].clone() });
            }
            if ev.eval_with_var_arrays(&tape, &xs, &ys, &zs, &bad).is_ok() {
                return Err(v("bulk_array_len_accepted", "a variable array of the wrong length was accepted".into(), setup()));
            }
        }

        // ---------------- gradients: transformed Grad inputs observed through X,Y,Z
        // derivative seeds: per batch either the same for every sample
        // (standard basis, or a sheared basis) or different from sample to
        // sample - the standard basis first, last or nowhere
        let seed_mode = rng.below(5);
        let mut seeds: Vec<[[f32; 3]; 3]> = (0..n)
            .map(|j| {
                let basis = [[1.0, 0.0, 0.0], [0.0, 1.0, 0.0], [0.0, 0.0, 1.0]];
                let shear = [[1.0, 0.0, 0.0], [0.0, 1.0, 0.0], [0.25, 0.0, 1.0]];
                match seed_mode {
                    0 => basis,
                    1 => shear,
                    _ => {
                        if (seed_mode == 2 && j == 0) || (seed_mode == 3 && j + 1 == n) {
                            basis
                        } else {
                            let mut r = [[0f32; 3]; 3];
                            for row in r.iter_mut() {
                                for e in row.iter_mut() {
                                    *e = if rng.chance(0.3) { 0.0 } else { rng.uniform(-2.0, 2.0) as f32 };
                                }
                            }
                            r
                        }
                    }
                }
            })
            .collect();
        if seed_mode >= 2 && n >= 2 {
            st.inc("grad_batches_with_seeds_varying_per_sample");
        }
        if seeds.is_empty() {
            seeds.push([[0.0; 3]; 3]);
        }
        let gx: Vec<Grad> = xs.iter().enumerate().map(|(j, x)| Grad::new(*x, seeds[j][0][0], seeds[j][0][1], seeds[j][0][2])).collect();
        let gy: Vec<Grad> = ys.iter().enumerate().map(|(j, y)| Grad::new(*y, seeds[j][1][0], seeds[j][1][1], seeds[j][1][2])).collect();
        let gz: Vec<Grad> = zs.iter().enumerate().map(|(j, z)| Grad::new(*z, seeds[j][2][0], seeds[j][2][1], seeds[j][2][2])).collect();
        let gtape = shape.grad_slice_tape(Default::default());
        let mut gev = Shape::<F>::new_grad_slice_eval();
        let ggot: Vec<Grad> = gev.eval_with_transform_and_vars(&gtape, &gx, &gy, &gz, &m, &sv).map(|o| o.to_vec()).map_err(|e| v("grad_error", e.to_string(), setup()))?;
        {
            let long = guarded(|| with_long(Shape::<F>::new_grad_slice_eval, |ev| ev.eval_with_transform_and_vars(&gtape, &gx, &gy, &gz, &m, &sv).map(|o| o.to_vec())));
            match long {
                Ok(Ok(l)) if l.len() == ggot.len() && l.iter().zip(&ggot).all(|(a, b)| g_eq(*a, *b)) => {}
                Ok(Ok(_)) => return Err(v("long_lived_grad_eval_binding", "a grad-slice shape evaluator used for earlier shapes gives other results than a fresh one".into(), setup())),
                Ok(Err(e)) => return Err(v("long_lived_grad_eval_error", format!("a grad-slice shape evaluator used for earlier shapes fails with {e}, a fresh one succeeds"), setup())),
                Err(pi) => return Err(v("long_lived_grad_eval_panic", format!("a grad-slice shape evaluator used for earlier shapes panics at {}: {}", pi.site(), pi.msg), setup())),
            }
        }
        let mut tin: Vec<Vec<Grad>> = vec![];
        for s in &ax_shapes {
            let t = s.grad_slice_tape(Default::default());
            let mut e = Shape::<F>::new_grad_slice_eval();
            tin.push(e.eval_with_transform(&t, &gx, &gy, &gz, &m).map(|o| o.to_vec()).map_err(|e| v("grad_error", e.to_string(), setup()))?);
        }
        if !vmap.is_empty() {
            let mut cols = vec![vec![Grad::from(0.0); n]; vmap.len()];
            for (var, idx) in vmap.iter() {
                cols[idx] = match var {
                    Var::X => tin[0].clone(),
                    Var::Y => tin[1].clone(),
                    Var::Z => tin[2].clone(),
                    other => vec![Grad::from(val_of[&other]); n],
                };
            }
            let want = grad_slice_eval(&f, &cols).map_err(|e| v("eval_error", e, json!(null)))?;
            st.inc("grad_checks");
            for j in 0..n {
                if !g_eq(ggot[j], want[0][j]) {
                    return Err(v("grad_transform_vars", format!("gradient sample {j} gives {:?}, the function fed by identity with the transformed inputs gives {:?}", ggot[j], want[0][j]), setup()));
                }
            }
            // the transformed value lanes are the nalgebra-transformed points
            // the transformed partials follow the quotient rule of the
            // homogeneous divide: d(n_k / w) = (dn_k * w - n_k * dw) / w^2
            for j in 0..n {
                let inp = [gx[j], gy[j], gz[j]];
                // value, partials, and the magnitudes of the summed terms
                // (a bound for the f32 rounding error of each sum is a few
                // eps times these)
                let lin = |r: usize| -> (f64, [f64; 3], f64, [f64; 3]) {
                    let mut v = m[(r, 3)] as f64;
                    let mut sv = (m[(r, 3)] as f64).abs();
                    let mut d = [0f64; 3];
                    let mut sd = [0f64; 3];
                    for c in 0..3 {
                        let mc = m[(r, c)] as f64;
                        v += mc * inp[c].v as f64;
                        sv += (mc * inp[c].v as f64).abs();
                        for (q, dq) in [inp[c].dx, inp[c].dy, inp[c].dz].into_iter().enumerate() {
                            d[q] += mc * dq as f64;
                            sd[q] += (mc * dq as f64).abs();
                        }
                    }
                    (v, d, sv, sd)
                };
                let (w, dw, sw, sdw) = lin(3);
                let e = 8.0 * f32::EPSILON as f64;
                for k in 0..3 {
                    let (nk, dnk, snk, sdnk) = lin(k);
                    let got = [tin[k][j].dx as f64, tin[k][j].dy as f64, tin[k][j].dz as f64];
                    for c in 0..3 {
                        let want = (dnk[c] * w - nk * dw[c]) / (w * w);
                        let scale = (dnk[c] * w).abs().max((nk * dw[c]).abs()) / (w * w) + 1e-30;
                        // first-order propagation of the rounding errors of
                        // w, n_k, dw, dn_k (each a 4-term f32 sum, possibly
                        // with cancellation: w near 0 for perspective rows)
                        let cond = (dnk[c] / (w * w)).abs() * e * sw + (2.0 * want / w).abs() * e * sw
                            + (dw[c] / (w * w)).abs() * e * snk
                            + e * sdnk[c] / w.abs()
                            + (nk / (w * w)).abs() * e * sdw[c];
                        let scale = scale + cond / (64.0 * f32::EPSILON as f64);
                        st.inc("grad_transform_partials_judged");
                        if !((got[c] - want).abs() <= 64.0 * f32::EPSILON as f64 * scale) {
                            return Err(v("grad_transform_partial", format!("the gradient evaluator's transformed coordinate {k} has partial {c} = {:e}, the quotient rule of the homogeneous divide gives {want:e}", got[c]), setup()));
                        }
                    }
                }
            }
            // the transformed value lanes are the transformed positions
            // (documented: nalgebra's transform_point), up to rounding of
            // a different summation order
            for j in 0..n {
                let scale = (0..3).map(|r| (0..4).map(|c| (m[(r, c)] * [xs[j], ys[j], zs[j], 1.0][c]).abs()).sum::<f32>()).fold(1e-30f32, f32::max);
                for (k, t) in [tx[j], ty[j], tz[j]].iter().enumerate() {
                    let g = tin[k][j].v;
                    if !same_bits(g, *t) {
                        st.inc("grad_transform_value_differs_in_bits_from_point_transform");
                    }
                    if !((g - t).abs() <= 16.0 * f32::EPSILON * scale) && !(g.is_nan() && t.is_nan()) {
                        return Err(v("grad_transform_position", format!("the gradient evaluator's transformed coordinate {k} is {g:?}, the matrix maps the position to {t:?}"), setup()));
                    }
                }
            }
        }
    }
    // ---------------- intervals
    {
        let kind = boxes::random_tame_kind(rng);
        let bx = boxes::gen_box(rng, 3, kind);
        let iv = |k: usize| Interval::new(bx[k].0, bx[k].1);
        let tape = shape.interval_tape(Default::default());
        let mut ev = Shape::<F>::new_interval_eval();
        child::note(&format!("C14 {name} shape interval eval | program {:016x}", p.hash()));
        let r = guarded(|| ev.eval_with_transform_and_vars(&tape, iv(0), iv(1), iv(2), &m, &sv).map(|r| r.0));
        // long-lived interval evaluator (see the point evaluator above)
        if let Ok(Ok(fresh)) = &r {
            let long = guarded(|| with_long(Shape::<F>::new_interval_eval, |ev| ev.eval_with_transform_and_vars(&tape, iv(0), iv(1), iv(2), &m, &sv).map(|r| r.0)));
            st.inc("long_lived_interval_evaluator_checks");
            match long {
                Ok(Ok(l)) if i_eq(l, *fresh) => {}
                Ok(Ok(l)) => return Err(v("long_lived_interval_eval_binding", format!("an interval evaluator used for earlier (dropped) shapes gives {l:?}, a fresh one gives {fresh:?}"), setup())),
                Ok(Err(e)) => return Err(v("long_lived_interval_eval_error", format!("an interval evaluator used for earlier (dropped) shapes fails with {e}, a fresh one succeeds"), setup())),
                Err(_) => st.inc("long_lived_interval_eval_panicked"),
            }
        }
        let mut tin = vec![];
        for s in &ax_shapes {
            let t = s.interval_tape(Default::default());
            let mut e = Shape::<F>::new_interval_eval();
            tin.push(guarded(|| e.eval_with_transform(&t, iv(0), iv(1), iv(2), &m).map(|r| r.0)));
        }
        if let (Ok(Ok(got)), Ok(Ok(tx)), Ok(Ok(ty)), Ok(Ok(tz))) = (r, tin[0].clone_result(), tin[1].clone_result(), tin[2].clone_result()) {
            // The transformed box itself is judged against a reference that
            // does not go through the interval transform: the images (f64
            // homogeneous divide) of the corners and of a few inner points
            // must lie in it, wherever the weight stays away from zero over
            // the box.
            let tame = bx.iter().take(3).all(|b| b.0.is_finite() && b.1.is_finite() && b.0.abs() < 1e6 && b.1.abs() < 1e6);
            if tame && ![tx, ty, tz].iter().any(|i| i.has_nan()) {
                let mm = |i: usize, j: usize| m[(i, j)] as f64;
                let mut pts: Vec<[f64; 3]> = vec![];
                for c in 0..8usize {
                    pts.push([0, 1, 2].map(|k| if c >> k & 1 == 0 { bx[k].0 as f64 } else { bx[k].1 as f64 }));
                }
                for _ in 0..4 {
                    pts.push([0, 1, 2].map(|k| rng.uniform(bx[k].0 as f64, bx[k].1 as f64)));
                }
                let wabs = |p: &[f64; 3]| (mm(3, 0) * p[0]).abs() + (mm(3, 1) * p[1]).abs() + (mm(3, 2) * p[2]).abs() + mm(3, 3).abs();
                let w_of = |p: &[f64; 3]| mm(3, 0) * p[0] + mm(3, 1) * p[1] + mm(3, 2) * p[2] + mm(3, 3);
                // the weight is affine: its sign and size over the box are
                // settled by the corners
                let w_ok = pts[..8].iter().all(|p| w_of(p) > 0.05 * wabs(p).max(1e-30)) || pts[..8].iter().all(|p| w_of(p) < -0.05 * wabs(p).max(1e-30));
                if w_ok {
                    st.inc("interval_transform_enclosure_checks");
                    for p in &pts {
                        let w = w_of(p);
                        for (i, t) in [tx, ty, tz].iter().enumerate() {
                            let mag = (mm(i, 0) * p[0]).abs() + (mm(i, 1) * p[1]).abs() + (mm(i, 2) * p[2]).abs() + mm(i, 3).abs();
                            let img = (mm(i, 0) * p[0] + mm(i, 1) * p[1] + mm(i, 2) * p[2] + mm(i, 3)) / w;
                            let tol = 1e-5 * (mag / w.abs()) * (1.0 + wabs(p) / w.abs()) + 1e-30;
                            if img < t.lower() as f64 - tol || img > t.upper() as f64 + tol {
                                return Err(v("interval_transform_enclosure", format!("the transformed box observed through the axis shape {i} is {t:?}, but the point {p:?} of the box maps to {img:e} (weight {w:e})"), setup()));
                            }
                        }
                    }
                } else {
                    st.inc("interval_transform_enclosure_skipped_weight_near_zero");
                }
            }
            let mut inp = vec![Interval::from(0.0); vmap.len()];
            for (var, idx) in vmap.iter() {
                inp[idx] = match var {
                    Var::X => tx,
                    Var::Y => ty,
                    Var::Z => tz,
                    other => Interval::from(val_of[&other]),
                };
            }
            if let Ok(Ok((want, _))) = guarded(|| interval_eval(&f, &inp)) {
                st.inc("interval_checks");
                if !i_eq(got, want[0]) {
                    return Err(v("interval_transform_vars", format!("shape interval evaluation gives {got:?}, the function fed by identity on the transformed box gives {:?}", want[0]), setup()));
                }
            }
        } else {
            st.inc("interval_evals_panicked(C11)");
        }
    }
    // ---------------- a simplified shape must still bind by identity, whatever
    // the provenance of the storage it was built in: the same trace is used
    // to simplify once into fresh storage and once into storage recycled
    // from an unrelated shape that has the same number of variables (other
    // variables, or the same ones met in another order)
    {
        let bx: Vec<Interval> = pos
            .iter()
            .map(|c| Interval::new(c - 0.25, c + 0.25))
            .collect();
        let itape = shape.interval_tape(Default::default());
        let mut iev = Shape::<F>::new_interval_eval();
        let tr = guarded(|| iev.eval_with_vars(&itape, bx[0], bx[1], bx[2], &sv).map(|r| r.1.cloned()));
        if let Ok(Ok(Some(trace))) = tr {
            // the unrelated donor: same variable count, reversed encounter
            // order for the shared ones, fresh variables for the rest
            let mut dctx = Context::new();
            let mut acc = dctx.constant(0.0);
            let mut donors: Vec<Var> = used.iter().rev().copied().collect();
            if rng.chance(0.5) {
                for d in donors.iter_mut() {
                    if matches!(d, Var::V(_)) {
                        *d = Var::new();
                    }
                }
            }
            for (k, d) in donors.iter().enumerate() {
                let n = dctx.var(*d);
                let t = dctx.mul(n, (k + 2) as f32).unwrap();
                acc = dctx.add(acc, t).unwrap();
            }
            let donor = Shape::<F>::new(&dctx, acc).unwrap();
            if donor.inner().vars().len() == vmap.len() {
                let mut ws = Default::default();
                child::note(&format!("C14 {name} simplify into foreign storage | program {:016x}", p.hash()));
                let fresh = guarded(|| shape.simplify(&trace, Default::default(), &mut ws));
                let foreign_storage = donor.recycle();
                if let (Ok(Ok(fresh)), Some(storage)) = (fresh, foreign_storage) {
                    let foreign = match guarded(|| shape.simplify(&trace, storage, &mut ws)) {
                        Ok(Ok(s)) => s,
                        Ok(Err(e)) => return Err(v("simplify_foreign_storage_error", format!("simplify with storage recycled from another shape failed: {e}"), setup())),
                        Err(pi) => return Err(v("simplify_foreign_storage_panic", format!("simplify with storage recycled from another shape panicked: {}", pi.msg), setup())),
                    };
                    st.inc("foreign_storage_simplifications");
                    let mut ev = Shape::<F>::new_point_eval();
                    let a = ev.eval_with_vars(&fresh.point_tape(Default::default()), pos[0], pos[1], pos[2], &sv).map(|r| r.0);
                    let b2 = ev.eval_with_vars(&foreign.point_tape(Default::default()), pos[0], pos[1], pos[2], &sv).map(|r| r.0);
                    match (a, b2) {
                        (Ok(a), Ok(b2)) => {
                            if !same_bits(a, b2) {
                                return Err(v("simplify_foreign_storage_binding", format!("the shape simplified into storage recycled from an unrelated shape evaluates to {b2:?}, simplified into fresh storage to {a:?} (same trace, same point, same variables)"), setup()));
                            }
                        }
                        (Ok(_), Err(e)) => return Err(v("simplify_foreign_storage_binding", format!("the shape simplified into storage recycled from an unrelated shape rejects the variables its parent accepts: {e}"), setup())),
                        _ => {}
                    }
                    // bulk path as well (its own scratch layout)
                    let xs = [pos[0], pos[0] + 0.1];
                    let ys = [pos[1], pos[1] - 0.1];
                    let zs = [pos[2], pos[2] + 0.05];
                    let mut bev = Shape::<F>::new_float_slice_eval();
                    let fa: Option<Vec<f32>> = bev.eval_with_vars(&fresh.float_slice_tape(Default::default()), &xs, &ys, &zs, &sv).ok().map(|o| o.to_vec());
                    let fb: Option<Vec<f32>> = bev.eval_with_vars(&foreign.float_slice_tape(Default::default()), &xs, &ys, &zs, &sv).ok().map(|o| o.to_vec());
                    if let (Some(fa), fb) = (fa, fb) {
                        let same = fb.as_ref().map(|fb| fa.len() == fb.len() && fa.iter().zip(fb.iter()).all(|(p, q)| same_bits(*p, *q))).unwrap_or(false);
                        if !same {
                            return Err(v("simplify_foreign_storage_binding", format!("bulk evaluation of the shape simplified into foreign storage gives {fb:?}, into fresh storage {fa:?}"), setup()));
                        }
                    }
                }
            }
        } else {
            st.inc("foreign_storage_stage_without_trace");
        }
    }
    let _ = fbits(0.0);
    Ok(())
}

trait CloneResult<T> {
    fn clone_result(&self) -> Result<Result<T, ()>, ()>;
}
impl<T: Copy, E> CloneResult<T> for Result<Result<T, E>, crate::util::PanicInfo> {
    fn clone_result(&self) -> Result<Result<T, ()>, ()> {
        match self {
            Ok(Ok(v)) => Ok(Ok(*v)),
            Ok(Err(_)) => Ok(Err(())),
            Err(_) => Err(()),
        }
    }
}

fn check_prog(p: &Prog, seed: u64, st: &mut Stats) -> Option<Viol> {
    let mut rng = Rng::new(seed);
    let b = p.build();
    let root = p.roots(&b)[0];
    let mut r1 = rng.fork();
    if let Err(v) = check_backend::<VmFunction>(p, &b, root, &mut r1, st) {
        return Some(v);
    }
    let mut r2 = rng.fork();
    if let Err(v) = check_backend::<JitFunction>(p, &b, root, &mut r2, st) {
        return Some(v);
    }
    None
}

impl Prop for C14 {
    fn id(&self) -> &'static str {
        "C14"
    }
    fn mode(&self) -> Mode {
        Mode::Children
    }
    fn crash_is_violation(&self) -> bool {
        false
    }
    fn n_cases(&self, tier: Tier) -> u64 {
        tier.pick(150_000, 500_000)
    }
    fn time_cap_s(&self, tier: Tier) -> u64 {
        tier.pick(100, 900)
    }
    fn run_case(&self, case: u64, rng: &mut Rng, st: &mut Stats, tier: Tier) {
        let mut cfg = GenCfg::random(rng, tier.pick(120, 250));
        cfg.n_outputs = 1;
        cfg.consts = Consts::Tame;
        cfg.n_vars = match rng.below(5) {
            0 => 3,
            1 => 3 + rng.below(4),
            2 | 3 => 8 + rng.below(20),
            _ => 20 + rng.below(24),
        };
        // rand/mix hash NaN payloads: keep the comparison against
        // Context::eval meaningful
        cfg.allow_un.retain(|o| *o != Un::Rand);
        cfg.allow_bin.retain(|o| *o != Bin::Mix);
        let p = prog::generate(rng, &cfg);
        st.distinct(p.hash());
        st.sample(|| json!({"program": p.to_json()}));
        let seed = rng.next_u64();
        if let Some(v) = check_prog(&p, seed, st) {
            let sig = v.sig.clone();
            let mut scratch = Stats::default();
            let small = crate::gen_::shrink::shrink(
                &p,
                &mut |q: &Prog| matches!(guarded(|| check_prog(q, seed, &mut scratch)), Ok(Some(w)) if w.sig == sig),
                200,
            );
            let v2 = check_prog(&small, seed, &mut scratch).filter(|w| w.sig == sig);
            let (v, pj) = match v2 {
                Some(w) => (w, small.to_json()),
                None => (v, p.to_json()),
            };
            st.violation(case, v.sig, v.msg, json!({"detail": v.detail, "program": pj, "check_seed": seed.to_string()}));
        }
    }
    fn finish(&self, st: &mut Stats, _tier: Tier) {
        for (k, floor) in [
            ("functions_with_10plus_free_vars", 500),
            ("point_checks", 5000),
            ("point_transform_checks", 5000),
            ("bulk_checks", 5000),
            ("grad_checks", 2000),
            ("interval_checks", 2000),
            ("missing_var_checks", 1000),
            ("simplified_checks", 1000),
            ("context_checks", 2000),
        ] {
            if st.get(k) < floor {
                st.inconclusive.push(format!("{k} = {} (floor {floor})", st.get(k)));
            }
        }
    }
    fn rule(&self) -> String {
        "each case = one generated single-output function over a random subset of X,Y,Z and up to ~40 free variables met in random graph order; per backend: ShapeVars filled in random order with extra entries, random affine or projective Matrix4; every shape-level entry point (point: eval / _with_transform / _with_vars / _with_transform_and_vars; bulk float and gradient: _with_vars, _with_var_arrays, and the transform variants; interval with transform and vars) compared bit-for-bit with the same backend's raw function whose inputs are arranged by identity through its own vars() map (transformed inputs = nalgebra transform_point for points, or observed through the trivial shapes X,Y,Z for gradients and intervals); point results also against Context::eval with an explicit Var->value map; missing variable => MissingVar naming it, bind() accepts extras and rejects missing; after simplification by a point trace the child keeps the numbering and the value; distinct = program hash".into()
    }
    fn assumptions(&self) -> Vec<String> {
        vec!["programs exclude rand/mix (their value hashes NaN payloads); interval evaluations that panic are left to C11".into()]
    }
}
