//! C20 - tracing and bulk results are well-formed records of the evaluation.
//! Oracle: the shadow interpreter derives, at the k-th choice instruction,
//! the expected entry from its own operand values (points) or from the
//! operand intervals returned by the evaluator under test (boxes, through an
//! all-nodes-exported twin function of the same backend).
use crate::gen_::boxes::{self};
use crate::gen_::prog::{self, Bin, Consts, GenCfg, Inputs, Profile, Prog};
use crate::monitor::child;
use crate::props::evalutil::*;
use crate::refmodel::sites::{self, Site};
use crate::refmodel::{graph, tape_shadow};
use crate::util::{Rng, Stats, Tier, fbits, guarded};
use crate::{Mode, Prop};
use fidget_core::context::Node;
use fidget_core::eval::{BulkEvaluator, Tape, TracingEvaluator};
use fidget_core::types::{Grad, Interval};
use fidget_core::vm::{Choice, VmFunction};
use fidget_jit::JitFunction;
use serde_json::{Value, json};
use std::collections::HashMap;

pub struct C20;

fn expect_point(op: Bin, a: f32, b: f32) -> Choice {
    match op {
        Bin::Min => {
            if a < b {
                Choice::Left
            } else if b < a {
                Choice::Right
            } else {
                Choice::Both
            }
        }
        Bin::Max => {
            if a > b {
                Choice::Left
            } else if b > a {
                Choice::Right
            } else {
                Choice::Both
            }
        }
        Bin::And => {
            if a == 0.0 {
                Choice::Left
            } else {
                Choice::Right
            }
        }
        Bin::Or => {
            if a != 0.0 {
                Choice::Left
            } else {
                Choice::Right
            }
        }
        _ => unreachable!(),
    }
}

/// Documented rules of `Interval::{min,max,and,or}_choice`
fn expect_interval(op: Bin, a: Interval, b: Interval) -> Choice {
    if a.has_nan() || b.has_nan() {
        return Choice::Both;
    }
    let is_zero = |i: Interval| i.lower() == 0.0 && i.upper() == 0.0;
    let has_zero = |i: Interval| i.lower() <= 0.0 && i.upper() >= 0.0;
    match op {
        Bin::Min => {
            if a.upper() < b.lower() {
                Choice::Left
            } else if b.upper() < a.lower() {
                Choice::Right
            } else {
                Choice::Both
            }
        }
        Bin::Max => {
            if a.lower() > b.upper() {
                Choice::Left
            } else if b.lower() > a.upper() {
                Choice::Right
            } else {
                Choice::Both
            }
        }
        Bin::And => {
            if is_zero(a) {
                Choice::Left
            } else if !has_zero(a) {
                Choice::Right
            } else {
                Choice::Both
            }
        }
        Bin::Or => {
            if !has_zero(a) {
                Choice::Left
            } else if is_zero(a) {
                Choice::Right
            } else {
                Choice::Both
            }
        }
        _ => unreachable!(),
    }
}

fn same_varmap(a: &fidget_core::var::VarMap, b: &fidget_core::var::VarMap) -> bool {
    a.len() == b.len() && a.iter().all(|(v, i)| b.get(&v) == Some(i))
}

struct Viol {
    sig: String,
    msg: String,
    detail: Value,
}

/// Checks one backend; returns its point traces (one per input) for the
/// cross-backend comparison: (trace, per-site "operands clean" flags)
#[allow(clippy::type_complexity)]
fn check_backend<F: Backend>(
    p: &Prog,
    b: &prog::Built,
    roots: &[Node],
    order: &[Node],
    inputs: &[Vec<f32>],
    boxes: &[Vec<(f32, f32)>],
    rng: &mut Rng,
    st: &mut Stats,
) -> Result<Vec<(Option<Vec<Choice>>, Vec<bool>)>, Viol> {
    let name = F::NAME;
    let f = F::new(&b.ctx, roots).unwrap();
    let ops = f.ops();
    let slot_of = slot_map(f.vars(), &b.vars).ok_or_else(|| Viol {
        sig: format!("{name}:varmap"),
        msg: "function VarMap is not a bijection onto 0..len".into(),
        detail: json!(null),
    })?;

    // advertised sizes agree between the function and every tape
    let n_choice_ops = ops
        .iter()
        .filter(|o| matches!(tape_shadow::decode(**o), tape_shadow::D::Bin{op, ..} if op.is_choice()))
        .count();
    if n_choice_ops != f.choice_count() {
        return Err(Viol {
            sig: format!("{name}:choice_count"),
            msg: format!("choice_count() = {} but the tape has {} choice clauses", f.choice_count(), n_choice_ops),
            detail: json!(null),
        });
    }
    if f.output_count() != roots.len() {
        return Err(Viol { sig: format!("{name}:output_count"), msg: "function output_count != requested outputs".into(), detail: json!(null) });
    }
    if f.size() != ops.len() {
        return Err(Viol { sig: format!("{name}:size"), msg: format!("size() = {} but tape has {} instructions", f.size(), ops.len()), detail: json!(null) });
    }
    macro_rules! tape_check {
        ($t:expr, $k:literal) => {{
            let t = $t;
            if t.output_count() != f.output_count() || !same_varmap(t.vars(), f.vars()) {
                return Err(Viol {
                    sig: format!("{name}:tape_meta:{}", $k),
                    msg: format!("{} tape disagrees with its function on vars()/output_count()", $k),
                    detail: json!(null),
                });
            }
        }};
    }
    tape_check!(f.point_tape(Default::default()), "point");
    tape_check!(f.interval_tape(Default::default()), "interval");
    tape_check!(f.float_slice_tape(Default::default()), "float_slice");
    tape_check!(f.grad_slice_tape(Default::default()), "grad_slice");
    st.inc("tapes_meta_checked");

    let input_vars: Vec<fidget_core::var::Var> =
        slot_of.iter().map(|&s| b.vars[s]).collect();
    let _ = &rng;
    let site_map: Vec<Option<Site>> =
        sites::map_sites(&b.ctx, order, &ops, &input_vars, f.slot_count());
    st.add("sites", site_map.len() as u64);
    st.add("sites_unmapped", site_map.iter().filter(|s| s.is_none()).count() as u64);

    let mut traces = vec![];
    // The tracing evaluators are long-lived and alternate between this
    // function and a small decoy with another number of choice clauses: what
    // an evaluation reports must not depend on what the evaluator did before.
    let (decoy, decoy_nv) = {
        let mut cx = fidget_core::Context::new();
        let (x, y) = (cx.x(), cx.y());
        let a = cx.min(x, 0.5).unwrap();
        let c = cx.min(y, x).unwrap();
        let m = cx.max(a, c).unwrap();
        let o = cx.and(m, y).unwrap();
        let d = F::new(&cx, &[o]).unwrap();
        let n = d.vars().len();
        (d, n)
    };
    let decoy_pt = decoy.point_tape(Default::default());
    let decoy_it = decoy.interval_tape(Default::default());
    let f_pt = f.point_tape(Default::default());
    let f_it = f.interval_tape(Default::default());
    let mut pe = F::new_point_eval();
    let mut ie = F::new_interval_eval();
    // ---- points
    for vals in inputs {
        let input: Vec<f32> = slot_of.iter().map(|&s| vals[s]).collect();
        child::note(&format!("C20 {name} point eval | program {:016x}", p.hash()));
        let dv: Vec<f32> = (0..decoy_nv).map(|k| if vals[k % vals.len()].is_finite() { vals[k % vals.len()] } else { 0.25 }).collect();
        let _ = pe.eval(&decoy_pt, &dv);
        st.inc("decoy_evaluations_between_traces");
        let (out, tr) = pe
            .eval(&f_pt, &input)
            .map(|(o, t)| (o.to_vec(), t.map(|t| t.as_slice().to_vec())))
            .map_err(|e| Viol { sig: format!("{name}:point_error"), msg: e.to_string(), detail: json!(null) })?;
        if out.len() != roots.len() {
            return Err(Viol { sig: format!("{name}:point_out_len"), msg: format!("point eval returned {} outputs, wanted {}", out.len(), roots.len()), detail: json!(null) });
        }
        let info = analyse_with(b, order, vals, F::IS_JIT);
        let sh = tape_shadow::run(&ops, &input, F::REGS, f.slot_count(), roots.len());
        let clean: Vec<bool> = site_map
            .iter()
            .map(|s| match s {
                Some(s) => info.taint[&s.a] == Taint::Clean && info.taint[&s.b] == Taint::Clean,
                None => false,
            })
            .collect();
        let expected: Vec<Choice> = sh.choices.iter().map(|s| expect_point(s.op, s.a, s.b)).collect();
        let all_clean = clean.iter().all(|c| *c);
        let any_decided = expected.iter().any(|c| *c != Choice::Both);
        st.inc("point_evals");
        if let Some(t) = &tr {
            if t.len() != f.choice_count() {
                return Err(Viol {
                    sig: format!("{name}:point_trace_len"),
                    msg: format!("point trace has {} entries for {} clauses", t.len(), f.choice_count()),
                    detail: json!(null),
                });
            }
            for (k, (&got, &want)) in t.iter().zip(expected.iter()).enumerate() {
                if !clean[k] {
                    st.inc("point_entries_skipped_tainted_operands");
                    continue;
                }
                st.inc("point_entries_checked");
                st.set_insert("entries_seen", &format!("{}:{}", sh.choices[k].op.name(), choice_name(got)));
                if got != want {
                    let s = &sh.choices[k];
                    return Err(Viol {
                        sig: format!("{name}:point_entry:{}{}:{}_vs_{}", s.op.name(), if s.b_is_imm { "_imm" } else { "" }, choice_name(got), choice_name(want)),
                        msg: format!("{name} point trace entry {k} of {} is {} but operands ({:?}, {:?}) of {} imply {}", t.len(), choice_name(got), s.a, s.b, s.op.name(), choice_name(want)),
                        detail: json!({"entry": k, "lhs": fbits(s.a), "rhs": fbits(s.b),
                            "trace": t.iter().map(|c| choice_name(*c)).collect::<Vec<_>>(),
                            "expected": expected.iter().map(|c| choice_name(*c)).collect::<Vec<_>>(),
                            "input_by_var_slot": vals.iter().map(|v| fbits(*v)).collect::<Vec<_>>()}),
                    });
                }
            }
            if all_clean && !any_decided {
                return Err(Viol {
                    sig: format!("{name}:point_trace_spurious"),
                    msg: "a trace was reported although every clause is undecided".into(),
                    detail: json!(null),
                });
            }
            if t.len() >= 2 {
                st.inc(&format!("{name}_point_traces_with_2plus_clauses"));
            }
        } else if all_clean && any_decided {
            return Err(Viol {
                sig: format!("{name}:point_trace_missing"),
                msg: "no trace reported although some clause is decided".into(),
                detail: json!({"expected": expected.iter().map(|c| choice_name(*c)).collect::<Vec<_>>(),
                    "input_by_var_slot": vals.iter().map(|v| fbits(*v)).collect::<Vec<_>>()}),
            });
        }
        traces.push((tr, clean));
    }

    // ---- boxes: operand intervals from the all-nodes twin of this backend
    let twin_roots: Vec<Node> = order.to_vec();
    let idx: HashMap<Node, usize> = twin_roots.iter().enumerate().map(|(i, n)| (*n, i)).collect();
    let twin = F::new(&b.ctx, &twin_roots).unwrap();
    let tslot = slot_map(twin.vars(), &b.vars).unwrap();
    for bx in boxes {
        let input: Vec<Interval> = slot_of.iter().map(|&s| Interval::new(bx[s].0, bx[s].1)).collect();
        let tinput: Vec<Interval> = tslot.iter().map(|&s| Interval::new(bx[s].0, bx[s].1)).collect();
        child::note(&format!("C20 {name} interval eval | program {:016x}", p.hash()));
        let dbox: Vec<Interval> = (0..decoy_nv).map(|k| { let (l, u) = bx[k % bx.len()]; if l.is_finite() && u.is_finite() { Interval::new(l, u) } else { Interval::new(-1.0, 1.0) } }).collect();
        let r = guarded(|| {
            let _ = ie.eval(&decoy_it, &dbox);
            let r1 = ie
                .eval(&f_it, &input)
                .map(|(o, t)| (o.to_vec(), t.map(|t| t.as_slice().to_vec())))
                .map_err(|e| e.to_string());
            (r1, interval_eval(&twin, &tinput))
        });
        let (r1, r2) = match r {
            Ok(x) => x,
            Err(_) => {
                st.inc("interval_evals_panicked(C11)");
                continue;
            }
        };
        let (out, tr) = r1.map_err(|e| Viol { sig: format!("{name}:interval_error"), msg: e, detail: json!(null) })?;
        let (node_iv, _) = r2.map_err(|e| Viol { sig: format!("{name}:interval_error"), msg: e, detail: json!(null) })?;
        if out.len() != roots.len() {
            return Err(Viol { sig: format!("{name}:interval_out_len"), msg: "wrong number of interval outputs".into(), detail: json!(null) });
        }
        st.inc("interval_evals");
        let mut expected = vec![];
        let mut known = vec![];
        for s in &site_map {
            match s {
                Some(s) => {
                    let ia = node_iv[idx[&s.a]];
                    let ib = node_iv[idx[&s.b]];
                    expected.push(expect_interval(s.op, ia, ib));
                    known.push(true);
                }
                None => {
                    expected.push(Choice::Both);
                    known.push(false);
                }
            }
        }
        let all_known = known.iter().all(|k| *k);
        let any_decided = expected.iter().zip(known.iter()).any(|(c, k)| *k && *c != Choice::Both);
        if let Some(t) = &tr {
            if t.len() != f.choice_count() {
                return Err(Viol { sig: format!("{name}:interval_trace_len"), msg: format!("interval trace has {} entries for {} clauses", t.len(), f.choice_count()), detail: json!(null) });
            }
            for (k, &got) in t.iter().enumerate() {
                if !known[k] {
                    continue;
                }
                st.inc("interval_entries_checked");
                st.set_insert("entries_seen", &format!("i:{}:{}", site_map[k].unwrap().op.name(), choice_name(got)));
                if got != expected[k] {
                    let s = site_map[k].unwrap();
                    let ia = node_iv[idx[&s.a]];
                    let ib = node_iv[idx[&s.b]];
                    return Err(Viol {
                        sig: format!("{name}:interval_entry:{}{}:{}_vs_{}", s.op.name(), if s.b_is_imm { "_imm" } else { "" }, choice_name(got), choice_name(expected[k])),
                        msg: format!("{name} interval trace entry {k} is {} but operand intervals {ia:?}, {ib:?} of {} imply {}", choice_name(got), s.op.name(), choice_name(expected[k])),
                        detail: json!({"entry": k, "box_by_var_slot": bx.iter().map(|(l, u)| format!("[{l:?}, {u:?}]")).collect::<Vec<_>>()}),
                    });
                }
            }
            if all_known && !any_decided {
                return Err(Viol { sig: format!("{name}:interval_trace_spurious"), msg: "an interval trace was reported although every clause is undecided".into(), detail: json!(null) });
            }
        } else if any_decided {
            return Err(Viol {
                sig: format!("{name}:interval_trace_missing"),
                msg: "no interval trace reported although some clause is decided".into(),
                detail: json!({"box_by_var_slot": bx.iter().map(|(l, u)| format!("[{l:?}, {u:?}]")).collect::<Vec<_>>()}),
            });
        }
    }
    Ok(traces)
}

/// "Output arrays have exactly the requested number of outputs and samples":
/// one long-lived float-slice and one grad-slice evaluator per backend are
/// handed functions with different numbers of outputs (all roots, a prefix,
/// a single root) on different numbers of samples; the shape of what comes
/// back must be (outputs of this tape) x (samples of this call) every time
/// (the values themselves are C01/C02/C10's business).
fn check_bulk_shapes<F: Backend>(b: &prog::Built, roots: &[Node], n_vars: usize, rng: &mut Rng, st: &mut Stats) -> Result<(), Viol> {
    let name = F::NAME;
    let mut fe = F::new_float_slice_eval();
    let mut ge = F::new_grad_slice_eval();
    let mut subsets: Vec<Vec<Node>> = vec![roots.to_vec()];
    if roots.len() > 1 {
        subsets.push(roots[..1 + rng.below(roots.len() - 1)].to_vec());
        subsets.push(vec![roots[rng.below(roots.len())]]);
    }
    subsets.push(roots.to_vec());
    rng.shuffle(&mut subsets[1..]);
    for (step, rs) in subsets.iter().enumerate() {
        let f = F::new(&b.ctx, rs).unwrap();
        let Some(slot_of) = slot_map(f.vars(), &b.vars) else {
            // a sub-function may use fewer variables than the program
            let n = *rng.pick(&[1usize, 5, 8, 9, 24]);
            let cols: Vec<Vec<f32>> = (0..f.vars().len()).map(|_| (0..n).map(|_| rng.uniform(-2.0, 2.0) as f32).collect()).collect();
            let ft = f.float_slice_tape(Default::default());
            let out = fe.eval(&ft, &cols).map_err(|e| Viol { sig: format!("{name}:bulk_error"), msg: e.to_string(), detail: json!(null) })?;
            if out.len() != rs.len() || (0..out.len()).any(|i| out[i].len() != n) {
                return Err(Viol {
                    sig: format!("{name}:float_slice_shape"),
                    msg: format!("{name} float-slice evaluator (reused, step {step}) returned {} arrays for a tape with {} outputs on {n} samples", out.len(), rs.len()),
                    detail: json!({"step": step, "outputs": rs.len(), "samples": n}),
                });
            }
            st.inc("bulk_shape_checks");
            continue;
        };
        let _ = n_vars;
        let mut n = *rng.pick(&[1usize, 3, 8, 9, 17, 40]);
        if slot_of.is_empty() {
            // a function of no variable is given no column: the number of
            // samples of such a call is 0 by construction
            n = 0;
            st.inc("bulk_shape_checks_constant_function");
        }
        let pts: Vec<Vec<f32>> = (0..n).map(|_| prog::gen_inputs(rng, slot_of.len().max(n_vars), Inputs::Tame)).collect();
        let cols: Vec<Vec<f32>> = slot_of.iter().map(|&s| pts.iter().map(|q| q[s]).collect()).collect();
        let ft = f.float_slice_tape(Default::default());
        let out = fe.eval(&ft, &cols).map_err(|e| Viol { sig: format!("{name}:bulk_error"), msg: e.to_string(), detail: json!(null) })?;
        let lens: Vec<usize> = (0..out.len()).map(|i| out[i].len()).collect();
        if out.len() != rs.len() || lens.iter().any(|l| *l != n) || out.len() != tape_output_count(&ft) {
            return Err(Viol {
                sig: format!("{name}:float_slice_shape"),
                msg: format!("{name} float-slice evaluator (reused, step {step}) returned {} arrays of lengths {lens:?} for a tape with {} outputs on {n} samples", out.len(), rs.len()),
                detail: json!({"step": step, "outputs": rs.len(), "samples": n}),
            });
        }
        let gcols: Vec<Vec<Grad>> = cols.iter().map(|c| c.iter().map(|v| Grad::from(*v)).collect()).collect();
        let gt = f.grad_slice_tape(Default::default());
        let gout = ge.eval(&gt, &gcols).map_err(|e| Viol { sig: format!("{name}:bulk_error"), msg: e.to_string(), detail: json!(null) })?;
        let glens: Vec<usize> = (0..gout.len()).map(|i| gout[i].len()).collect();
        if gout.len() != rs.len() || glens.iter().any(|l| *l != n) {
            return Err(Viol {
                sig: format!("{name}:grad_slice_shape"),
                msg: format!("{name} grad-slice evaluator (reused, step {step}) returned {} arrays of lengths {glens:?} for a tape with {} outputs on {n} samples", gout.len(), rs.len()),
                detail: json!({"step": step, "outputs": rs.len(), "samples": n}),
            });
        }
        st.inc("bulk_shape_checks");
        st.add("bulk_shape_samples", n as u64);
    }
    Ok(())
}

impl Prop for C20 {
    fn id(&self) -> &'static str {
        "C20"
    }
    fn mode(&self) -> Mode {
        Mode::Children
    }
    fn crash_is_violation(&self) -> bool {
        // totality of the evaluators is C11's subject
        false
    }
    fn n_cases(&self, tier: Tier) -> u64 {
        tier.pick(200_000, 400_000)
    }
    fn time_cap_s(&self, tier: Tier) -> u64 {
        tier.pick(90, 900)
    }
    fn run_case(&self, case: u64, rng: &mut Rng, st: &mut Stats, tier: Tier) {
        let mut cfg = GenCfg::random(rng, tier.pick(250, 500));
        if rng.chance(0.7) {
            cfg.profile = Profile::Choice;
        }
        if rng.chance(0.6) {
            cfg.consts = Consts::Tame;
        }
        cfg.n_outputs = 1 + rng.below(6);
        let p = prog::generate(rng, &cfg);
        let b = p.build();
        let roots = p.roots(&b);
        let order = graph::topo(&b.ctx, &roots);
        let inputs: Vec<Vec<f32>> = (0..8)
            .map(|i| {
                prog::gen_inputs(
                    rng,
                    p.n_vars,
                    match i % 4 {
                        0 => Inputs::Special,
                        1 => Inputs::Hostile,
                        _ => Inputs::Tame,
                    },
                )
            })
            .collect();
        let boxes: Vec<Vec<(f32, f32)>> = (0..6)
            .map(|_| {
                let k = boxes::random_tame_kind(rng);
                boxes::gen_box(rng, p.n_vars, k)
            })
            .collect();
        st.distinct(p.hash());
        st.sample(|| json!({"program": p.to_json(), "input0": inputs[0].iter().map(|v| format!("{v:?}")).collect::<Vec<_>>(), "box0": boxes[0].iter().map(|(l, u)| format!("[{l:?},{u:?}]")).collect::<Vec<_>>()}));
        let report = |st: &mut Stats, v: Viol| {
            st.violation(case, v.sig, v.msg, json!({"detail": v.detail, "program": p.to_json()}));
        };
        let vm = match check_backend::<VmFunction>(&p, &b, &roots, &order, &inputs, &boxes, rng, st) {
            Ok(t) => t,
            Err(v) => return report(st, v),
        };
        let jit = match check_backend::<JitFunction>(&p, &b, &roots, &order, &inputs, &boxes, rng, st) {
            Ok(t) => t,
            Err(v) => return report(st, v),
        };
        if let Err(v) = check_bulk_shapes::<VmFunction>(&b, &roots, p.n_vars, rng, st) {
            return report(st, v);
        }
        if let Err(v) = check_bulk_shapes::<JitFunction>(&b, &roots, p.n_vars, rng, st) {
            return report(st, v);
        }
        // interpreter and JIT produce the same trace for the same point
        for (i, ((tv, _), (tj, clean))) in vm.iter().zip(jit.iter()).enumerate() {
            let all_clean = clean.iter().all(|c| *c);
            match (tv, tj) {
                (Some(a), Some(c)) => {
                    for k in 0..a.len().min(c.len()) {
                        if clean[k] && a[k] != c[k] {
                            return report(st, Viol {
                                sig: "vm_vs_jit:point_entry".into(),
                                msg: format!("VM and JIT point traces differ at entry {k}: {} vs {}", choice_name(a[k]), choice_name(c[k])),
                                detail: json!({"input_by_var_slot": inputs[i].iter().map(|v| fbits(*v)).collect::<Vec<_>>()}),
                            });
                        }
                    }
                    st.inc("vm_jit_traces_compared");
                }
                (None, None) => st.inc("vm_jit_traces_compared"),
                _ if all_clean => {
                    return report(st, Viol {
                        sig: "vm_vs_jit:point_presence".into(),
                        msg: "one backend reported a point trace, the other none".into(),
                        detail: json!({"input_by_var_slot": inputs[i].iter().map(|v| fbits(*v)).collect::<Vec<_>>()}),
                    });
                }
                _ => st.inc("vm_jit_presence_skipped_tainted"),
            }
        }
        if b.ctx.len() > 0 && vm.iter().any(|(t, _)| t.as_ref().map(|t| t.len() >= 10).unwrap_or(false)) {
            st.inc("cases_with_10plus_clause_traces");
        }
    }
    fn finish(&self, st: &mut Stats, _tier: Tier) {
        if st.get("cases_with_10plus_clause_traces") < 500 {
            st.inconclusive.push(format!("only {} cases with >=10-clause traces", st.get("cases_with_10plus_clause_traces")));
        }
        if st.get("jit_point_traces_with_2plus_clauses") < 500 {
            st.inconclusive.push(format!("only {} JIT point traces with >=2 clauses", st.get("jit_point_traces_with_2plus_clauses")));
        }
        if st.get("sites_unmapped") * 50 > st.get("sites") {
            st.inconclusive.push(format!("{} of {} choice sites could not be mapped to graph nodes", st.get("sites_unmapped"), st.get("sites")));
        }
        if st.set_len("entries_seen") < 20 {
            st.inconclusive.push(format!("only {} (op, entry) kinds seen", st.set_len("entries_seen")));
        }
    }
    fn rule(&self) -> String {
        "each case = one choice-heavy generated DAG (0..200+ min/max/and/or clauses, reg and imm forms, 1..6 outputs) on both backends; 8 points and 6 boxes; point trace entries compared with the entry implied by the shadow interpreter's operand values, interval entries with the entry implied by the backend's own operand intervals (all-nodes twin), presence of a trace iff some clause decided, VM point trace == JIT point trace, output counts, size()/vars()/output_count() of function vs its four tapes; distinct = program hash".into()
    }
    fn assumptions(&self) -> Vec<String> {
        vec![
            "choice sites whose operands depend on a min/max zero-sign tie (JIT) or on a NaN hashed by rand/mix are not judged".into(),
            "interval evaluations that panic are counted and left to C11".into(),
        ]
    }
}
