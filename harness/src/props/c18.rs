//! C18 - view manipulation keeps the grabbed point under the cursor.
//!
//! Workload: seeded random event histories (10..200 events) over the stateful
//! canvases `Canvas2` / `Canvas3` (immediate mode `interact` and the callback
//! API `begin_drag / drag / end_drag / zoom / resize`) and over the underlying
//! `View2` / `View3` objects with their translate / rotate handles.
//!
//! Oracle (after every event, recomputed in f64 from the public accessors
//! `components()` and from an independent screen-to-world map written from the
//! `RegionSize` documentation; nothing of fidget is called by the oracle):
//!
//! * zoom about a cursor: the model-space point under the cursor is the same
//!   before and after;
//! * pan: the model point that was under the cursor at `begin_drag` is under
//!   the cursor after every `drag`;
//! * rotate: centre and scale are bit-identical, pitch in [0, pi], |yaw| at
//!   most one turn;
//! * `changed` flag: the statement says "the flag is false whenever the view
//!   is bit-identical to before", i.e. (bit-identical => flag false); only this
//!   direction is judged. (flag false but bits changed, e.g. -0.0 -> +0.0, is
//!   merely counted.)
//! * `world_to_model()` == translate x rotate x scale of the components.
use crate::util::{Rng, Stats, Tier, guarded, hash_u64s};
use crate::{Mode, Prop};
use fidget_core::render::{ImageSize, VoxelSize};
use fidget_gui::{
    Canvas2, Canvas3, CursorState, DragMode, RotateHandle, TranslateHandle,
    View2, View3,
};
use nalgebra::{Point2, Point3, Vector2, Vector3};
use serde_json::{Value, json};
use std::collections::BTreeMap;

pub struct C18;

/// f32 machine epsilon (2^-23) as f64
const EPS: f64 = f32::EPSILON as f64;
/// Band of view scales in which the relations are judged (DESIGN.md C18)
const BAND_LO: f64 = 1e-7;
const BAND_HI: f64 = 1e7;
/// Stated tolerance: relative 1e-4 of the view scale
const REL_TOL: f64 = 1e-4;
/// Multiplier of the f32 rounding budget (see `tol`)
const EPS_K: f64 = 32.0;

////////////////////////////////////////////////////////////////////////////////
// Events

#[derive(Copy, Clone, Debug, PartialEq, Eq)]
enum Kind {
    Canvas2,
    Canvas3,
    View2,
    View3,
}

impl Kind {
    fn name(self) -> &'static str {
        match self {
            Kind::Canvas2 => "Canvas2",
            Kind::Canvas3 => "Canvas3",
            Kind::View2 => "View2",
            Kind::View3 => "View3",
        }
    }
    fn is3(self) -> bool {
        matches!(self, Kind::Canvas3 | Kind::View3)
    }
    fn dim(self) -> &'static str {
        if self.is3() { "3d" } else { "2d" }
    }
    fn is_canvas(self) -> bool {
        matches!(self, Kind::Canvas2 | Kind::Canvas3)
    }
}

#[derive(Copy, Clone, Debug, PartialEq, Eq)]
enum DM {
    Pan,
    Rotate,
}

impl DM {
    fn name(self) -> &'static str {
        match self {
            DM::Pan => "Pan",
            DM::Rotate => "Rotate",
        }
    }
}

/// Image size; `d` is ignored in 2D
#[derive(Copy, Clone, Debug, PartialEq, Eq)]
struct Size {
    w: u32,
    h: u32,
    d: u32,
}

impl Size {
    fn degenerate(&self, is3: bool) -> bool {
        self.w == 0 || self.h == 0 || (is3 && self.d == 0)
    }
    fn json(&self, is3: bool) -> Value {
        if is3 {
            json!([self.w, self.h, self.d])
        } else {
            json!([self.w, self.h])
        }
    }
}

#[derive(Copy, Clone, Debug, PartialEq)]
enum Ev {
    // canvas level
    Interact {
        size: Size,
        cursor: Option<([i32; 2], Option<DM>)>,
        scroll: f32,
    },
    BeginDrag {
        pos: [i32; 2],
        mode: DM,
    },
    Drag {
        pos: [i32; 2],
    },
    EndDrag,
    Zoom {
        scroll: f32,
        pos: Option<[i32; 2]>,
    },
    Resize {
        size: Size,
    },
    // view level (world-space f32 positions, raw zoom factors)
    VBegin {
        w: [f32; 3],
        mode: DM,
    },
    VMove {
        w: [f32; 3],
    },
    VEnd,
    VZoom {
        amount: f32,
        w: Option<[f32; 3]>,
    },
}

/// The zoom factor a scroll amount stands for ("scaled exponential",
/// `Canvas2::zoom` documentation: 2^(amount/100)), evaluated in f32 the way a
/// GUI toolkit would hand it over. Used for the domain guard (scale band) and
/// to classify "a zoom with amount != 1 happened"; never for a verdict.
fn scroll_amount(scroll: f32) -> f32 {
    (scroll / 100.0).exp2()
}

impl Ev {
    fn name(&self) -> &'static str {
        match self {
            Ev::Interact { .. } => "interact",
            Ev::BeginDrag { .. } => "begin_drag",
            Ev::Drag { .. } => "drag",
            Ev::EndDrag => "end_drag",
            Ev::Zoom { .. } => "zoom",
            Ev::Resize { .. } => "resize",
            Ev::VBegin { mode: DM::Pan, .. } => "begin_translate",
            Ev::VBegin { mode: DM::Rotate, .. } => "begin_rotate",
            Ev::VMove { .. } => "translate_or_rotate",
            Ev::VEnd => "drop_handle",
            Ev::VZoom { .. } => "view_zoom",
        }
    }
    /// Zoom factor applied by this event (None = event cannot zoom)
    fn amount(&self) -> Option<f32> {
        match self {
            Ev::Interact { scroll, .. } | Ev::Zoom { scroll, .. } => {
                Some(scroll_amount(*scroll))
            }
            Ev::VZoom { amount, .. } => Some(*amount),
            _ => None,
        }
    }
    fn has_screen_cursor(&self) -> bool {
        match self {
            Ev::Interact { cursor, .. } => cursor.is_some(),
            Ev::BeginDrag { .. } | Ev::Drag { .. } => true,
            Ev::Zoom { pos, .. } => pos.is_some(),
            _ => false,
        }
    }
    fn json(&self, is3: bool) -> Value {
        let f = |v: f32| json!(format!("{v:?}"));
        let fw = |w: &[f32; 3]| {
            if is3 {
                json!([f(w[0]), f(w[1]), f(w[2])])
            } else {
                json!([f(w[0]), f(w[1])])
            }
        };
        match self {
            Ev::Interact {
                size,
                cursor,
                scroll,
            } => json!({"ev": "interact", "image_size": size.json(is3),
                "cursor": cursor.map(|(p, d)| json!({"screen_pos": p,
                    "drag": d.map(|m| m.name())})),
                "scroll": f(*scroll)}),
            Ev::BeginDrag { pos, mode } => {
                json!({"ev": "begin_drag", "screen_pos": pos, "mode": mode.name()})
            }
            Ev::Drag { pos } => json!({"ev": "drag", "screen_pos": pos}),
            Ev::EndDrag => json!({"ev": "end_drag"}),
            Ev::Zoom { scroll, pos } => {
                json!({"ev": "zoom", "amount": f(*scroll), "screen_pos": pos})
            }
            Ev::Resize { size } => {
                json!({"ev": "resize", "image_size": size.json(is3)})
            }
            Ev::VBegin { w, mode } => json!({"ev": match mode {
                DM::Pan => "begin_translate", DM::Rotate => "begin_rotate"},
                "world_pos": fw(w)}),
            Ev::VMove { w } => {
                json!({"ev": "translate/rotate(handle, pos)", "world_pos": fw(w)})
            }
            Ev::VEnd => json!({"ev": "drop handle"}),
            Ev::VZoom { amount, w } => json!({"ev": "view.zoom",
                "amount": f(*amount), "world_pos": w.as_ref().map(fw)}),
        }
    }
    fn hash_words(&self, out: &mut Vec<u64>) {
        let p2 = |p: &[i32; 2]| ((p[0] as u32 as u64) << 32) | p[1] as u32 as u64;
        let sz = |s: &Size| {
            (s.w as u64).wrapping_mul(0x9E37_79B9).wrapping_add(s.h as u64)
                ^ ((s.d as u64) << 40)
        };
        match self {
            Ev::Interact {
                size,
                cursor,
                scroll,
            } => {
                out.push(1);
                out.push(sz(size));
                out.push(scroll.to_bits() as u64);
                match cursor {
                    None => out.push(0),
                    Some((p, d)) => {
                        out.push(p2(p));
                        out.push(match d {
                            None => 1,
                            Some(DM::Pan) => 2,
                            Some(DM::Rotate) => 3,
                        });
                    }
                }
            }
            Ev::BeginDrag { pos, mode } => {
                out.push(2 + 16 * (*mode == DM::Rotate) as u64);
                out.push(p2(pos));
            }
            Ev::Drag { pos } => {
                out.push(3);
                out.push(p2(pos));
            }
            Ev::EndDrag => out.push(4),
            Ev::Zoom { scroll, pos } => {
                out.push(5);
                out.push(scroll.to_bits() as u64);
                out.push(pos.as_ref().map(p2).unwrap_or(u64::MAX));
            }
            Ev::Resize { size } => {
                out.push(6);
                out.push(sz(size));
            }
            Ev::VBegin { w, mode } => {
                out.push(7 + 16 * (*mode == DM::Rotate) as u64);
                out.extend(w.iter().map(|v| v.to_bits() as u64));
            }
            Ev::VMove { w } => {
                out.push(8);
                out.extend(w.iter().map(|v| v.to_bits() as u64));
            }
            Ev::VEnd => out.push(9),
            Ev::VZoom { amount, w } => {
                out.push(10);
                out.push(amount.to_bits() as u64);
                if let Some(w) = w {
                    out.extend(w.iter().map(|v| v.to_bits() as u64));
                }
            }
        }
    }
}

////////////////////////////////////////////////////////////////////////////////
// Observed view state

/// View components as read through the public accessors (2D: c[2] = yaw =
/// pitch = 0)
#[derive(Copy, Clone, Debug)]
struct Snap {
    c: [f32; 3],
    s: f32,
    yaw: f32,
    pitch: f32,
}

impl Snap {
    fn bits(&self) -> [u32; 6] {
        [
            self.c[0].to_bits(),
            self.c[1].to_bits(),
            self.c[2].to_bits(),
            self.s.to_bits(),
            self.yaw.to_bits(),
            self.pitch.to_bits(),
        ]
    }
    fn same_bits(&self, o: &Snap) -> bool {
        self.bits() == o.bits()
    }
    fn center_scale_same_bits(&self, o: &Snap) -> bool {
        self.bits()[..4] == o.bits()[..4]
    }
    /// centre and scale equal as values (+0 == -0)
    fn center_scale_same_val(&self, o: &Snap) -> bool {
        self.c == o.c && self.s == o.s
    }
    fn only_zero_sign_differs(&self, o: &Snap) -> bool {
        self.c == o.c && self.s == o.s && self.yaw == o.yaw && self.pitch == o.pitch
    }
    fn cmag(&self) -> f64 {
        self.c.iter().fold(0.0f64, |a, v| a.max(v.abs() as f64))
    }
    fn json(&self, is3: bool) -> Value {
        let f = |v: f32| format!("{:?} (0x{:08x})", v, v.to_bits());
        if is3 {
            json!({"center": [f(self.c[0]), f(self.c[1]), f(self.c[2])],
                "scale": f(self.s), "yaw": f(self.yaw), "pitch": f(self.pitch)})
        } else {
            json!({"center": [f(self.c[0]), f(self.c[1])], "scale": f(self.s)})
        }
    }
}

////////////////////////////////////////////////////////////////////////////////
// f64 reference geometry (written from the documentation, calls no fidget code)

type V3 = [f64; 3];
type M3 = [[f64; 3]; 3];

/// Turntable rotation of `View3`: yaw about the (model) Z axis after pitch
/// about the X axis, both right-handed: R = Rz(yaw) * Rx(pitch)
fn rot(yaw: f64, pitch: f64) -> M3 {
    let (sy, cy) = yaw.sin_cos();
    let (sp, cp) = pitch.sin_cos();
    [
        [cy, -sy * cp, sy * sp],
        [sy, cy * cp, -cy * sp],
        [0.0, sp, cp],
    ]
}

fn mul(m: &M3, v: &V3) -> V3 {
    [
        m[0][0] * v[0] + m[0][1] * v[1] + m[0][2] * v[2],
        m[1][0] * v[0] + m[1][1] * v[1] + m[1][2] * v[2],
        m[2][0] * v[0] + m[2][1] * v[1] + m[2][2] * v[2],
    ]
}

/// R^T v
fn mul_t(m: &M3, v: &V3) -> V3 {
    [
        m[0][0] * v[0] + m[1][0] * v[1] + m[2][0] * v[2],
        m[0][1] * v[0] + m[1][1] * v[1] + m[2][1] * v[2],
        m[0][2] * v[0] + m[1][2] * v[1] + m[2][2] * v[2],
    ]
}

fn snap_rot(s: &Snap) -> M3 {
    rot(s.yaw as f64, s.pitch as f64)
}

/// Model-space point that the view maps the world point `w` to:
/// translate(center) * rotate * scale
fn model_under(s: &Snap, w: &V3) -> V3 {
    let r = mul(&snap_rot(s), w);
    let k = s.s as f64;
    [
        s.c[0] as f64 + k * r[0],
        s.c[1] as f64 + k * r[1],
        s.c[2] as f64 + k * r[2],
    ]
}

/// World position of a screen position, from the `RegionSize` documentation:
/// the image centre maps to 0, the shorter axis spans +-1, Y is flipped and
/// y = +1 lies one pixel above the top row; 3D cursors sit at voxel z = 0.
/// Returns the world point and a magnitude bound used for the rounding budget.
fn screen_to_world(size: &Size, is3: bool, p: [i32; 2]) -> (V3, f64, bool) {
    let (w, h, d) = (size.w as f64, size.h as f64, size.d as f64);
    let m = if is3 { w.min(h).min(d) } else { w.min(h) };
    let k = 2.0 / m;
    let (px, py) = (p[0] as f64, p[1] as f64);
    let wx = (px - w / 2.0) * k;
    let wy = -(py - (h / 2.0 - 1.0)) * k;
    let wz = if is3 { (0.0 - d / 2.0) * k } else { 0.0 };
    let mag = k
        * (px.abs() + w / 2.0 + py.abs() + h / 2.0 + 1.0 + if is3 { d / 2.0 } else { 0.0 });
    let outside = px < 0.0 || py < 0.0 || px >= w || py >= h;
    ([wx, wy, wz], mag, outside)
}

fn world_of_f32(w: &[f32; 3], is3: bool) -> (V3, f64, bool) {
    let v = [w[0] as f64, w[1] as f64, if is3 { w[2] as f64 } else { 0.0 }];
    let outside = v[0].abs() > 1.0 || v[1].abs() > 1.0;
    (v, v[0].abs() + v[1].abs() + v[2].abs(), outside)
}

/// Tolerance for "same model point": the stated 1e-4 of the view scale (times
/// the world-space extent of the cursor when that exceeds the unit square)
/// plus a budget for f32 rounding of the quantities the code must add up
/// (centres, scale * world position). Without the second term no f32
/// implementation could satisfy the relation once |centre| >> scale.
fn tol(smax: f64, wmag: f64, cmag: f64) -> f64 {
    REL_TOL * smax * wmag.max(1.0) + EPS_K * EPS * (cmag + smax * wmag)
}

fn sub(a: &V3, b: &V3) -> V3 {
    [a[0] - b[0], a[1] - b[1], a[2] - b[2]]
}

fn jv(v: &V3, is3: bool) -> Value {
    if is3 {
        json!([v[0], v[1], v[2]])
    } else {
        json!([v[0], v[1]])
    }
}

////////////////////////////////////////////////////////////////////////////////
// System under test

#[derive(Copy, Clone)]
enum VH3 {
    Pan(TranslateHandle<3>),
    Rot(RotateHandle),
}

enum Sys {
    C2(Canvas2),
    C3(Canvas3),
    V2(View2, Option<TranslateHandle<2>>),
    V3(View3, Option<VH3>),
}

fn p2(p: &[i32; 2]) -> Point2<i32> {
    Point2::new(p[0], p[1])
}

fn dm(m: DM) -> DragMode {
    match m {
        DM::Pan => DragMode::Pan,
        DM::Rotate => DragMode::Rotate,
    }
}

#[derive(Clone, Debug)]
struct Init {
    size: Size,
    /// None: `Canvas::new` / `View::default`
    view: Option<Snap>,
}

impl Sys {
    fn new(kind: Kind, init: &Init) -> Sys {
        let s = init.size;
        match kind {
            Kind::Canvas2 => Sys::C2(match &init.view {
                None => Canvas2::new(ImageSize::new(s.w, s.h)),
                Some(v) => Canvas2::from_components(
                    View2::from_components(Vector2::new(v.c[0], v.c[1]), v.s),
                    ImageSize::new(s.w, s.h),
                ),
            }),
            Kind::Canvas3 => Sys::C3(match &init.view {
                None => Canvas3::new(VoxelSize::new(s.w, s.h, s.d)),
                Some(v) => Canvas3::from_components(
                    View3::from_components(
                        Vector3::new(v.c[0], v.c[1], v.c[2]),
                        v.s,
                        v.yaw,
                        v.pitch,
                    ),
                    VoxelSize::new(s.w, s.h, s.d),
                ),
            }),
            Kind::View2 => Sys::V2(
                match &init.view {
                    None => View2::default(),
                    Some(v) => View2::from_center_and_scale(
                        Vector2::new(v.c[0], v.c[1]),
                        v.s,
                    ),
                },
                None,
            ),
            Kind::View3 => Sys::V3(
                match &init.view {
                    None => View3::default(),
                    Some(v) => View3::from_components(
                        Vector3::new(v.c[0], v.c[1], v.c[2]),
                        v.s,
                        v.yaw,
                        v.pitch,
                    ),
                },
                None,
            ),
        }
    }

    fn snap(&self) -> Snap {
        let v2 = |v: &View2| {
            let (c, s) = v.components();
            Snap {
                c: [c.x, c.y, 0.0],
                s,
                yaw: 0.0,
                pitch: 0.0,
            }
        };
        let v3 = |v: &View3| {
            let (c, s, yaw, pitch) = v.components();
            Snap {
                c: [c.x, c.y, c.z],
                s,
                yaw,
                pitch,
            }
        };
        match self {
            Sys::C2(c) => v2(&c.view()),
            Sys::C3(c) => v3(&c.view()),
            Sys::V2(v, _) => v2(v),
            Sys::V3(v, _) => v3(v),
        }
    }

    /// `world_to_model()` as rows (2D: upper-left 3x3 used)
    fn matrix(&self) -> [[f32; 4]; 4] {
        let mut out = [[0.0f32; 4]; 4];
        let mut m3 = |v: &View2| {
            let m = v.world_to_model();
            for r in 0..3 {
                for c in 0..3 {
                    out[r][c] = m[(r, c)];
                }
            }
        };
        match self {
            Sys::C2(c) => m3(&c.view()),
            Sys::V2(v, _) => m3(v),
            Sys::C3(_) | Sys::V3(..) => {
                let m = match self {
                    Sys::C3(c) => c.view().world_to_model(),
                    Sys::V3(v, _) => v.world_to_model(),
                    _ => unreachable!(),
                };
                for r in 0..4 {
                    for c in 0..4 {
                        out[r][c] = m[(r, c)];
                    }
                }
            }
        }
        out
    }

    /// Applies the event to the real object; returns the reported `changed`
    /// flag when the call has one
    fn apply(&mut self, ev: &Ev) -> Option<bool> {
        match self {
            Sys::C2(c) => match ev {
                Ev::Interact {
                    size,
                    cursor,
                    scroll,
                } => Some(c.interact(
                    ImageSize::new(size.w, size.h),
                    cursor.map(|(p, d)| CursorState {
                        screen_pos: p2(&p),
                        drag: d.is_some(),
                    }),
                    *scroll,
                )),
                Ev::BeginDrag { pos, .. } => {
                    c.begin_drag(p2(pos));
                    None
                }
                Ev::Drag { pos } => Some(c.drag(p2(pos))),
                Ev::EndDrag => {
                    c.end_drag();
                    None
                }
                Ev::Zoom { scroll, pos } => {
                    Some(c.zoom(*scroll, pos.as_ref().map(p2)))
                }
                Ev::Resize { size } => {
                    c.resize(ImageSize::new(size.w, size.h));
                    None
                }
                _ => None,
            },
            Sys::C3(c) => match ev {
                Ev::Interact {
                    size,
                    cursor,
                    scroll,
                } => Some(c.interact(
                    VoxelSize::new(size.w, size.h, size.d),
                    cursor.map(|(p, d)| CursorState {
                        screen_pos: p2(&p),
                        drag: d.map(dm),
                    }),
                    *scroll,
                )),
                Ev::BeginDrag { pos, mode } => {
                    c.begin_drag(p2(pos), dm(*mode));
                    None
                }
                Ev::Drag { pos } => Some(c.drag(p2(pos))),
                Ev::EndDrag => {
                    c.end_drag();
                    None
                }
                Ev::Zoom { scroll, pos } => {
                    Some(c.zoom(*scroll, pos.as_ref().map(p2)))
                }
                // Canvas3 has no resize(); the generator expresses a resize
                // as interact(size, None, 0.0) (see `resize_event`)
                _ => None,
            },
            Sys::V2(v, h) => match ev {
                Ev::VBegin { w, .. } => {
                    if h.is_none() {
                        *h = Some(v.begin_translate(Point2::new(w[0], w[1])));
                    }
                    None
                }
                Ev::VMove { w } => {
                    h.map(|h| v.translate(&h, Point2::new(w[0], w[1])))
                }
                Ev::VEnd => {
                    *h = None;
                    None
                }
                Ev::VZoom { amount, w } => Some(
                    v.zoom(*amount, w.map(|w| Point2::new(w[0], w[1]))),
                ),
                _ => None,
            },
            Sys::V3(v, h) => match ev {
                Ev::VBegin { w, mode } => {
                    if h.is_none() {
                        let p = Point3::new(w[0], w[1], w[2]);
                        *h = Some(match mode {
                            DM::Pan => VH3::Pan(v.begin_translate(p)),
                            DM::Rotate => VH3::Rot(v.begin_rotate(p)),
                        });
                    }
                    None
                }
                Ev::VMove { w } => {
                    let p = Point3::new(w[0], w[1], w[2]);
                    match *h {
                        Some(VH3::Pan(h)) => Some(v.translate(&h, p)),
                        Some(VH3::Rot(h)) => Some(v.rotate(&h, p)),
                        None => None,
                    }
                }
                Ev::VEnd => {
                    *h = None;
                    None
                }
                Ev::VZoom { amount, w } => Some(v.zoom(
                    *amount,
                    w.map(|w| Point3::new(w[0], w[1], w[2])),
                )),
                _ => None,
            },
        }
    }
}

////////////////////////////////////////////////////////////////////////////////
// Oracle bookkeeping (drag state as documented: begin_drag is a no-op while a
// drag is in progress; interact() without a pressed button ends the drag)

#[derive(Clone, Debug)]
struct PanSh {
    /// model point under the cursor at begin_drag
    g: V3,
    /// view at begin_drag
    at: Snap,
    /// world position of the cursor at begin_drag
    w0: V3,
    w0mag: f64,
    begin_idx: usize,
    /// index of the first zoom with amount != 1 since begin_drag
    zoom_idx: Option<usize>,
}

#[derive(Clone, Debug)]
enum DragSh {
    Pan(PanSh),
    Rotate,
}

struct Finding {
    idx: usize,
    sig: String,
    summary: String,
    detail: Value,
}

struct Exec {
    kind: Kind,
    cnt: BTreeMap<&'static str, u64>,
    maxes: BTreeMap<&'static str, f64>,
    findings: Vec<Finding>,
}

impl Exec {
    fn inc(&mut self, k: &'static str) {
        *self.cnt.entry(k).or_default() += 1;
    }
    fn max(&mut self, k: &'static str, v: f64) {
        let e = self.maxes.entry(k).or_insert(f64::MIN);
        if v > *e {
            *e = v;
        }
    }
    fn find(&mut self, idx: usize, sig: String, summary: String, detail: Value) {
        // one finding per signature and history
        if !self.findings.iter().any(|f| f.sig == sig) {
            self.findings.push(Finding {
                idx,
                sig,
                summary,
                detail,
            });
        }
    }
    /// Splits `obs - exp` into the part across the view axis (in-plane; what
    /// "under the cursor" means for an orthographic view) and along it.
    fn deviation(&self, r: &M3, obs: &V3, exp: &V3) -> (f64, f64) {
        let d = mul_t(r, &sub(obs, exp));
        (d[0].abs().max(d[1].abs()), d[2].abs())
    }
}

struct Outcome {
    findings: Vec<Finding>,
    cnt: BTreeMap<&'static str, u64>,
    maxes: BTreeMap<&'static str, f64>,
    events_applied: usize,
}

fn execute(kind: Kind, init: &Init, events: &[Ev]) -> Outcome {
    let is3 = kind.is3();
    let dim = kind.dim();
    let mut sys = Sys::new(kind, init);
    let mut x = Exec {
        kind,
        cnt: BTreeMap::new(),
        maxes: BTreeMap::new(),
        findings: vec![],
    };
    let mut size = init.size;
    let mut drag: Option<DragSh> = None;
    let mut applied = 0usize;

    check_matrix(&mut x, 0, &sys, &sys.snap());

    for (i, ev) in events.iter().enumerate() {
        let before = sys.snap();
        // ---- domain guards -------------------------------------------------
        if let Some(a) = ev.amount() {
            let pred = before.s as f64 * a as f64;
            if !(pred >= BAND_LO && pred <= BAND_HI) {
                x.inc("histories_truncated_at_scale_band");
                break;
            }
        }
        if kind.is_canvas() {
            // a zero-sized image has no screen-to-world map (2 / 0), so no
            // point is "under the cursor"
            let sz = match ev {
                Ev::Interact { size: s, .. } => *s,
                _ => size,
            };
            if ev.has_screen_cursor() && sz.degenerate(is3) {
                x.inc("events_skipped_cursor_on_zero_sized_image");
                continue;
            }
        }
        // ---- run the real code --------------------------------------------
        let flag = sys.apply(ev);
        let after = sys.snap();
        applied += 1;
        x.inc("events");

        // ---- invariants of every event ------------------------------------
        check_matrix(&mut x, i, &sys, &after);
        if is3 {
            x.inc("angle_range_checks");
            let pitch_ok =
                after.pitch >= 0.0 && after.pitch <= std::f32::consts::PI;
            let yaw_ok = after.yaw.abs() <= std::f32::consts::TAU;
            if !pitch_ok {
                x.find(
                    i,
                    "pitch_out_of_range:3d".into(),
                    format!(
                        "pitch {:?} outside [0, pi] after {}",
                        after.pitch,
                        ev.name()
                    ),
                    json!({"before": before.json(is3), "after": after.json(is3)}),
                );
            }
            if !yaw_ok {
                x.find(
                    i,
                    "yaw_out_of_range:3d".into(),
                    format!(
                        "|yaw| {:?} exceeds one turn after {}",
                        after.yaw,
                        ev.name()
                    ),
                    json!({"before": before.json(is3), "after": after.json(is3)}),
                );
            }
        }
        if let Some(flag) = flag {
            let identical = after.same_bits(&before);
            match (identical, flag) {
                (true, false) => x.inc("flag_checks_view_identical"),
                (true, true) => {
                    x.inc("flag_checks_view_identical");
                    x.find(
                        i,
                        format!("changed_true_but_identical:{}:{dim}", ev.name()),
                        format!(
                            "{} reported changed=true although the view is \
                             bit-identical to before",
                            ev.name()
                        ),
                        json!({"view": after.json(is3)}),
                    );
                }
                (false, true) => x.inc("flag_true_view_changed"),
                (false, false) => {
                    // converse direction: not claimed by the statement
                    x.inc("not_judged_flag_false_but_bits_changed");
                    if after.only_zero_sign_differs(&before) {
                        x.inc("not_judged_flag_false_only_zero_sign_changed");
                    }
                }
            }
        }

        // ---- event-specific relations -------------------------------------
        // (cursor world position, magnitude) of this event, if any
        let cur: Option<(V3, f64, bool)> = match ev {
            Ev::Interact {
                size: s, cursor, ..
            } => cursor.map(|(p, _)| screen_to_world(s, is3, p)),
            Ev::BeginDrag { pos, .. } | Ev::Drag { pos } => {
                Some(screen_to_world(&size, is3, *pos))
            }
            Ev::Zoom { pos, .. } => {
                pos.map(|p| screen_to_world(&size, is3, p))
            }
            Ev::VBegin { w, .. } | Ev::VMove { w } => {
                Some(world_of_f32(w, is3))
            }
            Ev::VZoom { w, .. } => w.as_ref().map(|w| world_of_f32(w, is3)),
            _ => None,
        };
        let amount_ne1 = ev.amount().map(|a| a != 1.0).unwrap_or(false);

        match ev {
            Ev::Resize { size: s } => size = *s,
            Ev::EndDrag | Ev::VEnd => drag = None,
            Ev::BeginDrag { mode, .. } | Ev::VBegin { mode, .. } => {
                if drag.is_none() {
                    let (w, wmag, _) = cur.unwrap();
                    drag = Some(begin(kind, *mode, &before, w, wmag, i));
                    x.inc("drags_begun");
                } else {
                    x.inc("begin_drag_while_dragging");
                }
            }
            Ev::Drag { .. } | Ev::VMove { .. } => {
                let (w, wmag, outside) = cur.unwrap();
                match &drag {
                    None => x.inc("drag_without_active_drag"),
                    Some(DragSh::Pan(p)) => {
                        check_pan(&mut x, i, ev, p, &before, &after, &w, wmag, outside, false)
                    }
                    Some(DragSh::Rotate) => {
                        x.inc("rotate_checks");
                        if !after.center_scale_same_bits(&before) {
                            x.find(
                                i,
                                format!("rotate_changed_center_or_scale:{dim}"),
                                "a rotate drag changed the centre or the scale"
                                    .into(),
                                json!({"before": before.json(is3),
                                       "after": after.json(is3)}),
                            );
                        }
                        if after.pitch == 0.0 || after.pitch == std::f32::consts::PI {
                            x.inc("rotate_pitch_clamped");
                        }
                        if after.yaw.to_bits() != before.yaw.to_bits()
                            || after.pitch.to_bits() != before.pitch.to_bits()
                        {
                            x.inc("rotate_moved");
                        }
                    }
                }
            }
            Ev::Zoom { .. } | Ev::VZoom { .. } => {
                if let Some((w, wmag, outside)) = cur {
                    check_zoom(&mut x, i, ev, &before, &after, &w, wmag, outside, "");
                } else {
                    x.inc("zoom_without_cursor");
                }
            }
            Ev::Interact {
                size: s, cursor, ..
            } => {
                size = *s;
                match cursor {
                    None => {
                        drag = None;
                        x.inc("interact_without_cursor");
                    }
                    Some((_, None)) => {
                        drag = None;
                        let (w, wmag, outside) = cur.unwrap();
                        check_zoom(&mut x, i, ev, &before, &after, &w, wmag, outside, "");
                    }
                    Some((_, Some(mode))) => {
                        let (w, wmag, outside) = cur.unwrap();
                        if drag.is_none() {
                            drag = Some(begin(kind, *mode, &before, w, wmag, i));
                            x.inc("drags_begun");
                        }
                        match drag.as_ref().unwrap() {
                            DragSh::Pan(p) => check_pan(
                                &mut x, i, ev, p, &before, &after, &w, wmag, outside,
                                true,
                            ),
                            DragSh::Rotate => {
                                // rotate (yaw/pitch only) followed by zoom
                                // (centre/scale only): the intermediate view
                                // is determined by the accessors
                                x.inc("rotate_checks_in_interact");
                                let mid = Snap {
                                    c: before.c,
                                    s: before.s,
                                    yaw: after.yaw,
                                    pitch: after.pitch,
                                };
                                if amount_ne1 {
                                    check_zoom(
                                        &mut x,
                                        i,
                                        ev,
                                        &mid,
                                        &after,
                                        &w,
                                        wmag,
                                        outside,
                                        "rotate_then_",
                                    );
                                } else if !after.center_scale_same_val(&before) {
                                    x.find(
                                        i,
                                        format!("rotate_changed_center_or_scale:{dim}"),
                                        "interact() with a rotate drag and no \
                                         scroll changed the centre or the scale"
                                            .into(),
                                        json!({"before": before.json(is3),
                                               "after": after.json(is3)}),
                                    );
                                }
                            }
                        }
                    }
                }
            }
        }
        // a zoom with amount != 1 while a pan drag is in progress
        if amount_ne1 {
            if let Some(DragSh::Pan(p)) = &mut drag {
                if p.zoom_idx.is_none() {
                    p.zoom_idx = Some(i);
                    x.inc("zooms_during_pan_drag");
                }
            }
        }
    }
    Outcome {
        findings: x.findings,
        cnt: x.cnt,
        maxes: x.maxes,
        events_applied: applied,
    }
}

fn begin(kind: Kind, mode: DM, before: &Snap, w: V3, wmag: f64, i: usize) -> DragSh {
    // Canvas2 / View2 can only pan
    let mode = if kind.is3() { mode } else { DM::Pan };
    match mode {
        DM::Rotate => DragSh::Rotate,
        DM::Pan => DragSh::Pan(PanSh {
            g: model_under(before, &w),
            at: *before,
            w0: w,
            w0mag: wmag,
            begin_idx: i,
            zoom_idx: None,
        }),
    }
}

fn check_matrix(x: &mut Exec, i: usize, sys: &Sys, s: &Snap) {
    let is3 = x.kind.is3();
    let n = if is3 { 3 } else { 2 };
    let m = sys.matrix();
    let r = snap_rot(s);
    let k = s.s as f64;
    x.inc("matrix_checks");
    let mut worst = 0.0f64;
    let mut bad: Option<(usize, usize, f64, f64)> = None;
    for row in 0..=n {
        for col in 0..=n {
            let (want, t) = if row == n {
                (if col == n { 1.0 } else { 0.0 }, 1e-5)
            } else if col == n {
                let c = s.c[row] as f64;
                (c, 1e-5 * c.abs() + 1e-30)
            } else {
                let v = k * r[row][col];
                (v, 1e-5 * v.abs().max(k.abs()))
            };
            let got = m[row][col] as f64;
            let e = (got - want).abs();
            if t > 0.0 {
                worst = worst.max(e / t);
            }
            if !(e <= t) && bad.is_none() {
                bad = Some((row, col, got, want));
            }
        }
    }
    x.max("matrix_err_over_tol", worst.min(1e9));
    if let Some((row, col, got, want)) = bad {
        x.find(
            i,
            format!("matrix_mismatch:{}", x.kind.dim()),
            format!(
                "world_to_model()[{row}][{col}] = {got:?}, translate*rotate*scale \
                 of the components gives {want:?}"
            ),
            json!({"components": s.json(is3),
                   "world_to_model": m.iter().take(n + 1)
                       .map(|r| r[..=n].to_vec()).collect::<Vec<_>>(),
                   "row": row, "col": col, "got": got, "want": want}),
        );
    }
}

/// zoom about a cursor: same model point under the cursor before and after
fn check_zoom(
    x: &mut Exec,
    i: usize,
    ev: &Ev,
    before: &Snap,
    after: &Snap,
    w: &V3,
    wmag: f64,
    outside: bool,
    prefix: &str,
) {
    let is3 = x.kind.is3();
    let pb = model_under(before, w);
    let pa = model_under(after, w);
    let smax = (before.s as f64).max(after.s as f64);
    let cmag = before.cmag() + after.cmag();
    let t = tol(smax, wmag, cmag);
    let (inplane, depth) = x.deviation(&snap_rot(after), &pa, &pb);
    x.inc("zoom_checks");
    if ev.amount().map(|a| a != 1.0).unwrap_or(false) {
        x.inc("zoom_checks_amount_ne_1");
    }
    if outside {
        x.inc("zoom_checks_cursor_outside_image");
    }
    x.max("zoom_err_over_tol", inplane.max(depth) / t);
    x.max(
        "zoom_err_over_rounding_budget",
        inplane.max(depth) / (EPS_K * EPS * (cmag + smax * wmag)),
    );
    if !(inplane <= t) {
        x.find(
            i,
            format!("{prefix}zoom_point_moved:{}", x.kind.dim()),
            format!(
                "{}: the model point under the cursor moved by {:.3e} (tolerance \
                 {:.3e}, scale {:?} -> {:?})",
                ev.name(),
                inplane,
                t,
                before.s,
                after.s
            ),
            json!({"before": before.json(is3), "after": after.json(is3),
                   "cursor_world": jv(w, is3),
                   "model_point_before": jv(&pb, is3),
                   "model_point_after": jv(&pa, is3),
                   "deviation_across_view_axis": inplane,
                   "deviation_along_view_axis": depth, "tolerance": t}),
        );
    } else if !(depth <= t) {
        x.inc("depth_only_deviation");
    }
}

/// pan: the grabbed model point is under the cursor after the drag.
/// `composite`: the event is `interact()` = drag followed by a zoom about the
/// same cursor, which must keep the very same point there.
fn check_pan(
    x: &mut Exec,
    i: usize,
    ev: &Ev,
    p: &PanSh,
    before: &Snap,
    after: &Snap,
    w: &V3,
    wmag: f64,
    outside: bool,
    composite: bool,
) {
    let is3 = x.kind.is3();
    let dim = x.kind.dim();
    let obs = model_under(after, w);
    let smax = (before.s as f64).max(after.s as f64).max(p.at.s as f64);
    let cmag = before.cmag()
        + after.cmag()
        + p.at.cmag()
        + p.g.iter().fold(0.0f64, |a, v| a.max(v.abs()));
    let wm = wmag.max(p.w0mag);
    let t = tol(smax, wm, cmag);
    let r = snap_rot(after);
    let (inplane, depth) = x.deviation(&r, &obs, &p.g);
    let zoomed = p.zoom_idx.is_some();
    if zoomed {
        x.inc("pan_checks_after_zoom_during_drag");
    } else {
        x.inc("pan_checks_clean");
        x.max("pan_err_over_tol", inplane.max(depth) / t);
        x.max(
            "pan_err_over_rounding_budget",
            inplane.max(depth) / (EPS_K * EPS * (cmag + smax * wm)),
        );
        if i > p.begin_idx && w != &p.w0 {
            x.inc("pan_checks_clean_cursor_moved");
        }
    }
    if outside {
        x.inc("pan_checks_cursor_outside_image");
    }
    let this_amount_ne1 = ev.amount().map(|a| a != 1.0).unwrap_or(false);
    if composite && this_amount_ne1 {
        x.inc("pan_then_zoom_checks_in_interact");
    }
    if inplane <= t {
        if !(depth <= t) {
            // after a zoom inside the drag this is the known stale-handle
            // defect seen with the cursor at the image centre (reported
            // through its in-plane witnesses)
            x.inc(if zoomed {
                "not_judged_depth_only_deviation_after_zoom_during_drag"
            } else {
                "depth_only_deviation"
            });
        }
        return;
    }
    // ---- classify the failure ---------------------------------------------
    // What a handle that kept the matrix of begin_drag (pre-zoom) produces:
    // centre = c0 - s0 R0 (w - w0); a following zoom about the cursor keeps
    // the point under the cursor of that intermediate view.
    let r0 = snap_rot(&p.at);
    let dw = sub(w, &p.w0);
    let m0dw = mul(&r0, &dw);
    let rw = mul(&snap_rot(before), w);
    let s0 = p.at.s as f64;
    let sb = before.s as f64;
    let stale = [
        p.at.c[0] as f64 - s0 * m0dw[0] + sb * rw[0],
        p.at.c[1] as f64 - s0 * m0dw[1] + sb * rw[1],
        p.at.c[2] as f64 - s0 * m0dw[2] + sb * rw[2],
    ];
    let (st_in, st_depth) = x.deviation(&r, &obs, &stale);
    let matches_stale = st_in <= 2.0 * t && st_depth <= 2.0 * t;
    let sig = if zoomed && matches_stale {
        format!("pan_after_zoom_during_drag:{dim}")
    } else if zoomed {
        format!("pan_drift_after_zoom_unexplained:{dim}")
    } else if composite && this_amount_ne1 {
        format!("pan_then_zoom_point_moved_in_interact:{dim}")
    } else {
        format!("pan_drift:{dim}")
    };
    let summary = if zoomed {
        format!(
            "{}: after a zoom (event {}) inside the drag begun at event {}, the \
             grabbed model point is {:.3e} away from the cursor (tolerance \
             {:.3e}){}",
            ev.name(),
            p.zoom_idx.unwrap(),
            p.begin_idx,
            inplane,
            t,
            if matches_stale {
                "; the centre is what a handle holding the pre-zoom matrix yields"
            } else {
                ""
            }
        )
    } else {
        format!(
            "{}: the model point grabbed at event {} is {:.3e} away from the \
             cursor (tolerance {:.3e})",
            ev.name(),
            p.begin_idx,
            inplane,
            t
        )
    };
    x.find(
        i,
        sig,
        summary,
        json!({
            "drag_begun_at_event": p.begin_idx,
            "first_zoom_with_amount_ne_1_inside_drag": p.zoom_idx,
            "view_at_begin_drag": p.at.json(is3),
            "cursor_world_at_begin_drag": jv(&p.w0, is3),
            "grabbed_model_point": jv(&p.g, is3),
            "view_before_event": before.json(is3),
            "view_after_event": after.json(is3),
            "cursor_world": jv(w, is3),
            "model_point_under_cursor_after": jv(&obs, is3),
            "deviation_across_view_axis": inplane,
            "deviation_along_view_axis": depth,
            "tolerance": t,
            "point_predicted_for_stale_pre_zoom_handle": jv(&stale, is3),
            "distance_to_stale_handle_prediction": st_in.max(st_depth),
        }),
    );
}

////////////////////////////////////////////////////////////////////////////////
// Generator

#[derive(Copy, Clone, Debug)]
struct Profile {
    /// never zoom while a drag is in progress (keeps the pan relation
    /// checkable over long drags)
    no_zoom_in_drag: bool,
    allow_far: bool,
    allow_odd_sizes: bool,
}

const COMMON_DIMS: [u32; 12] = [1, 2, 3, 16, 64, 100, 255, 256, 511, 512, 1000, 1920];

fn gen_size(rng: &mut Rng, prof: &Profile, allow_zero: bool) -> Size {
    let one = |rng: &mut Rng| -> u32 {
        match rng.weighted(&[5, 4, 1]) {
            0 => *rng.pick(&COMMON_DIMS),
            1 => rng.range(1, 2048) as u32,
            _ => rng.range(1, 8) as u32,
        }
    };
    let mut s = if rng.chance(0.4) {
        let v = one(rng);
        Size { w: v, h: v, d: v }
    } else {
        Size {
            w: one(rng),
            h: one(rng),
            d: one(rng),
        }
    };
    if prof.allow_odd_sizes {
        let which = rng.below(3);
        let slot = match which {
            0 => &mut s.w,
            1 => &mut s.h,
            _ => &mut s.d,
        };
        match rng.weighted(&[90, 4, 3, 3]) {
            1 if allow_zero => *slot = 0,
            2 => *slot = 1u32 << rng.range(12, 31),
            3 => *slot = u32::MAX - rng.range(0, 2) as u32,
            _ => {}
        }
    }
    s
}

fn gen_pos(
    rng: &mut Rng,
    size: &Size,
    last: Option<[i32; 2]>,
    prof: &Profile,
) -> [i32; 2] {
    if let Some(l) = last {
        match rng.weighted(&[22, 18, 60]) {
            0 => return l,
            1 => {
                // small mouse movement
                return [
                    l[0].saturating_add(rng.range(-12, 12) as i32),
                    l[1].saturating_add(rng.range(-12, 12) as i32),
                ];
            }
            _ => {}
        }
    }
    let w = size.w.min(1 << 30) as i64;
    let h = size.h.min(1 << 30) as i64;
    let far = if prof.allow_far { 4 } else { 0 };
    match rng.weighted(&[68, 16, 8, far, far / 2]) {
        0 => [
            rng.range(0, (w - 1).max(0)) as i32,
            rng.range(0, (h - 1).max(0)) as i32,
        ],
        1 => [
            rng.range(-w - 1, 2 * w + 1) as i32,
            rng.range(-h - 1, 2 * h + 1) as i32,
        ],
        2 => {
            // edges, corners, centre
            let xs = [0, w - 1, w, -1, w / 2];
            let ys = [0, h - 1, h, -1, h / 2 - 1];
            [*rng.pick(&xs) as i32, *rng.pick(&ys) as i32]
        }
        3 => {
            let c = |rng: &mut Rng| {
                let m = 1i64 << rng.range(8, 31);
                let v = rng.range(-m, m - 1);
                v.clamp(i32::MIN as i64, i32::MAX as i64) as i32
            };
            [c(rng), c(rng)]
        }
        _ => [
            *rng.pick(&[i32::MIN, i32::MAX, 0]),
            *rng.pick(&[i32::MIN, i32::MAX, 0]),
        ],
    }
}

/// Scroll amount; the sign is biased so that the cumulative scale wanders
/// back towards 1 when it gets far from it
fn gen_scroll(rng: &mut Rng, log2s: f64) -> f32 {
    let mag = match rng.weighted(&[60, 15, 15, 10]) {
        0 => rng.uniform(1.0, 150.0),
        1 => rng.uniform(150.0, 500.0),
        2 => 10f64.powf(rng.uniform(-7.0, 0.0)),
        _ => *rng.pick(&[1.0, 10.0, 100.0, 120.0, 53.0]),
    };
    let p_neg = if log2s > 5.0 {
        0.85
    } else if log2s < -5.0 {
        0.15
    } else {
        0.5
    };
    (if rng.chance(p_neg) { -mag } else { mag }) as f32
}

fn gen_world(rng: &mut Rng, last: Option<[f32; 3]>, prof: &Profile) -> [f32; 3] {
    if let Some(l) = last {
        match rng.weighted(&[22, 18, 60]) {
            0 => return l,
            1 => {
                return [
                    l[0] + rng.uniform(-0.05, 0.05) as f32,
                    l[1] + rng.uniform(-0.05, 0.05) as f32,
                    l[2],
                ];
            }
            _ => {}
        }
    }
    let far = if prof.allow_far { 5 } else { 0 };
    let c = |rng: &mut Rng| -> f32 {
        match rng.weighted(&[70, 15, 10, far]) {
            0 => rng.uniform(-1.0, 1.0) as f32,
            1 => rng.uniform(-4.0, 4.0) as f32,
            2 => *rng.pick(&[0.0f32, -0.0, 1.0, -1.0, 0.5]),
            _ => rng.log_f32(2.0, 24.0),
        }
    };
    [c(rng), c(rng), c(rng)]
}

fn gen_init(rng: &mut Rng, kind: Kind, prof: &Profile) -> Init {
    let size = gen_size(rng, prof, false);
    let view = if rng.chance(0.5) {
        None
    } else {
        let c = |rng: &mut Rng| -> f32 {
            match rng.weighted(&[6, 2, 1, 1]) {
                0 => rng.log_f32(-8.0, 8.0),
                1 => rng.uniform(-2.0, 2.0) as f32,
                2 => 0.0,
                _ => -0.0,
            }
        };
        let c = [c(rng), c(rng), if kind.is3() { c(rng) } else { 0.0 }];
        let s = 2f64.powf(rng.uniform(-7.0, 7.0)) as f32;
        let (yaw, pitch) = if kind.is3() {
            let tau = std::f32::consts::TAU;
            let pi = std::f32::consts::PI;
            let yaw = ((rng.uniform(-1.0, 1.0) * tau as f64) as f32)
                .clamp(-tau, tau);
            let pitch = match rng.weighted(&[6, 1, 1]) {
                0 => ((rng.unit() * pi as f64) as f32).clamp(0.0, pi),
                1 => 0.0,
                _ => pi,
            };
            (yaw, pitch)
        } else {
            (0.0, 0.0)
        };
        Some(Snap { c, s, yaw, pitch })
    };
    Init { size, view }
}

/// `Canvas2::resize`; `Canvas3` has no such method, there the only public way
/// to change the image size is `interact` (here: cursor off screen, no scroll,
/// which also ends a drag)
fn resize_event(kind: Kind, size: Size) -> Ev {
    if kind == Kind::Canvas3 {
        Ev::Interact {
            size,
            cursor: None,
            scroll: 0.0,
        }
    } else {
        Ev::Resize { size }
    }
}

fn generate(rng: &mut Rng) -> (Kind, Profile, Init, Vec<Ev>) {
    let kind = match rng.weighted(&[40, 40, 10, 10]) {
        0 => Kind::Canvas2,
        1 => Kind::Canvas3,
        2 => Kind::View2,
        _ => Kind::View3,
    };
    let prof = Profile {
        no_zoom_in_drag: rng.chance(0.5),
        allow_far: rng.chance(0.3),
        allow_odd_sizes: rng.chance(0.3),
    };
    let init = gen_init(rng, kind, &prof);
    let n = rng.range(10, 200) as usize;
    let is3 = kind.is3();
    let mut evs = Vec::with_capacity(n);
    // generator-side bookkeeping (no fidget state involved)
    let mut size = init.size;
    let mut dragging = false;
    let mut last_mode = DM::Pan;
    let mut log2s = init
        .view
        .as_ref()
        .map(|v| (v.s as f64).log2())
        .unwrap_or(0.0);
    // one history in eight zooms persistently in one direction (no wandering
    // back towards scale 1), so that it reaches the far ends of the scale
    // band, where it is truncated
    let drift: i32 = if rng.chance(0.125) { if rng.chance(0.5) { 1 } else { -1 } } else { 0 };
    let bias = move |l: f64| -> f64 {
        match drift {
            1 => -100.0,
            -1 => 100.0,
            _ => l,
        }
    };
    let pick_mode = |rng: &mut Rng, last: DM| -> DM {
        if !is3 {
            DM::Pan
        } else if rng.chance(0.8) {
            last
        } else if rng.chance(0.5) {
            DM::Pan
        } else {
            DM::Rotate
        }
    };
    // events come in short bursts of the same flavour (a drag gesture, a
    // scroll gesture), like real input
    if kind.is_canvas() {
        let immediate_bias = rng.uniform(0.15, 0.85);
        let mut last_pos: Option<[i32; 2]> = None;
        while evs.len() < n {
            if size.degenerate(is3) {
                // only cursor-less events until the image has a size again
                let ev = match rng.weighted(&[50, 30, 15, 5]) {
                    0 => {
                        size = gen_size(rng, &prof, true);
                        if is3 {
                            dragging = false;
                        }
                        resize_event(kind, size)
                    }
                    1 => {
                        if rng.chance(0.5) {
                            size = gen_size(rng, &prof, true);
                        }
                        dragging = false;
                        let scroll = if rng.chance(0.5) {
                            0.0
                        } else {
                            gen_scroll(rng, bias(log2s))
                        };
                        log2s += scroll as f64 / 100.0;
                        Ev::Interact {
                            size,
                            cursor: None,
                            scroll,
                        }
                    }
                    2 => {
                        let scroll = if prof.no_zoom_in_drag && dragging {
                            0.0
                        } else {
                            gen_scroll(rng, bias(log2s))
                        };
                        log2s += scroll as f64 / 100.0;
                        Ev::Zoom { scroll, pos: None }
                    }
                    _ => {
                        dragging = false;
                        Ev::EndDrag
                    }
                };
                evs.push(ev);
                continue;
            }
            if rng.chance(immediate_bias) {
                // ---- immediate mode -----------------------------------------
                if rng.chance(0.12) {
                    size = gen_size(rng, &prof, false);
                }
                let cursor = if rng.chance(0.08) {
                    None
                } else {
                    let pos = gen_pos(rng, &size, last_pos, &prof);
                    last_pos = Some(pos);
                    let p_drag = if dragging { 0.85 } else { 0.35 };
                    let d = if rng.chance(p_drag) {
                        // (the mode argument is ignored while a drag is in
                        // progress; it still varies)
                        last_mode = pick_mode(rng, last_mode);
                        Some(last_mode)
                    } else {
                        None
                    };
                    Some((pos, d))
                };
                let drag_on = matches!(cursor, Some((_, Some(_))));
                let scroll = if (prof.no_zoom_in_drag && drag_on)
                    || rng.chance(0.6)
                {
                    0.0
                } else {
                    gen_scroll(rng, bias(log2s))
                };
                log2s += scroll as f64 / 100.0;
                dragging = drag_on;
                evs.push(Ev::Interact {
                    size,
                    cursor,
                    scroll,
                });
            } else {
                // ---- callback mode ------------------------------------------
                let w_zoom = if prof.no_zoom_in_drag && dragging { 0 } else { 18 };
                let w_drag = if dragging { 45 } else { 6 };
                let w_begin = if dragging { 3 } else { 14 };
                let ev = match rng.weighted(&[w_begin, w_drag, 6, w_zoom, 5]) {
                    0 => {
                        let pos = gen_pos(rng, &size, last_pos, &prof);
                        last_pos = Some(pos);
                        last_mode = pick_mode(rng, last_mode);
                        dragging = true;
                        Ev::BeginDrag {
                            pos,
                            mode: last_mode,
                        }
                    }
                    1 => {
                        let pos = gen_pos(rng, &size, last_pos, &prof);
                        last_pos = Some(pos);
                        Ev::Drag { pos }
                    }
                    2 => {
                        dragging = false;
                        Ev::EndDrag
                    }
                    3 => {
                        let scroll = if rng.chance(0.12) {
                            0.0
                        } else {
                            gen_scroll(rng, bias(log2s))
                        };
                        log2s += scroll as f64 / 100.0;
                        let pos = if rng.chance(0.85) {
                            let p = gen_pos(rng, &size, last_pos, &prof);
                            last_pos = Some(p);
                            Some(p)
                        } else {
                            None
                        };
                        Ev::Zoom { scroll, pos }
                    }
                    _ => {
                        size = gen_size(rng, &prof, true);
                        if is3 {
                            dragging = false;
                        }
                        resize_event(kind, size)
                    }
                };
                evs.push(ev);
            }
        }
    } else {
        let mut last_w: Option<[f32; 3]> = None;
        while evs.len() < n {
            let w_zoom = if prof.no_zoom_in_drag && dragging { 0 } else { 25 };
            let w_move = if dragging { 55 } else { 4 };
            let w_begin = if dragging { 3 } else { 20 };
            let ev = match rng.weighted(&[w_begin, w_move, 8, w_zoom]) {
                0 => {
                    let w = gen_world(rng, last_w, &prof);
                    last_w = Some(w);
                    last_mode = pick_mode(rng, last_mode);
                    dragging = true;
                    Ev::VBegin { w, mode: last_mode }
                }
                1 => {
                    let w = gen_world(rng, last_w, &prof);
                    last_w = Some(w);
                    Ev::VMove { w }
                }
                2 => {
                    dragging = false;
                    Ev::VEnd
                }
                _ => {
                    let amount = match rng.weighted(&[15, 65, 10, 10]) {
                        0 => 1.0f32,
                        1 => {
                            let e = rng.uniform(0.0, 1.6)
                                * if log2s > 5.0 {
                                    -1.0
                                } else if log2s < -5.0 || rng.chance(0.5) {
                                    1.0
                                } else {
                                    -1.0
                                };
                            2f64.powf(e) as f32
                        }
                        2 => f32::from_bits(
                            (1.0f32.to_bits() as i64 + rng.range(-4, 4)) as u32,
                        ),
                        _ => *rng.pick(&[2.0f32, 0.5, 1.1, 0.9, 1.0 / 3.0]),
                    };
                    log2s += (amount as f64).log2();
                    let w = if rng.chance(0.85) {
                        let w = gen_world(rng, last_w, &prof);
                        last_w = Some(w);
                        Some(w)
                    } else {
                        None
                    };
                    Ev::VZoom { amount, w }
                }
            };
            evs.push(ev);
        }
    }
    (kind, prof, init, evs)
}

////////////////////////////////////////////////////////////////////////////////
// Witness shrinking: drop events while the same signature still fires

fn shrink(kind: Kind, init: &Init, events: &[Ev], sig: &str, idx: usize) -> (Init, Vec<Ev>) {
    let fires = |init: &Init, evs: &[Ev]| -> Option<usize> {
        guarded(|| execute(kind, init, evs))
            .ok()
            .and_then(|o| o.findings.iter().find(|f| f.sig == sig).map(|f| f.idx))
    };
    let mut evs: Vec<Ev> = events[..=idx.min(events.len() - 1)].to_vec();
    let mut init = init.clone();
    for _pass in 0..3 {
        let mut progress = false;
        let mut i = evs.len();
        while i > 0 {
            i -= 1;
            if evs.len() <= 1 {
                break;
            }
            let mut cand = evs.clone();
            cand.remove(i);
            if let Some(at) = fires(&init, &cand) {
                cand.truncate(at + 1);
                evs = cand;
                progress = true;
                i = i.min(evs.len());
            }
        }
        if !progress {
            break;
        }
    }
    if init.view.is_some() {
        let cand = Init {
            size: init.size,
            view: None,
        };
        if let Some(at) = fires(&cand, &evs) {
            evs.truncate(at + 1);
            init = cand;
        }
    }
    (init, evs)
}

fn witness_json(kind: Kind, init: &Init, evs: &[Ev]) -> Value {
    let is3 = kind.is3();
    json!({
        "object": kind.name(),
        "initial_image_size": if kind.is_canvas() { init.size.json(is3) } else { json!(null) },
        "initial_view": match &init.view {
            None => json!("default"),
            Some(v) => v.json(is3),
        },
        "events": evs.iter().map(|e| e.json(is3)).collect::<Vec<_>>(),
    })
}

////////////////////////////////////////////////////////////////////////////////

impl Prop for C18 {
    fn id(&self) -> &'static str {
        "C18"
    }
    fn mode(&self) -> Mode {
        Mode::Threads
    }
    fn n_cases(&self, tier: Tier) -> u64 {
        tier.pick(250_000, 6_000_000)
    }
    fn time_cap_s(&self, tier: Tier) -> u64 {
        tier.pick(90, 1200)
    }
    fn run_case(&self, case: u64, rng: &mut Rng, st: &mut Stats, _tier: Tier) {
        let (kind, prof, init, events) = generate(rng);
        let is3 = kind.is3();
        st.inc(match kind {
            Kind::Canvas2 => "histories_canvas2",
            Kind::Canvas3 => "histories_canvas3",
            Kind::View2 => "histories_view2",
            Kind::View3 => "histories_view3",
        });
        if prof.no_zoom_in_drag {
            st.inc("histories_without_zoom_inside_drags");
        }
        let mut hw = vec![kind as u64];
        for e in &events {
            e.hash_words(&mut hw);
        }
        st.distinct(hash_u64s(&hw));
        st.sample(|| {
            json!({"object": kind.name(), "n_events": events.len(),
                "initial_view": init.view.as_ref().map(|v| v.json(is3)),
                "first_events": events.iter().take(8).map(|e| e.json(is3)).collect::<Vec<_>>()})
        });

        let out = match guarded(|| execute(kind, &init, &events)) {
            Ok(o) => o,
            Err(pi) => {
                if pi.in_repo() {
                    st.violation(
                        case,
                        format!("panic:{}:{}", pi.site(), pi.msg_class()),
                        format!("fidget panicked at {}: {}", pi.site(), pi.msg),
                        json!({"message": pi.msg,
                               "history": witness_json(kind, &init, &events)}),
                    );
                } else {
                    st.inconclusive.push(format!(
                        "harness error in case {case}: {}:{} {}",
                        pi.file, pi.line, pi.msg
                    ));
                }
                return;
            }
        };
        for (k, v) in &out.cnt {
            st.add(k, *v);
        }
        for (k, v) in &out.maxes {
            st.max(k, *v);
        }
        st.add("events_total", out.events_applied as u64);
        if out.events_applied >= 100 {
            st.inc("histories_100_plus_events");
        }
        for f in out.findings {
            let kept = st
                .violations
                .iter()
                .filter(|v| v.signature == f.sig)
                .count();
            let detail = if kept < 3 {
                // shrink only witnesses that will be kept
                let (sinit, sevs) = shrink(kind, &init, &events, &f.sig, f.idx);
                let shr = guarded(|| execute(kind, &sinit, &sevs)).ok().and_then(|o| {
                    o.findings.into_iter().find(|g| g.sig == f.sig)
                });
                match shr {
                    Some(g) => json!({
                        "shrunk_history": witness_json(kind, &sinit, &sevs),
                        "failing_event_index_in_shrunk_history": g.idx,
                        "observation_on_shrunk_history": g.detail,
                        "summary_on_shrunk_history": g.summary,
                        "original_history_events": events.len(),
                        "failing_event_index_in_original_history": f.idx,
                        "observation_on_original_history": f.detail,
                        "note": "replay by (seed, case) re-runs the original history",
                    }),
                    None => json!({
                        "history": witness_json(kind, &init, &events[..=f.idx]),
                        "failing_event_index": f.idx,
                        "observation": f.detail,
                    }),
                }
            } else {
                json!({"failing_event_index": f.idx, "observation": f.detail})
            };
            st.violation(case, f.sig, f.summary, detail);
        }
    }
    fn finish(&self, st: &mut Stats, tier: Tier) {
        let k = tier.pick(1u64, 20);
        // about 1/5 of what a quick run (250k histories) observes
        let floors: [(&str, u64); 16] = [
            ("histories_canvas2", 20_000),
            ("histories_canvas3", 20_000),
            ("histories_view2", 5_000),
            ("histories_view3", 5_000),
            ("histories_100_plus_events", 25_000),
            ("matrix_checks", 5_000_000),
            ("zoom_checks_amount_ne_1", 700_000),
            ("zoom_checks_cursor_outside_image", 300_000),
            ("pan_checks_clean_cursor_moved", 1_000_000),
            ("pan_checks_cursor_outside_image", 500_000),
            ("pan_then_zoom_checks_in_interact", 150_000),
            ("pan_checks_after_zoom_during_drag", 500_000),
            ("rotate_checks", 250_000),
            ("rotate_checks_in_interact", 250_000),
            ("rotate_pitch_clamped", 150_000),
            ("flag_checks_view_identical", 1_000_000),
        ];
        for (name, floor) in floors {
            let floor = floor * k;
            if st.get(name) < floor {
                st.inconclusive
                    .push(format!("only {} {name} (floor {floor})", st.get(name)));
            }
        }
        if st.get("depth_only_deviation") > 0 {
            st.inconclusive.push(format!(
                "{} events moved the 3D point under the cursor only along the \
                 viewing axis (it stays under the cursor of the orthographic \
                 view; the statement does not decide this)",
                st.get("depth_only_deviation")
            ));
        }
    }
    fn rule(&self) -> String {
        "each case = one random event history (10..200 events) over Canvas2 (40%), Canvas3 (40%), View2 or View3 with handles (10% each), started from the default view or a random one (scale 2^-7..2^7, yaw within one turn, pitch in [0,pi]); events: interact (cursor on/off screen, button up/down, Pan/Rotate, scroll, new image size), begin_drag, drag, end_drag, zoom with/without cursor, resize; screen positions inside, near, on the edges of and far outside the image (up to i32::MIN/MAX), image sizes 1..2048 plus 2^12..2^32-1 and zero-sized; half of the histories never zoom inside a drag; every relation of the statement is recomputed in f64 from components() after each event; distinct = hash of object kind and event list".into()
    }
    fn assumptions(&self) -> Vec<String> {
        vec![
            "scroll amounts are truncated so that the view scale stays within [1e-7, 1e7]; initial views have positive scale, in-range angles and finite centre".into(),
            "screen-to-world is taken from the RegionSize documentation (centre -> 0, short axis -> +-1, y flipped, +1 one pixel above the top row, 3D cursor at voxel z = 0); cursor events on zero-sized images are skipped (no screen-to-world map exists)".into(),
            "'same model point' = within 1e-4 * scale * max(1, |world cursor|) + 32 * f32 epsilon * (|centres| + scale * |world cursor|); in 3D the deviation across the viewing axis is judged".into(),
            "'changed' flag: only (view bit-identical => flag false) is judged, as stated; the converse is counted, not judged".into(),
            "View2/View3 level histories keep the canvas discipline: one handle at a time, no rotate between begin_translate and translate".into(),
        ]
    }
}
