//! C19 - the constraint solver honours fixed parameters and solves solvable
//! systems.
//!
//! Workload: planted, consistent linear systems `A x = b` with n in 1..=40
//! unknowns (n stratified over the case index), a subset of them `Fixed`
//! (none / all / exactly one free / exactly one fixed / random), m >= #free
//! equations each over its own subset of the variables, free sub-matrix
//! accepted only when (computed here in f64, nalgebra SVD) its condition
//! number is <= 100 and its smallest singular value >= 0.25.  Each equation
//! is built as a fidget expression (`Tree` or `Context` calls, several sum
//! shapes) over `Var::new()` variables and handed to `fidget_solver::solve`
//! with `VmFunction` and with `JitFunction`.
//!
//! Oracle (independent of the solver, all in f64 from the generator's own
//! coefficient table):
//!  * key set of the result == set of free parameters;
//!  * `max_r |sum_j a_rj x_j - b_r| <= 1e-3 (1 + max|b|)`, with fixed
//!    parameters at their given values;
//!  * `|x_vm - x_jit| <= 1e-3 (1 + |x|)`;
//!  * exact-start systems (all numbers small dyadic rationals, start ==
//!    planted solution, hence every residual is exactly 0 in f32 for every
//!    evaluation order): returned value bit-identical to the start;
//!  * no panic / no `Err` / no hang (SIGALRM watchdog in child processes).
use crate::monitor::child;
use crate::util::{PanicInfo, Rng, Stats, Tier, fbits, guarded, hash_u64s, same_bits};
use crate::{Mode, Prop};
use fidget_core::context::{Context, Node, Tree};
use fidget_core::eval::{Function, MathFunction};
use fidget_core::var::Var;
use fidget_core::vm::VmFunction;
use fidget_jit::JitFunction;
use fidget_solver::{Parameter, solve};
use serde_json::{Value, json};
use std::collections::HashMap;

pub struct C19;

const MAX_N: usize = 40;
const COND_MAX: f64 = 100.0;
const SMIN_MIN: f64 = 0.25;
/// Residual / cross-backend tolerance factor (DESIGN.md C19)
const TOL: f64 = 1e-3;
/// Seconds after which a single `solve` call is declared hung (child only)
const WATCHDOG_S: u32 = 90;

////////////////////////////////////////////////////////////////////////////////
// System description (the generator's own table; the oracle reads only this)

#[derive(Copy, Clone, Debug, PartialEq, Eq)]
enum FixMode {
    NoneFixed,
    AllFixed,
    OneFree,
    OneFixed,
    Random,
}

#[derive(Copy, Clone, Debug, PartialEq, Eq)]
enum Shape {
    /// `Tree`: ((t0 + t1) + t2) + ... - b
    TreeChainSubB,
    /// `Tree`: (-b) + t0 + t1 + ... (the form used in fidget's own tests)
    TreeNegBFirst,
    /// `Context` calls, left chain, then `sub(sum, b)`
    CtxChain,
    /// `Context` calls, balanced pairwise sum with `-b` as one of the leaves
    CtxBalanced,
}

struct System {
    /// parameters n_core..n appear in the parameter map but in no equation
    n_core: usize,
    n: usize,
    fix_mode: FixMode,
    fixed: Vec<bool>,
    /// equation -> terms (variable index, coefficient) in expression order
    rows: Vec<Vec<(usize, f32)>>,
    b: Vec<f32>,
    /// planted value for free variables, given value for fixed ones
    value: Vec<f32>,
    /// starting point of the free variables (unused for fixed ones)
    start: Vec<f32>,
    exact: bool,
    cond: f64,
    smin: f64,
    attempts: u32,
    shape: Shape,
    shared_ctx: bool,
    xyz: bool,
    row_scaled: bool,
    start_kind: &'static str,
}

impl System {
    fn n_free(&self) -> usize {
        self.fixed.iter().filter(|f| !**f).count()
    }
    fn hash(&self) -> u64 {
        let mut v: Vec<u64> = vec![self.n as u64, self.shape as u64];
        for i in 0..self.n {
            v.push((self.fixed[i] as u64) << 32 | self.value[i].to_bits() as u64);
            v.push(self.start[i].to_bits() as u64);
        }
        for (r, row) in self.rows.iter().enumerate() {
            v.push(0xE0 ^ self.b[r].to_bits() as u64);
            for &(j, a) in row {
                v.push((j as u64) << 32 | a.to_bits() as u64);
            }
        }
        hash_u64s(&v)
    }
    fn eq_string(&self, r: usize) -> String {
        let mut s = String::new();
        for (k, &(j, a)) in self.rows[r].iter().enumerate() {
            if k > 0 {
                s.push_str(" + ");
            }
            s.push_str(&format!(
                "{a:?}*{}{j}",
                if self.fixed[j] { "c" } else { "x" }
            ));
        }
        s.push_str(&format!(" - ({:?}) = 0", self.b[r]));
        s
    }
    fn to_json(&self) -> Value {
        json!({
            "n": self.n,
            "parameters_used_by_no_equation": self.n - self.n_core,
            "free": self.n_free(),
            "equations": self.rows.len(),
            "fix_mode": format!("{:?}", self.fix_mode),
            "parameters": (0..self.n).map(|i| if self.fixed[i] {
                format!("c{i} = Fixed({:?})", self.value[i])
            } else {
                format!("x{i} = Free({:?})  [planted {:?}]", self.start[i], self.value[i])
            }).collect::<Vec<_>>(),
            "system": (0..self.rows.len()).map(|r| self.eq_string(r)).collect::<Vec<_>>(),
            "exact_start": self.exact,
            "cond_free_submatrix": self.cond,
            "sigma_min": self.smin,
            "expression_shape": format!("{:?}", self.shape),
            "one_context_for_all_equations": self.shared_ctx,
            "uses_var_xyz": self.xyz,
            "some_equations_scaled": self.row_scaled,
            "start_kind": self.start_kind,
        })
    }
}

////////////////////////////////////////////////////////////////////////////////
// Generator

/// Nonzero coefficient with magnitude in [lo, hi]; dyadic (multiples of 1/4)
/// when `exact`
fn coef(rng: &mut Rng, lo: f64, hi: f64, exact: bool) -> f32 {
    let s = if rng.chance(0.5) { -1.0 } else { 1.0 };
    if exact {
        let k = rng.range((lo * 4.0).ceil() as i64, (hi * 4.0).floor() as i64);
        (s * k as f64 / 4.0) as f32
    } else {
        (s * rng.uniform(lo, hi)) as f32
    }
}

/// (condition number, smallest singular value) of the free sub-matrix
fn cond_of(rows: &[Vec<(usize, f32)>], col_of: &[Option<usize>], f: usize) -> (f64, f64) {
    if f == 0 {
        return (1.0, f64::INFINITY);
    }
    let m = rows.len();
    let mut a = nalgebra::DMatrix::<f64>::zeros(m, f);
    for (r, row) in rows.iter().enumerate() {
        for &(j, c) in row {
            if let Some(cj) = col_of[j] {
                a[(r, cj)] += c as f64;
            }
        }
    }
    let sv = a.svd(false, false).singular_values;
    let mx = sv.iter().cloned().fold(0.0f64, f64::max);
    let mn = sv.iter().cloned().fold(f64::INFINITY, f64::min);
    if !(mn > 0.0) || !mx.is_finite() {
        return (f64::INFINITY, 0.0);
    }
    (mx / mn, mn)
}

fn generate(case: u64, rng: &mut Rng) -> System {
    // n and the fixed/free layout are stratified over the case index so that
    // every n and every layout is reached by any run of >= 400 cases
    let n = (case % MAX_N as u64) as usize + 1;
    let fix_mode = match (case / MAX_N as u64) % 10 {
        0 | 1 => FixMode::NoneFixed,
        2 => FixMode::AllFixed,
        3 => FixMode::OneFree,
        4 => FixMode::OneFixed,
        _ => FixMode::Random,
    };
    let mut fixed = vec![false; n];
    match fix_mode {
        FixMode::NoneFixed => {}
        FixMode::AllFixed => fixed.fill(true),
        FixMode::OneFree => {
            fixed.fill(true);
            fixed[rng.below(n)] = false;
        }
        FixMode::OneFixed => {
            if n >= 2 {
                fixed[rng.below(n)] = true;
            }
        }
        FixMode::Random => {
            let p = rng.uniform(0.05, 0.95);
            for f in fixed.iter_mut() {
                *f = rng.chance(p);
            }
        }
    }
    let free_idx: Vec<usize> = (0..n).filter(|&i| !fixed[i]).collect();
    let f = free_idx.len();
    let mut col_of = vec![None; n];
    for (c, &i) in free_idx.iter().enumerate() {
        col_of[i] = Some(c);
    }
    let exact = rng.chance(0.25);

    // number of equations
    let m = if f == 0 {
        if rng.chance(0.15) { 0 } else { 1 + rng.below(3) }
    } else if rng.chance(0.5) {
        f
    } else {
        f + 1 + rng.below(3)
    };

    // sparsity and coefficient scales
    let density = match rng.below(6) {
        0 => 1.0,
        1 => rng.uniform(0.0, 0.08),
        _ => rng.uniform(0.05, 0.8),
    };
    let fixed_scale = if rng.chance(0.25) { 4.0 } else { 1.0 };

    // rows 0..f: one "pivot" free variable each (a random matching between
    // equations and free variables), rows f..m: arbitrary extra equations
    let mut pivot = free_idx.clone();
    rng.shuffle(&mut pivot);
    // coefficient table: per row, pivot term + other terms
    let mut rows: Vec<Vec<(usize, f32)>> = vec![];
    for r in 0..m {
        let mut row = vec![];
        let piv = if r < f { Some(pivot[r]) } else { None };
        if let Some(p) = piv {
            row.push((p, coef(rng, 1.0, 3.0, exact)));
        }
        for j in 0..n {
            if Some(j) == piv || !rng.chance(density) {
                continue;
            }
            let c = if fixed[j] {
                let c = coef(rng, 0.25, 2.0, exact);
                (c as f64 * fixed_scale) as f32
            } else {
                coef(rng, 0.25, 2.0, exact)
            };
            row.push((j, c));
        }
        if row.is_empty() {
            let j = rng.below(n);
            row.push((j, coef(rng, 0.5, 2.0, exact)));
        }
        rows.push(row);
    }

    // Some systems mix equations of different scale (whole rows multiplied
    // by a factor >= 1: this can only raise singular values, it widens the
    // spread of the spectrum towards the stated bound)
    let row_scaled = rng.chance(0.3);
    if row_scaled {
        for row in rows.iter_mut() {
            if rng.chance(0.5) {
                continue;
            }
            let s = if exact {
                *rng.pick(&[2.0, 4.0])
            } else {
                rng.uniform(1.0, 6.0)
            };
            for t in row.iter_mut() {
                t.1 = (t.1 as f64 * s) as f32;
            }
        }
    }

    // Accept only a well-conditioned free sub-matrix; otherwise weaken the
    // non-pivot free entries (scale them, or drop some in dyadic mode) and
    // try again. The last attempt removes them altogether, which leaves a
    // (row-permuted) diagonal with entries in [1,3] plus rows with at most
    // one free entry.
    let mut attempts = 0u32;
    let (cond, smin) = loop {
        let (c, s) = cond_of(&rows, &col_of, f);
        if c <= COND_MAX && s >= SMIN_MIN {
            break (c, s);
        }
        attempts += 1;
        let last = attempts >= 40;
        for (r, row) in rows.iter_mut().enumerate() {
            let piv = if r < f { Some(pivot[r]) } else { None };
            if exact || last {
                let p_drop = if last { 1.0 } else { 0.35 };
                row.retain(|&(j, _)| {
                    fixed[j] || Some(j) == piv || !rng.chance(p_drop)
                });
                if row.is_empty() {
                    // extra row that lost everything: tie it to one variable
                    let j = rng.below(n);
                    row.push((j, coef(rng, 1.0, 2.0, exact)));
                }
            } else {
                for t in row.iter_mut() {
                    if !fixed[t.0] && Some(t.0) != piv {
                        t.1 = (t.1 as f64 * 0.85) as f32;
                    }
                }
                row.retain(|&(_, a)| a != 0.0);
            }
        }
        if attempts > 41 {
            break cond_of(&rows, &col_of, f);
        }
    };

    // expression order of the terms
    for row in rows.iter_mut() {
        rng.shuffle(row);
    }

    // planted solution / fixed values / start
    let start_kind = if exact {
        "planted"
    } else {
        match rng.below(5) {
            0 => "zero",
            1 => "far",
            _ => "near",
        }
    };
    let mut value = vec![0f32; n];
    let mut start = vec![0f32; n];
    for i in 0..n {
        if exact {
            let k = rng.range(-32, 32);
            value[i] = k as f32 / 8.0;
            if rng.chance(0.03) {
                value[i] = -0.0;
            }
            start[i] = value[i];
        } else {
            value[i] = rng.uniform(-4.0, 4.0) as f32;
            start[i] = match start_kind {
                "zero" => 0.0,
                "far" => rng.uniform(-100.0, 100.0) as f32,
                _ => rng.uniform(-4.0, 4.0) as f32,
            };
        }
    }
    let b: Vec<f32> = rows
        .iter()
        .map(|row| {
            row.iter()
                .map(|&(j, a)| a as f64 * value[j] as f64)
                .sum::<f64>() as f32
        })
        .collect();

    let shape = *rng.pick(&[
        Shape::TreeChainSubB,
        Shape::TreeNegBFirst,
        Shape::CtxChain,
        Shape::CtxBalanced,
    ]);
    // idle parameters: present in the parameter map, used by no equation
    // (the key set must still be exactly the free ones, and an exact start
    // must come back unchanged)
    let n_core = n;
    let mut n = n;
    if rng.chance(0.15) {
        for _ in 0..1 + rng.below(3) {
            fixed.push(rng.chance(0.3));
            let v = if exact { rng.range(-32, 32) as f32 / 8.0 } else { rng.uniform(-4.0, 4.0) as f32 };
            value.push(v);
            start.push(if exact { v } else { rng.uniform(-4.0, 4.0) as f32 });
            n += 1;
        }
    }
    System {
        n_core,
        n,
        fix_mode,
        fixed,
        rows,
        b,
        value,
        start,
        exact,
        cond,
        smin,
        attempts,
        shape,
        shared_ctx: rng.chance(0.5),
        xyz: n >= 3 && rng.chance(0.2),
        row_scaled,
        start_kind,
    }
}

/// In exact-start systems every product is a multiple of 1/32 and every
/// partial sum of an equation is far below 2^19, so the f32 value of every
/// equation at the start is exactly 0 whatever the evaluation order. This
/// re-checks the premise on the generator's table (not on fidget).
fn exact_premise_holds(sys: &System) -> bool {
    for (r, row) in sys.rows.iter().enumerate() {
        let mut abs_sum = (sys.b[r] as f64).abs();
        let mut sum = -(sys.b[r] as f64);
        for &(j, a) in row {
            let p = a as f64 * sys.value[j] as f64;
            if (p * 32.0).fract() != 0.0 {
                return false;
            }
            abs_sum += p.abs();
            sum += p;
        }
        if sum != 0.0 || abs_sum >= 65536.0 || (sys.b[r] as f64 * 32.0).fract() != 0.0 {
            return false;
        }
    }
    true
}

////////////////////////////////////////////////////////////////////////////////
// Building the fidget expressions

fn term_tree(rng: &mut Rng, a: f32, v: Var) -> Tree {
    let x = Tree::from(v);
    if a == 1.0 && rng.chance(0.5) {
        x
    } else if a == -1.0 && rng.chance(0.5) {
        -x
    } else if rng.chance(0.5) {
        Tree::from(a) * x
    } else {
        x * Tree::from(a)
    }
}

fn term_ctx(rng: &mut Rng, ctx: &mut Context, a: f32, v: Var) -> Node {
    let x = ctx.var(v);
    if a == 1.0 && rng.chance(0.5) {
        x
    } else if a == -1.0 && rng.chance(0.5) {
        ctx.neg(x).unwrap()
    } else {
        let c = ctx.constant(a);
        if rng.chance(0.5) {
            ctx.mul(c, x).unwrap()
        } else {
            ctx.mul(x, c).unwrap()
        }
    }
}

/// Builds the expression of one equation into `ctx`
fn build_eq(
    rng: &mut Rng,
    ctx: &mut Context,
    sys: &System,
    r: usize,
    vars: &[Var],
) -> Node {
    let row = &sys.rows[r];
    let b = sys.b[r];
    match sys.shape {
        Shape::TreeChainSubB => {
            let mut acc: Option<Tree> = None;
            for &(j, a) in row {
                let t = term_tree(rng, a, vars[j]);
                acc = Some(match acc {
                    None => t,
                    Some(s) => s + t,
                });
            }
            let t = acc.unwrap() - Tree::from(b);
            ctx.import(&t)
        }
        Shape::TreeNegBFirst => {
            let mut out = Tree::from(-b);
            for &(j, a) in row {
                out += term_tree(rng, a, vars[j]);
            }
            ctx.import(&out)
        }
        Shape::CtxChain => {
            let mut acc: Option<Node> = None;
            for &(j, a) in row {
                let t = term_ctx(rng, ctx, a, vars[j]);
                acc = Some(match acc {
                    None => t,
                    Some(s) => ctx.add(s, t).unwrap(),
                });
            }
            let c = ctx.constant(b);
            ctx.sub(acc.unwrap(), c).unwrap()
        }
        Shape::CtxBalanced => {
            let mut leaves: Vec<Node> = row
                .iter()
                .map(|&(j, a)| term_ctx(rng, ctx, a, vars[j]))
                .collect();
            let nb = ctx.constant(-b);
            let at = rng.below(leaves.len() + 1);
            leaves.insert(at, nb);
            while leaves.len() > 1 {
                let mut next = vec![];
                for pair in leaves.chunks(2) {
                    next.push(if pair.len() == 2 {
                        ctx.add(pair[0], pair[1]).unwrap()
                    } else {
                        pair[0]
                    });
                }
                leaves = next;
            }
            leaves[0]
        }
    }
}

struct Built {
    ctxs: Vec<Context>,
    /// per equation: (context index, root)
    roots: Vec<(usize, Node)>,
}

fn build(rng: &mut Rng, sys: &System, vars: &[Var]) -> Built {
    let mut ctxs = vec![];
    let mut roots = vec![];
    if sys.shared_ctx {
        ctxs.push(Context::new());
    }
    for r in 0..sys.rows.len() {
        if !sys.shared_ctx {
            ctxs.push(Context::new());
        }
        let ci = ctxs.len() - 1;
        let root = build_eq(rng, &mut ctxs[ci], sys, r, vars);
        roots.push((ci, root));
    }
    Built { ctxs, roots }
}

////////////////////////////////////////////////////////////////////////////////
// Running the solver

enum Outcome {
    /// (variable index or None for a foreign key, value)
    Solved(Vec<(Option<usize>, f32)>),
    SolveErr(String),
    Panic(PanicInfo),
    /// functions could not be built (not this property's business)
    NoFunction(String),
}

fn watchdog(on: bool) {
    if child::is_child() {
        unsafe {
            libc::alarm(if on { WATCHDOG_S } else { 0 });
        }
    }
}

fn run_backend<F: Function + MathFunction>(
    name: &str,
    sys: &System,
    built: &Built,
    vars: &[Var],
    params: &HashMap<Var, Parameter>,
) -> Outcome {
    let eqs = guarded(|| {
        built
            .roots
            .iter()
            .map(|&(ci, root)| F::new(&built.ctxs[ci], &[root]))
            .collect::<Result<Vec<F>, _>>()
    });
    let eqs = match eqs {
        Ok(Ok(e)) => e,
        Ok(Err(e)) => return Outcome::NoFunction(format!("{e:?}")),
        Err(pi) => return Outcome::NoFunction(format!("panic {} {}", pi.site(), pi.msg)),
    };
    child::note(&format!(
        "C19 solve {name} | n={} free={} equations={} exact={}",
        sys.n,
        sys.n_free(),
        sys.rows.len(),
        sys.exact
    ));
    watchdog(true);
    let r = guarded(|| solve(&eqs, params));
    watchdog(false);
    child::note("C19 after solve");
    match r {
        Err(pi) => Outcome::Panic(pi),
        Ok(Err(e)) => Outcome::SolveErr(format!("{e}")),
        Ok(Ok(map)) => {
            let mut out: Vec<(Option<usize>, f32)> = map
                .into_iter()
                .map(|(v, x)| (vars.iter().position(|w| *w == v), x))
                .collect();
            out.sort_by_key(|(i, _)| i.map(|i| i as i64).unwrap_or(-1));
            Outcome::Solved(out)
        }
    }
}

fn fresh_params(sys: &System, vars: &[Var]) -> HashMap<Var, Parameter> {
    // a new HashMap has a new RandomState, hence its own iteration order,
    // which is what the solver derives its gradient slots from
    (0..sys.n)
        .map(|i| {
            (
                vars[i],
                if sys.fixed[i] {
                    Parameter::Fixed(sys.value[i])
                } else {
                    Parameter::Free(sys.start[i])
                },
            )
        })
        .collect()
}

/// Reports at most one violation per signature and case (the same system is
/// solved three times)
struct Reporter {
    case: u64,
    seen: Vec<String>,
}

impl Reporter {
    fn violation(&mut self, st: &mut Stats, sig: String, summary: String, detail: Value) {
        if self.seen.contains(&sig) {
            st.inc("repeated_violations_same_case_and_signature");
            return;
        }
        self.seen.push(sig.clone());
        st.violation(self.case, sig, summary, detail);
    }
}

/// Panic location without machine-specific prefixes (checkout directory,
/// cargo registry hash), so that signatures are stable
fn site_of(pi: &PanicInfo) -> String {
    let f = pi.file.as_str();
    let short = if let Some(k) = f.find("/registry/src/") {
        let rest = &f[k + "/registry/src/".len()..];
        rest.split_once('/').map(|x| x.1).unwrap_or(rest)
    } else if let Some(k) = f.find("fidget-") {
        &f[k..]
    } else {
        f
    };
    format!("{}:{}", short, pi.line)
}

fn layout(sys: &System) -> &'static str {
    let f = sys.n_free();
    if f == 0 {
        "all_fixed"
    } else if f == sys.n {
        "all_free"
    } else {
        "mixed"
    }
}

/// Judges one solver run; returns the solution by variable index when it is
/// usable for the cross-backend comparison
fn judge(
    rep: &mut Reporter,
    run: &str,
    sys: &System,
    out: &Outcome,
    st: &mut Stats,
) -> Option<Vec<f32>> {
    let n = sys.n;
    let f = sys.n_free();
    let case = rep.case;
    let sol = match out {
        Outcome::NoFunction(e) => {
            st.inconclusive
                .push(format!("case {case}: could not build functions ({run}): {e}"));
            return None;
        }
        Outcome::Panic(pi) => {
            st.inc("solver_panics");
            rep.violation(st,
                format!("panic:{}:{}:{}", site_of(pi), pi.msg_class(), layout(sys)),
                format!(
                    "solve() panicked at {} ({}) on a consistent linear system with {} unknowns, {} free, {} equations",
                    site_of(pi), pi.msg, n, f, sys.rows.len()
                ),
                json!({"run": run, "panic_site": site_of(pi), "message": pi.msg, "system": sys.to_json()}),
            );
            return None;
        }
        Outcome::SolveErr(e) => {
            rep.violation(st,
                format!("solve_error:{}", layout(sys)),
                format!("solve() returned Err({e}) on a consistent well-conditioned linear system"),
                json!({"run": run, "error": e, "system": sys.to_json()}),
            );
            return None;
        }
        Outcome::Solved(s) => s,
    };
    st.inc("solver_runs_returned");

    // 1. key set == free set
    let mut x: Vec<Option<f32>> = vec![None; n];
    let mut bad: Vec<(String, String)> = vec![];
    for &(i, v) in sol {
        match i {
            None => bad.push((
                "keyset:unknown_variable_returned".into(),
                format!("a variable that is not in the parameter map (= {v:?})"),
            )),
            Some(i) if sys.fixed[i] => bad.push((
                "keyset:fixed_parameter_returned".into(),
                format!("fixed parameter c{i} returned with value {v:?}"),
            )),
            Some(i) => x[i] = Some(v),
        }
    }
    for i in 0..n {
        if !sys.fixed[i] && x[i].is_none() {
            bad.push((
                "keyset:free_parameter_missing".into(),
                format!("free parameter x{i} missing from the result"),
            ));
        }
    }
    st.inc("keyset_checks");
    if !bad.is_empty() {
        let (sig, _) = bad[0].clone();
        rep.violation(st,
            sig,
            format!(
                "result key set differs from the free set ({} problems, first: {})",
                bad.len(),
                bad[0].1
            ),
            json!({"run": run, "problems": bad.iter().map(|b| b.1.clone()).collect::<Vec<_>>(),
                   "returned": sol.iter().map(|(i, v)| json!([i, format!("{v:?}")])).collect::<Vec<_>>(),
                   "system": sys.to_json()}),
        );
        return None;
    }
    let full: Vec<f32> = (0..n)
        .map(|i| if sys.fixed[i] { sys.value[i] } else { x[i].unwrap() })
        .collect();

    // 2. residual in f64, fixed parameters at their given values
    let mut res = 0.0f64;
    let mut worst = 0usize;
    let mut bmax = 0.0f64;
    let mut finite = true;
    for (r, row) in sys.rows.iter().enumerate() {
        let v: f64 = row
            .iter()
            .map(|&(j, a)| a as f64 * full[j] as f64)
            .sum::<f64>()
            - sys.b[r] as f64;
        bmax = bmax.max((sys.b[r] as f64).abs());
        if !v.is_finite() {
            finite = false;
            worst = r;
        } else if v.abs() > res {
            res = v.abs();
            worst = r;
        }
    }
    let tol = TOL * (1.0 + bmax);
    if f > 0 {
        st.inc("residual_checks");
        st.inc(&format!("residual_checks_free_mod3_{}", f % 3));
        st.inc(&format!("residual_checks_n_mod3_{}", n % 3));
        if sys.rows.len() > f {
            st.inc("residual_checks_overdetermined");
        }
        if f < n {
            st.inc("residual_checks_with_fixed");
        }
        st.set_insert("free_counts_judged", &format!("{f:02}"));
        if finite {
            st.max("residual_over_tolerance", res / tol);
        }
    }
    if !finite || !(res <= tol) {
        rep.violation(st,
            format!("residual_large:{}", layout(sys)),
            format!(
                "returned point does not solve the system: |A x - b|_inf = {res:e} > {tol:e} (n={n}, free={f}, equations={}, cond={:.1})",
                sys.rows.len(), sys.cond
            ),
            json!({"run": run, "residual_inf": res, "finite": finite, "tolerance": tol, "worst_equation": worst,
                   "worst_equation_text": sys.eq_string(worst),
                   "returned": (0..n).filter(|i| !sys.fixed[*i]).map(|i| format!("x{i} = {:?}", full[i])).collect::<Vec<_>>(),
                   "system": sys.to_json()}),
        );
        return None;
    }

    // 3. exact start: nothing may move
    if sys.exact && f > 0 {
        st.inc("exact_start_runs_checked");
        let moved: Vec<usize> = (0..n)
            .filter(|&i| !sys.fixed[i] && !same_bits(full[i], sys.start[i]))
            .collect();
        st.add("exact_start_values_compared", f as u64);
        if !moved.is_empty() {
            let i = moved[0];
            rep.violation(st,
                "exact_start_moved".to_string(),
                format!(
                    "every equation is exactly satisfied at the start, but {} of {f} free parameters came back changed (x{i}: {:?} -> {:?})",
                    moved.len(), sys.start[i], full[i]
                ),
                json!({"run": run,
                       "moved": moved.iter().map(|&i| json!({"var": i, "start": fbits(sys.start[i]), "returned": fbits(full[i])})).collect::<Vec<_>>(),
                       "system": sys.to_json()}),
            );
            return None;
        }
    }
    Some(full)
}

impl Prop for C19 {
    fn id(&self) -> &'static str {
        "C19"
    }
    fn mode(&self) -> Mode {
        // a panic that unwinds into JIT-compiled frames aborts the process
        Mode::Children
    }
    fn n_cases(&self, tier: Tier) -> u64 {
        tier.pick(8_000, 300_000)
    }
    fn time_cap_s(&self, tier: Tier) -> u64 {
        tier.pick(100, 1500)
    }
    fn run_case(&self, case: u64, rng: &mut Rng, st: &mut Stats, _tier: Tier) {
        let sys = generate(case, rng);
        let n = sys.n;
        let f = sys.n_free();
        let m = sys.rows.len();
        if !(sys.cond <= COND_MAX && sys.smin >= SMIN_MIN) {
            st.inconclusive.push(format!(
                "case {case}: generator failed to produce a well-conditioned system (cond {})",
                sys.cond
            ));
            return;
        }
        if sys.exact && !exact_premise_holds(&sys) {
            st.inconclusive
                .push(format!("case {case}: exact-start premise broken in generator"));
            return;
        }

        // coverage bookkeeping
        st.inc("systems");
        st.inc(&format!("systems_{}", layout(&sys)));
        st.inc(&format!("fix_mode_{:?}", sys.fix_mode));
        st.inc(&format!("shape_{:?}", sys.shape));
        st.inc(&format!("start_{}", sys.start_kind));
        st.set_insert("n_values", &format!("{n:02}"));
        st.set_insert("free_counts", &format!("{f:02}"));
        st.inc(&format!("n_mod3_{}", n % 3));
        st.inc(&format!("free_mod3_{}", f % 3));
        st.add("equations", m as u64);
        if m > f {
            st.inc("systems_overdetermined");
        }
        if m == 0 {
            st.inc("systems_without_equations");
        }
        if sys.exact {
            st.inc("systems_exact_start");
        }
        if sys.shared_ctx {
            st.inc("systems_one_context");
        }
        if sys.xyz {
            st.inc("systems_using_var_xyz");
        }
        if sys.row_scaled {
            st.inc("systems_with_scaled_equations");
        }
        if sys.attempts > 0 {
            st.inc("systems_weakened_to_meet_cond");
        }
        let mut used = vec![false; n];
        for row in &sys.rows {
            st.add("terms", row.len() as u64);
            if row.len() == n {
                st.inc("equations_over_all_variables");
            } else {
                st.inc("equations_over_proper_subset");
            }
            if row.iter().all(|&(j, _)| sys.fixed[j]) {
                st.inc("equations_over_fixed_only");
            }
            for &(j, _) in row {
                used[j] = true;
            }
        }
        st.add(
            "parameters_in_no_equation",
            used.iter().filter(|u| !**u).count() as u64,
        );
        if f > 0 {
            st.max("cond_free_submatrix", sys.cond);
            st.max("inv_sigma_min", 1.0 / sys.smin);
            st.inc(match sys.cond {
                c if c < 3.0 => "cond_below_3",
                c if c < 10.0 => "cond_3_to_10",
                c if c < 30.0 => "cond_10_to_30",
                _ => "cond_30_to_100",
            });
        }
        if sys.n > sys.n_core {
            st.inc("systems_with_idle_parameters");
            st.add("idle_free_parameters", (sys.n_core..sys.n).filter(|&i| !sys.fixed[i]).count() as u64);
        }
        st.distinct(sys.hash());

        // variables (random identities; referred to by creation index)
        let mut vars: Vec<Var> = (0..n).map(|_| Var::new()).collect();
        if sys.xyz {
            let mut pos: Vec<usize> = (0..n).collect();
            rng.shuffle(&mut pos);
            vars[pos[0]] = Var::X;
            vars[pos[1]] = Var::Y;
            vars[pos[2]] = Var::Z;
        }
        let built = build(rng, &sys, &vars);
        let params = fresh_params(&sys, &vars);

        let mut rep = Reporter { case, seen: vec![] };
        // same parameter map for both backends: same gradient-slot layout
        let o_vm = run_backend::<VmFunction>("vm", &sys, &built, &vars, &params);
        let x_vm = judge(&mut rep, "vm", &sys, &o_vm, st);
        let o_jit = run_backend::<JitFunction>("jit", &sys, &built, &vars, &params);
        let x_jit = judge(&mut rep, "jit", &sys, &o_jit, st);
        // a third run with a re-hashed parameter map (another slot layout)
        let params2 = fresh_params(&sys, &vars);
        let x_re = if rng.chance(0.5) {
            let o = run_backend::<VmFunction>("vm-rehashed", &sys, &built, &vars, &params2);
            judge(&mut rep, "vm-rehashed", &sys, &o, st)
        } else {
            let o = run_backend::<JitFunction>("jit-rehashed", &sys, &built, &vars, &params2);
            judge(&mut rep, "jit-rehashed", &sys, &o, st)
        };
        let _ = x_re;

        // cross-backend agreement
        if let (Some(a), Some(b)) = (&x_vm, &x_jit) {
            if f > 0 {
                st.inc("backend_comparisons");
                let mut worst: Option<(usize, f64)> = None;
                let mut identical = true;
                // (idle free parameters are not determined by the system:
                // not compared)
                for i in 0..sys.n_core {
                    if sys.fixed[i] {
                        continue;
                    }
                    identical &= same_bits(a[i], b[i]);
                    let d = (a[i] as f64 - b[i] as f64).abs();
                    let t = TOL * (1.0 + (a[i] as f64).abs().max((b[i] as f64).abs()));
                    st.max("backend_diff_over_tolerance", d / t);
                    if !(d <= t) && worst.map(|w| d > w.1).unwrap_or(true) {
                        worst = Some((i, d));
                    }
                }
                if identical {
                    st.inc("backend_solutions_bit_identical");
                }
                if let Some((i, d)) = worst {
                    rep.violation(
                        st,
                        "backend_disagreement".to_string(),
                        format!(
                            "VM and JIT solutions differ beyond tolerance: x{i} = {:?} (vm) vs {:?} (jit), |diff| = {d:e}",
                            a[i], b[i]
                        ),
                        json!({"var": i, "vm": fbits(a[i]), "jit": fbits(b[i]),
                               "vm_solution": a.iter().map(|v| format!("{v:?}")).collect::<Vec<_>>(),
                               "jit_solution": b.iter().map(|v| format!("{v:?}")).collect::<Vec<_>>(),
                               "system": sys.to_json()}),
                    );
                }
            }
        }

        if n <= 5 && m <= 5 {
            st.sample(|| {
                json!({"system": sys.to_json(),
                       "vm": x_vm.as_ref().map(|x| x.iter().map(|v| format!("{v:?}")).collect::<Vec<_>>()),
                       "jit": x_jit.as_ref().map(|x| x.iter().map(|v| format!("{v:?}")).collect::<Vec<_>>())})
            });
        }
    }
    fn finish(&self, st: &mut Stats, _tier: Tier) {
        let floor = |st: &mut Stats, k: &str, min: u64| {
            if st.get(k) < min {
                let got = st.get(k);
                st.inconclusive
                    .push(format!("coverage floor missed: {k} = {got} < {min}"));
            }
        };
        floor(st, "systems_all_fixed", 10);
        floor(st, "systems_all_free", 40);
        floor(st, "systems_mixed", 100);
        floor(st, "systems_overdetermined", 50);
        floor(st, "keyset_checks", 300);
        floor(st, "residual_checks", 600);
        floor(st, "residual_checks_free_mod3_0", 60);
        floor(st, "residual_checks_free_mod3_1", 60);
        floor(st, "residual_checks_free_mod3_2", 60);
        floor(st, "residual_checks_n_mod3_1", 60);
        floor(st, "residual_checks_n_mod3_2", 60);
        floor(st, "residual_checks_with_fixed", 100);
        floor(st, "exact_start_runs_checked", 60);
        floor(st, "backend_comparisons", 200);
        floor(st, "equations_over_proper_subset", 1000);
        if st.set_len("n_values") < MAX_N {
            st.inconclusive.push(format!(
                "only {} of {MAX_N} values of n were run",
                st.set_len("n_values")
            ));
        }
        if st.set_len("free_counts_judged") < 30 {
            st.inconclusive.push(format!(
                "only {} distinct numbers of free parameters judged for accuracy",
                st.set_len("free_counts_judged")
            ));
        }
    }
    fn rule(&self) -> String {
        "each case = one planted consistent linear system: n = case%40+1 unknowns, fixed/free layout stratified (none fixed, all fixed, one free, one fixed, random subset), m >= #free equations (square or +1..3 extra; 0..3 when nothing is free) each over its own random subset of the variables (density 0..1, terms shuffled), 30% with some equations multiplied by a factor in [1,6], free sub-matrix accepted only with f64 SVD cond <= 100 and sigma_min >= 0.25 (otherwise its non-pivot entries are weakened and it is re-checked), b = A x* rounded to f32; 25% exact-start systems (dyadic coefficients/values, start = planted); expressions built as Tree or Context sums (4 shapes, shared or per-equation context, optional Var::X/Y/Z); solve() run with VmFunction and JitFunction on the same parameter map and once more on a re-hashed map; judged: key set == free set, |Ax-b|_inf <= 1e-3(1+|b|_inf) in f64 with fixed values substituted, |x_vm-x_jit| <= 1e-3(1+|x|), exact-start results bit-identical to start, no panic/Err/hang (child processes, 90 s SIGALRM per solve); distinct = hash of the coefficient table, values and starts".into()
    }
    fn assumptions(&self) -> Vec<String> {
        vec![
            "the solver derives its gradient-slot layout from the iteration order of the caller's std HashMap (per-instance RandomState) and Var::new() is random, so the slot assignment of a replayed case is not reproducible; the generator's system (coefficients, values, layout) is".into(),
            "accuracy is judged only for well-conditioned systems (cond <= 100, sigma_min >= 0.25) as stated; the sigma_min bound only fixes the scale so that the absolute part of the cross-backend tolerance is meaningful".into(),
            "x86-64 JIT only".into(),
        ]
    }
}
