//! C15 - serialized bytecode, read per its documented format, computes the
//! tape.
//!
//! Oracle: `bytecode_vm` below, an interpreter for the `u32` word stream
//! written only from the module documentation of `fidget-bytecode` (two words
//! per operation; byte 0 = opcode, looked up BY NAME through the public
//! `iter_ops()` table; byte 1 = output register; bytes 2,3 = input registers;
//! `0xFF` in an input byte = "the second word is the f32 immediate"; `Mem` uses
//! the `0xFF` flag for the direction; marker words `FFFFFFFF 00000000` /
//! `FFFFFFFF FFFFFFFF`), with the opcode meanings of `refmodel::op`. Its
//! outputs are compared bit-for-bit (NaN ~ NaN) with `VmPointEval<N>` running
//! on the very same `VmData<N>`.
use crate::gen_::prog::{self, GenCfg, Inputs, Prog};
use crate::props::evalutil::{self, Taint};
use crate::refmodel::{graph, tape_shadow};
use crate::util::{Rng, Stats, Tier, fbits, guarded, same_bits};
use crate::{Mode, Prop};
use fidget_bytecode::Bytecode;
use fidget_core::compiler::RegOp;
use fidget_core::eval::TracingEvaluator;
use fidget_core::vm::{GenericVmFunction, VmData, VmPointEval, VmWorkspace};
use serde_json::{Value, json};
use std::collections::BTreeMap;
use std::sync::OnceLock;

pub struct C15;

////////////////////////////////////////////////////////////////////////////////
// The independent interpreter (documentation only; knows nothing of RegOp)

mod bytecode_vm {
    use crate::gen_::prog::{Bin, Un};
    use crate::refmodel::op;

    pub const START: [u32; 2] = [0xFFFF_FFFF, 0x0000_0000];
    pub const END: [u32; 2] = [0xFFFF_FFFF, 0xFFFF_FFFF];
    /// "An input register byte of 0xFF indicates that the second word should
    /// be used as an immediate value"
    pub const IMM: u8 = 0xFF;

    #[derive(Clone, Copy, Debug, PartialEq, Eq)]
    pub enum Kind {
        Output,
        Input,
        Copy,
        Un(Un),
        Bin(Bin),
        Mem,
    }

    /// Meaning of an opcode *name* (CamelCase, as exported by `iter_ops`)
    pub fn kind_of_name(name: &str) -> Option<Kind> {
        Some(match name {
            "Output" => Kind::Output,
            "Input" => Kind::Input,
            "Copy" => Kind::Copy,
            "Mem" => Kind::Mem,
            "Neg" => Kind::Un(Un::Neg),
            "Abs" => Kind::Un(Un::Abs),
            "Recip" => Kind::Un(Un::Recip),
            "Sqrt" => Kind::Un(Un::Sqrt),
            "Square" => Kind::Un(Un::Square),
            "Floor" => Kind::Un(Un::Floor),
            "Ceil" => Kind::Un(Un::Ceil),
            "Round" => Kind::Un(Un::Round),
            "Not" => Kind::Un(Un::Not),
            "Rand" => Kind::Un(Un::Rand),
            "Sin" => Kind::Un(Un::Sin),
            "Cos" => Kind::Un(Un::Cos),
            "Tan" => Kind::Un(Un::Tan),
            "Asin" => Kind::Un(Un::Asin),
            "Acos" => Kind::Un(Un::Acos),
            "Atan" => Kind::Un(Un::Atan),
            "Exp" => Kind::Un(Un::Exp),
            "Ln" => Kind::Un(Un::Ln),
            "Add" => Kind::Bin(Bin::Add),
            "Sub" => Kind::Bin(Bin::Sub),
            "Mul" => Kind::Bin(Bin::Mul),
            "Div" => Kind::Bin(Bin::Div),
            "Atan2" => Kind::Bin(Bin::Atan2),
            "Compare" => Kind::Bin(Bin::Compare),
            "Mix" => Kind::Bin(Bin::Mix),
            "Mod" => Kind::Bin(Bin::Mod),
            "Min" => Kind::Bin(Bin::Min),
            "Max" => Kind::Bin(Bin::Max),
            "And" => Kind::Bin(Bin::And),
            "Or" => Kind::Bin(Bin::Or),
            _ => return None,
        })
    }

    /// Opcode table built from `(name, value)` pairs
    pub struct OpTable {
        /// indexed by opcode byte
        pub by_code: Vec<Option<(String, Kind)>>,
        /// names the interpreter has no meaning for (harness gap, not a fault)
        pub unknown_names: Vec<String>,
        /// defects of the table itself (ambiguous / reserved values)
        pub problems: Vec<String>,
    }

    pub fn table<'a>(it: impl Iterator<Item = (&'a str, u8)>) -> OpTable {
        let mut t = OpTable {
            by_code: vec![None; 256],
            unknown_names: vec![],
            problems: vec![],
        };
        let mut names: Vec<String> = vec![];
        for (name, code) in it {
            if names.iter().any(|n| n == name) {
                t.problems.push(format!("name {name} listed twice"));
            }
            names.push(name.to_string());
            if code == 0xFF {
                t.problems
                    .push(format!("{name} has the marker opcode 0xFF"));
            }
            let Some(k) = kind_of_name(name) else {
                t.unknown_names.push(name.to_string());
                continue;
            };
            if let Some((other, _)) = &t.by_code[code as usize] {
                t.problems
                    .push(format!("value {code} names both {other} and {name}"));
            }
            t.by_code[code as usize] = Some((name.to_string(), k));
        }
        t
    }

    #[derive(Clone, Copy, Debug, PartialEq)]
    pub enum Src {
        Reg(u8),
        Imm(f32),
    }

    #[derive(Clone, Copy, Debug, PartialEq)]
    pub enum Instr {
        Input { out: u8, slot: u32 },
        Output { src: u8, slot: u32 },
        Copy { out: u8, a: Src },
        Un { op: Un, out: u8, a: Src },
        Bin { op: Bin, out: u8, a: Src, b: Src },
        Load { out: u8, slot: u32 },
        Store { src: u8, slot: u32 },
    }

    #[derive(Clone, Debug)]
    pub struct Problem {
        /// narrow, input-independent class
        pub class: String,
        pub text: String,
    }

    fn problem<T>(class: impl Into<String>, text: String) -> Result<T, Problem> {
        Err(Problem {
            class: class.into(),
            text,
        })
    }

    /// What the consumer of a bytecode object is told about it
    #[derive(Clone, Copy, Debug)]
    pub struct Advertised {
        pub reg_count: u8,
        pub mem_count: u32,
        pub n_inputs: usize,
        pub n_outputs: usize,
        /// number of tape operations
        pub n_ops: usize,
    }

    pub struct Decoded {
        /// opcode byte and decoded instruction, in stream order
        pub instrs: Vec<(u8, Instr)>,
    }

    /// Reads the word stream front to back exactly as a consumer would and
    /// checks everything the documentation promises about its structure.
    pub fn decode(
        words: &[u32],
        t: &OpTable,
        adv: &Advertised,
    ) -> Result<Decoded, Problem> {
        if words.len() % 2 != 0 {
            return problem(
                "length:odd",
                format!("{} words: not a list of word pairs", words.len()),
            );
        }
        if words.len() < 4 {
            return problem(
                "length:short",
                format!("{} words: no room for both markers", words.len()),
            );
        }
        if words[0..2] != START {
            return problem(
                "marker:start",
                format!(
                    "first two words are {:08x} {:08x}, documented FFFFFFFF 00000000",
                    words[0], words[1]
                ),
            );
        }
        if words[words.len() - 2..] != END {
            return problem(
                "marker:end",
                format!(
                    "last two words are {:08x} {:08x}, documented FFFFFFFF FFFFFFFF",
                    words[words.len() - 2],
                    words[words.len() - 1]
                ),
            );
        }
        let reg = |name: &str, what: &str, r: u8, pc: usize| -> Result<u8, Problem> {
            if r == IMM {
                problem(
                    format!("reserved_register:{name}:{what}"),
                    format!("op {pc} ({name}): {what} register byte is 0xFF, the reserved register"),
                )
            } else if r >= adv.reg_count {
                problem(
                    format!("reg_oob:{name}:{what}"),
                    format!(
                        "op {pc} ({name}): {what} register {r} >= reg_count() = {}",
                        adv.reg_count
                    ),
                )
            } else {
                Ok(r)
            }
        };
        let mut instrs = vec![];
        let mut pos = 2;
        let mut ended = false;
        while pos + 1 < words.len() {
            let (w0, w1) = (words[pos], words[pos + 1]);
            let pc = pos / 2 - 1;
            if [w0, w1] == END {
                ended = true;
                pos += 2;
                break;
            }
            let [code, b1, b2, b3] = w0.to_le_bytes();
            let Some((name, kind)) = &t.by_code[code as usize] else {
                return problem(
                    "opcode:unknown",
                    format!("op {pc}: opcode byte {code} ({w0:08x} {w1:08x}) is not in iter_ops()"),
                );
            };
            let src = |what: &str, r: u8| -> Result<Src, Problem> {
                if r == IMM {
                    Ok(Src::Imm(f32::from_bits(w1)))
                } else {
                    reg(name, what, r, pc).map(Src::Reg)
                }
            };
            let ins = match *kind {
                Kind::Input => {
                    if w1 as usize >= adv.n_inputs {
                        return problem(
                            "input_slot_oob",
                            format!("op {pc}: input slot {w1} >= {} inputs", adv.n_inputs),
                        );
                    }
                    Instr::Input {
                        out: reg(name, "output", b1, pc)?,
                        slot: w1,
                    }
                }
                Kind::Output => {
                    if w1 as usize >= adv.n_outputs {
                        return problem(
                            "output_slot_oob",
                            format!("op {pc}: output slot {w1} >= {} outputs", adv.n_outputs),
                        );
                    }
                    Instr::Output {
                        src: reg(name, "source", b1, pc)?,
                        slot: w1,
                    }
                }
                Kind::Copy => Instr::Copy {
                    out: reg(name, "output", b1, pc)?,
                    a: src("input", b2)?,
                },
                Kind::Un(op) => Instr::Un {
                    op,
                    out: reg(name, "output", b1, pc)?,
                    a: src("input", b2)?,
                },
                Kind::Bin(op) => Instr::Bin {
                    op,
                    out: reg(name, "output", b1, pc)?,
                    a: src("first input", b2)?,
                    b: src("second input", b3)?,
                },
                Kind::Mem => {
                    // the immediate flag says whether memory is read or
                    // written; the second word is the memory slot
                    let i = match (b1 == IMM, b2 == IMM) {
                        (false, true) => Instr::Load {
                            out: reg(name, "output", b1, pc)?,
                            slot: w1,
                        },
                        (true, false) => Instr::Store {
                            src: reg(name, "input", b2, pc)?,
                            slot: w1,
                        },
                        (o, i) => {
                            return problem(
                                "mem:direction",
                                format!(
                                    "op {pc}: Mem with output flag {o} and input flag {i} ({w0:08x}): direction undecidable"
                                ),
                            );
                        }
                    };
                    if w1 >= adv.mem_count {
                        return problem(
                            "mem_slot_oob",
                            format!(
                                "op {pc}: memory slot {w1} >= mem_count() = {}",
                                adv.mem_count
                            ),
                        );
                    }
                    i
                }
            };
            instrs.push((code, ins));
            pos += 2;
        }
        if !ended {
            return problem(
                "marker:end",
                "ran off the end of the stream without meeting the end marker".into(),
            );
        }
        if pos != words.len() {
            return problem(
                "marker:trailing_words",
                format!(
                    "end marker met at word {} but the stream has {} words",
                    pos - 2,
                    words.len()
                ),
            );
        }
        if words.len() != 2 * (adv.n_ops + 2) {
            return problem(
                "length:ops",
                format!(
                    "{} words for a tape of {} operations (documented: two words per operation plus two markers = {})",
                    words.len(),
                    adv.n_ops,
                    2 * (adv.n_ops + 2)
                ),
            );
        }
        Ok(Decoded { instrs })
    }

    pub struct Exec {
        /// value and "NaN bit pattern was hashed on the way" flag per output
        pub outputs: Vec<Option<(f32, bool)>>,
        pub problem: Option<Problem>,
    }

    /// Runs a decoded stream. Registers and memory start undefined; reading an
    /// undefined location is reported.
    pub fn exec(d: &Decoded, inputs: &[f32], adv: &Advertised) -> Exec {
        let mut regs: Vec<Option<(f32, bool)>> = vec![None; adv.reg_count as usize];
        let mut mem: Vec<Option<(f32, bool)>> = vec![None; adv.mem_count as usize];
        let mut out = Exec {
            outputs: vec![None; adv.n_outputs],
            problem: None,
        };
        for (pc, (_code, ins)) in d.instrs.iter().enumerate() {
            macro_rules! rd {
                ($r:expr) => {
                    match regs[$r as usize] {
                        Some(v) => v,
                        None => {
                            out.problem = Some(Problem {
                                class: "uninit_read:register".into(),
                                text: format!(
                                    "op {pc} ({ins:?}) reads register {} which no earlier operation wrote",
                                    $r
                                ),
                            });
                            return out;
                        }
                    }
                };
            }
            macro_rules! val {
                ($s:expr) => {
                    match $s {
                        Src::Reg(r) => rd!(r),
                        Src::Imm(i) => (i, false),
                    }
                };
            }
            match *ins {
                Instr::Input { out: o, slot } => {
                    regs[o as usize] = Some((inputs[slot as usize], false))
                }
                Instr::Output { src, slot } => {
                    out.outputs[slot as usize] = Some(rd!(src));
                }
                Instr::Copy { out: o, a } => regs[o as usize] = Some(val!(a)),
                Instr::Un { op: o, out: dst, a } => {
                    let (v, t) = val!(a);
                    let hashed = o == Un::Rand && v.is_nan();
                    regs[dst as usize] = Some((op::un(o, v), t || hashed));
                }
                Instr::Bin {
                    op: o,
                    out: dst,
                    a,
                    b,
                } => {
                    let (va, ta) = val!(a);
                    let (vb, tb) = val!(b);
                    let hashed = o == Bin::Mix && (va.is_nan() || vb.is_nan());
                    regs[dst as usize] = Some((op::bin(o, va, vb), ta || tb || hashed));
                }
                Instr::Load { out: o, slot } => match mem[slot as usize] {
                    Some(v) => regs[o as usize] = Some(v),
                    None => {
                        out.problem = Some(Problem {
                            class: "uninit_read:memory".into(),
                            text: format!(
                                "op {pc} loads memory slot {slot} which no earlier operation stored"
                            ),
                        });
                        return out;
                    }
                },
                Instr::Store { src, slot } => mem[slot as usize] = Some(rd!(src)),
            }
        }
        if let Some(i) = out.outputs.iter().position(|o| o.is_none()) {
            out.problem = Some(Problem {
                class: "output_missing".into(),
                text: format!("output slot {i} is never written"),
            });
        }
        out
    }
}

use bytecode_vm::{Advertised, Decoded, Instr, OpTable, Src};

fn op_table() -> &'static OpTable {
    static T: OnceLock<OpTable> = OnceLock::new();
    T.get_or_init(|| bytecode_vm::table(fidget_bytecode::iter_ops()))
}

////////////////////////////////////////////////////////////////////////////////
// Coverage bookkeeping and localisation (these look at RegOp; never decide)

fn src_form(s: &Src) -> &'static str {
    match s {
        Src::Reg(_) => "reg",
        Src::Imm(_) => "imm",
    }
}

fn form_of(i: &Instr) -> String {
    match i {
        Instr::Input { .. } | Instr::Output { .. } => "slot".into(),
        Instr::Copy { a, .. } | Instr::Un { a, .. } => src_form(a).into(),
        Instr::Bin { a, b, .. } => format!("{},{}", src_form(a), src_form(b)),
        Instr::Load { .. } => "load".into(),
        Instr::Store { .. } => "store".into(),
    }
}

/// Operand forms that compilation (fresh or simplified) is able to emit; the
/// list mirrors the public `RegOp` variants (min/max/and/or/add/mul have no
/// immediate-first variant).
fn expected_forms() -> Vec<String> {
    let mut v: Vec<String> = vec![
        "Input:slot".into(),
        "Output:slot".into(),
        "Copy:imm".into(),
        "Copy:reg".into(),
        "Mem:load".into(),
        "Mem:store".into(),
    ];
    for n in [
        "Neg", "Abs", "Recip", "Sqrt", "Square", "Floor", "Ceil", "Round", "Not",
        "Rand", "Sin", "Cos", "Tan", "Asin", "Acos", "Atan", "Exp", "Ln",
    ] {
        v.push(format!("{n}:reg"));
    }
    for n in ["Add", "Mul", "Min", "Max", "And", "Or"] {
        v.push(format!("{n}:reg,reg"));
        v.push(format!("{n}:reg,imm"));
    }
    for n in ["Sub", "Div", "Atan2", "Compare", "Mix", "Mod"] {
        v.push(format!("{n}:reg,reg"));
        v.push(format!("{n}:reg,imm"));
        v.push(format!("{n}:imm,reg"));
    }
    v
}

struct Lockstep {
    /// first place where the word stream does not say what the tape says
    first_diff: Option<(String, String)>,
    /// register renumbering observed (tape register -> bytecode register)
    nonidentity: bool,
    regs_used: usize,
}

/// Compares the decoded stream with the tape it was made from, modulo a
/// register bijection and the memory rebasing. Only used to name the culprit
/// of an output mismatch and to measure that renumbering really happens.
fn lockstep(ops: &[RegOp], d: &Decoded, n: usize) -> Lockstep {
    use tape_shadow::{D, Src as TS};
    let mut fwd: [Option<u8>; 256] = [None; 256];
    let mut bwd: [Option<u8>; 256] = [None; 256];
    let mut first_diff: Option<(String, String)> = None;
    let note = |op: &RegOp, what: &str, first_diff: &mut Option<(String, String)>| {
        if first_diff.is_none() {
            *first_diff = Some((tape_shadow::variant_name(op), what.to_string()));
        }
    };
    if ops.len() != d.instrs.len() {
        first_diff = Some(("tape".into(), "length".into()));
    }
    for (op, (_c, ins)) in ops.iter().zip(d.instrs.iter()) {
        let mut map = |r: u8, q: u8| -> bool {
            let ok = fwd[r as usize].is_none_or(|x| x == q)
                && bwd[q as usize].is_none_or(|x| x == r);
            fwd[r as usize] = Some(q);
            bwd[q as usize] = Some(r);
            ok
        };
        let mut src = |a: TS, b: Src| -> Option<&'static str> {
            match (a, b) {
                (TS::Reg(r), Src::Reg(q)) => (!map(r, q)).then_some("regmap"),
                (TS::Imm(x), Src::Imm(y)) => {
                    (x.to_bits() != y.to_bits()).then_some("imm")
                }
                _ => Some("operands"),
            }
        };
        let diff: Option<&'static str> = match (tape_shadow::decode(*op), *ins) {
            (D::Output { reg, idx }, Instr::Output { src: s, slot }) => {
                if idx != slot {
                    Some("slot")
                } else {
                    src(TS::Reg(reg), Src::Reg(s))
                }
            }
            (D::Input { out, idx }, Instr::Input { out: o, slot }) => {
                if idx != slot {
                    Some("slot")
                } else {
                    src(TS::Reg(out), Src::Reg(o))
                }
            }
            (D::Load { reg, mem }, Instr::Load { out, slot }) => {
                if mem as u64 != slot as u64 + n as u64 {
                    Some("slot")
                } else {
                    src(TS::Reg(reg), Src::Reg(out))
                }
            }
            (D::Store { reg, mem }, Instr::Store { src: s, slot }) => {
                if mem as u64 != slot as u64 + n as u64 {
                    Some("slot")
                } else {
                    src(TS::Reg(reg), Src::Reg(s))
                }
            }
            (D::Load { .. }, Instr::Store { .. })
            | (D::Store { .. }, Instr::Load { .. }) => Some("direction"),
            (D::CopyReg { out, src: s }, Instr::Copy { out: o, a }) => {
                src(TS::Reg(out), Src::Reg(o)).or(src(TS::Reg(s), a))
            }
            (D::CopyImm { out, imm }, Instr::Copy { out: o, a }) => {
                src(TS::Reg(out), Src::Reg(o)).or(src(TS::Imm(imm), a))
            }
            (D::Un { op: u, out, a }, Instr::Un { op: v, out: o, a: b }) => {
                if u != v {
                    Some("opcode")
                } else {
                    src(TS::Reg(out), Src::Reg(o)).or(src(TS::Reg(a), b))
                }
            }
            (
                D::Bin { op: u, out, a, b },
                Instr::Bin {
                    op: v,
                    out: o,
                    a: a2,
                    b: b2,
                },
            ) => {
                if u != v {
                    Some("opcode")
                } else {
                    src(TS::Reg(out), Src::Reg(o))
                        .or(src(a, a2))
                        .or(src(b, b2))
                }
            }
            _ => Some("opcode"),
        };
        if let Some(w) = diff {
            note(op, w, &mut first_diff);
        }
    }
    let nonidentity = fwd
        .iter()
        .enumerate()
        .any(|(r, q)| q.is_some_and(|q| q as usize != r));
    Lockstep {
        first_diff,
        nonidentity,
        regs_used: bwd.iter().filter(|x| x.is_some()).count(),
    }
}

fn dump_words(words: &[u32]) -> Vec<String> {
    let mut v: Vec<String> = words
        .chunks(2)
        .take(260)
        .map(|c| {
            let b = c[0].to_le_bytes();
            format!(
                "{:02x} {:02x} {:02x} {:02x} | {:08x}",
                b[0],
                b[1],
                b[2],
                b[3],
                c.get(1).copied().unwrap_or(0)
            )
        })
        .collect();
    if words.len() > 520 {
        v.push(format!("... ({} words in total)", words.len()));
    }
    v
}

fn dump_ops(ops: &[RegOp]) -> Vec<String> {
    let mut v: Vec<String> = ops.iter().take(260).map(|o| format!("{o:?}")).collect();
    if ops.len() > 260 {
        v.push(format!("... ({} operations in total)", ops.len()));
    }
    v
}

////////////////////////////////////////////////////////////////////////////////

struct Ctx<'a> {
    case: u64,
    p: &'a Prog,
    b: &'a prog::Built,
    /// inputs by program variable slot
    inputs: &'a [Vec<f32>],
}

/// Judges the bytecode of one `VmData`. `skip` = per input, per output "not a
/// value" flags from the graph analysis (fresh tapes); `None` = rely on the
/// interpreter's own NaN-into-hash tracking (simplified tapes, whose values
/// are not the graph's outside the traced region).
fn check_data<const N: usize>(
    cx: &Ctx,
    f: &GenericVmFunction<N>,
    origin: &'static str,
    skip: Option<&[Vec<bool>]>,
    st: &mut Stats,
) {
    let data: &VmData<N> = f.data();
    let ops: Vec<RegOp> = data.iter_asm().collect();
    let base = |extra: Value| -> Value {
        let mut v = json!({
            "budget": N, "tape_origin": origin,
            "program": cx.p.to_json(),
            "tape": dump_ops(&ops),
        });
        if let (Some(m), Some(e)) = (v.as_object_mut(), extra.as_object()) {
            for (k, x) in e {
                m.insert(k.clone(), x.clone());
            }
        }
        v
    };
    let bc = match guarded(|| Bytecode::new(data)) {
        Ok(Ok(bc)) => bc,
        Ok(Err(e)) => {
            // at most N <= 255 registers (0..=254) are active, so a dense
            // renumbering can never reach the reserved register
            st.violation(
                cx.case,
                "emit:reserved_register_error",
                format!("Bytecode::new refused a tape planned for {N} registers: {e}"),
                base(json!({})),
            );
            return;
        }
        Err(pi) => {
            st.violation(
                cx.case,
                format!("emit_panic:{}:{}", pi.site(), pi.msg_class()),
                format!("Bytecode::new panicked (budget {N}): {}", pi.msg),
                base(json!({"panic_site": pi.site(), "message": pi.msg})),
            );
            return;
        }
    };
    st.inc("bytecodes");
    st.inc(&format!("bytecodes_{origin}"));
    st.inc(&format!("budget_{N}"));
    let words = bc.data();
    let adv = Advertised {
        reg_count: bc.reg_count(),
        mem_count: bc.mem_count(),
        n_inputs: data.vars.len(),
        n_outputs: data.output_count(),
        n_ops: data.len(),
    };
    let advj = json!({"reg_count": adv.reg_count, "mem_count": adv.mem_count,
        "inputs": adv.n_inputs, "outputs": adv.n_outputs, "tape_ops": adv.n_ops});
    // the byte view is the same list of little-endian words
    let bytes_ok = bc.len() == words.len()
        && bc.as_bytes().len() == 4 * words.len()
        && bc
            .as_bytes()
            .chunks(4)
            .zip(words.iter())
            .all(|(c, w)| c == w.to_le_bytes());
    if !bytes_ok {
        st.violation(
            cx.case,
            "structure:byte_view",
            "as_bytes()/len() do not describe the little-endian words of data()",
            base(json!({"advertised": advj, "bytecode": dump_words(words)})),
        );
        return;
    }
    let table = op_table();
    let d = match bytecode_vm::decode(words, table, &adv) {
        Ok(d) => d,
        Err(pr) => {
            st.violation(
                cx.case,
                format!("structure:{}", pr.class),
                format!("bytecode (budget {N}, {origin} tape) breaks the documented format: {}", pr.text),
                base(json!({"advertised": advj, "bytecode": dump_words(words)})),
            );
            return;
        }
    };

    // coverage of the emitted stream
    let mut by_code = [0u64; 256];
    let mut forms: BTreeMap<(u8, String), u64> = BTreeMap::new();
    let (mut loads, mut stores, mut max_reg, mut max_mem) = (0u64, 0u64, 0u64, 0u64);
    for (code, ins) in &d.instrs {
        by_code[*code as usize] += 1;
        *forms.entry((*code, form_of(ins))).or_default() += 1;
        match ins {
            Instr::Load { slot, .. } => {
                loads += 1;
                max_mem = max_mem.max(*slot as u64 + 1);
            }
            Instr::Store { slot, .. } => {
                stores += 1;
                max_mem = max_mem.max(*slot as u64 + 1);
            }
            _ => (),
        }
        let mut seen = |r: u8| max_reg = max_reg.max(r as u64 + 1);
        let seen_src = |s: &Src, seen: &mut dyn FnMut(u8)| {
            if let Src::Reg(r) = s {
                seen(*r)
            }
        };
        match ins {
            Instr::Input { out, .. } | Instr::Load { out, .. } => seen(*out),
            Instr::Output { src, .. } | Instr::Store { src, .. } => seen(*src),
            Instr::Copy { out, a } | Instr::Un { out, a, .. } => {
                seen(*out);
                seen_src(a, &mut seen);
            }
            Instr::Bin { out, a, b, .. } => {
                seen(*out);
                seen_src(a, &mut seen);
                seen_src(b, &mut seen);
            }
        }
    }
    for (code, n) in by_code.iter().enumerate() {
        if *n > 0 {
            let name = &table.by_code[code].as_ref().unwrap().0;
            st.add(&format!("bc_{name}"), *n);
        }
    }
    for ((code, form), n) in &forms {
        let name = &table.by_code[*code as usize].as_ref().unwrap().0;
        st.add(&format!("form_{name}:{form}"), *n);
    }
    st.add("instructions", d.instrs.len() as u64);
    st.max("instructions_in_one_bytecode", d.instrs.len() as f64);
    st.max("reg_count", adv.reg_count as f64);
    if adv.reg_count == 255 {
        st.inc("bytecodes_using_all_255_registers");
    }
    st.max("mem_count", adv.mem_count as f64);
    if loads + stores > 0 {
        st.inc("bytecodes_with_memory_traffic");
        st.inc(&format!("bytecodes_with_memory_traffic_N{N}"));
        st.add("mem_loads", loads);
        st.add("mem_stores", stores);
    }
    if adv.n_outputs > 1 {
        st.inc("bytecodes_multi_output");
    }
    if max_reg == adv.reg_count as u64 {
        st.inc("reg_count_tight");
    }
    if max_mem == adv.mem_count as u64 {
        st.inc("mem_count_tight");
    }
    let ls = lockstep(&ops, &d, N);
    if ls.nonidentity {
        st.inc("bytecodes_with_renumbered_registers");
    }
    if ls.regs_used >= 3 {
        st.inc("bytecodes_with_3plus_registers");
    }

    // execution
    let Some(slot_of) = evalutil::slot_map(&data.vars, &cx.b.vars) else {
        st.inc("varmap_unusable");
        return;
    };
    let tape = f.tape();
    let mut pe = VmPointEval::<N>::new();
    for (i, vals) in cx.inputs.iter().enumerate() {
        let input: Vec<f32> = slot_of.iter().map(|&s| vals[s]).collect();
        let want: Vec<f32> = match guarded(|| pe.eval(&tape, &input).map(|(o, _)| o.to_vec())) {
            Ok(Ok(o)) if o.len() == adv.n_outputs => o,
            _ => {
                // the interpreter itself failed: nothing to compare with
                st.inc("vm_eval_failed");
                return;
            }
        };
        let ex = bytecode_vm::exec(&d, &input, &adv);
        if let Some(pr) = &ex.problem {
            st.violation(
                cx.case,
                format!("structure:{}", pr.class),
                format!("bytecode (budget {N}, {origin} tape) cannot be executed as documented: {}", pr.text),
                base(json!({"advertised": advj, "bytecode": dump_words(words)})),
            );
            return;
        }
        for o in 0..adv.n_outputs {
            let (got, hashed_nan) = ex.outputs[o].unwrap();
            let skipped = match skip {
                Some(s) => {
                    if s[i][o] != hashed_nan {
                        st.inc("taint_graph_vs_stream_disagree");
                    }
                    s[i][o]
                }
                None => hashed_nan,
            };
            if skipped {
                st.inc("outputs_skipped_nan_into_rand_or_mix");
                continue;
            }
            st.inc("output_comparisons");
            st.inc(&format!("output_comparisons_{origin}"));
            if !same_bits(got, want[o]) {
                let (sig, diff) = match &ls.first_diff {
                    Some((v, w)) => (
                        format!("mismatch:{v}:{w}"),
                        json!({"tape_op": v, "differs_in": w}),
                    ),
                    None => ("mismatch:unlocalised".to_string(), json!(null)),
                };
                st.violation(
                    cx.case,
                    sig,
                    format!(
                        "bytecode (budget {N}, {origin} tape) read per its documentation gives output {o} = {got:?}, VmPointEval on the same tape gives {:?}",
                        want[o]
                    ),
                    base(json!({
                        "advertised": advj, "bytecode": dump_words(words),
                        "output": o, "bytecode_result": fbits(got), "interpreter_result": fbits(want[o]),
                        "inputs_by_function_index": input.iter().map(|v| fbits(*v)).collect::<Vec<_>>(),
                        "first_stream_vs_tape_difference": diff,
                    })),
                );
                return;
            }
        }
    }
}

fn check_budget<const N: usize>(
    cx: &Ctx,
    roots: &[fidget_core::context::Node],
    skip: &[Vec<bool>],
    trace_input: usize,
    st: &mut Stats,
) {
    let data = match guarded(|| VmData::<N>::new(&cx.b.ctx, roots)) {
        Ok(Ok(d)) => d,
        _ => {
            // tape construction is judged by C01
            st.inc("tape_construction_failed");
            return;
        }
    };
    let f = GenericVmFunction::<N>::from(data);
    check_data::<N>(cx, &f, "fresh", Some(skip), st);

    // A tape specialised with an evaluation trace is still "a tape": it is
    // the only source of register-to-register `Copy`.
    if f.choice_count() == 0 {
        return;
    }
    let Some(slot_of) = evalutil::slot_map(&f.data().vars, &cx.b.vars) else {
        return;
    };
    let input: Vec<f32> = slot_of
        .iter()
        .map(|&s| cx.inputs[trace_input][s])
        .collect();
    let tape = f.tape();
    let mut pe = VmPointEval::<N>::new();
    let trace = match guarded(|| pe.eval(&tape, &input).map(|(_, t)| t.cloned())) {
        Ok(Ok(Some(t))) => t,
        _ => return,
    };
    let simp = guarded(|| {
        f.simplify_with::<N>(&trace, VmData::<N>::default(), &mut VmWorkspace::<N>::default())
    });
    // ... and so is a tape simplified into storage recycled from an
    // unrelated function whose bytecode has been emitted before (the
    // previous case of this thread at the same budget)
    let spare = SPARE.with(|m| m.borrow_mut().remove(&N)).and_then(|b| b.downcast::<VmData<N>>().ok());
    let mut keep: Option<GenericVmFunction<N>> = None;
    if let Some(spare) = spare {
        st.inc("simplifications_into_recycled_storage");
        match guarded(|| f.simplify_with::<N>(&trace, *spare, &mut VmWorkspace::<N>::default())) {
            Ok(Ok(g)) => {
                check_data::<N>(cx, &g, "simplified_recycled", None, st);
                keep = Some(g);
            }
            Ok(Err(_)) => st.inc("simplification_failed"),
            Err(pi) => {
                st.inc("simplification_failed");
                st.set_insert("simplification_panic_sites", &format!("{}:{}", pi.site(), pi.msg_class()));
            }
        }
    }
    match simp {
        Ok(Ok(g)) => {
            if g.data().len() != f.data().len() {
                st.inc("simplified_tapes_shorter");
            }
            check_data::<N>(cx, &g, "simplified", None, st);
            if keep.is_none() || cx.case % 2 == 0 {
                keep = Some(g);
            }
        }
        // simplification is judged by C04
        Ok(Err(_)) => st.inc("simplification_failed"),
        Err(pi) => {
            st.inc("simplification_failed");
            st.inc(&format!("simplification_failed_with_{}_outputs", roots.len().min(2)));
            st.set_insert(
                "simplification_panic_sites",
                &format!("{}:{}", pi.site(), pi.msg_class()),
            );
        }
    }
    // hand the storage of a tape whose bytecode has been emitted to the next
    // case of this thread: alternately the full tape and a simplified one
    drop(tape);
    drop(pe);
    let donor = if cx.case % 3 == 0 { Some(f) } else { keep };
    if let Some(d) = donor.and_then(|d| d.recycle()) {
        SPARE.with(|m| m.borrow_mut().insert(N, Box::new(d)));
    }
}

thread_local! {
    /// budget -> storage (`VmData<N>`) recycled from an earlier case
    static SPARE: std::cell::RefCell<std::collections::HashMap<usize, Box<dyn std::any::Any>>> = std::cell::RefCell::new(Default::default());
}

impl Prop for C15 {
    fn id(&self) -> &'static str {
        "C15"
    }
    fn mode(&self) -> Mode {
        Mode::Threads
    }
    fn n_cases(&self, tier: Tier) -> u64 {
        tier.pick(250_000, 12_000_000)
    }
    fn time_cap_s(&self, tier: Tier) -> u64 {
        tier.pick(60, 720)
    }
    fn run_case(&self, case: u64, rng: &mut Rng, st: &mut Stats, tier: Tier) {
        let table = op_table();
        if !table.problems.is_empty() || !table.unknown_names.is_empty() {
            // reported once, in finish()
            st.inc("opcode_table_unusable");
            return;
        }
        let cfg = if rng.chance(0.003) {
            // very wide program: several hundred values live at once, so that
            // the 255-register budget is exhausted too (register bytes up to
            // 254 next to the reserved 255)
            let mut c = GenCfg::new(1300 + rng.below(500));
            c.topo = prog::Topo::Crossing;
            c.n_vars = 3 + rng.below(30);
            c.profile = *rng.pick(&[prog::Profile::Uniform, prog::Profile::Arith]);
            c.const_p = 0.15;
            c.n_outputs = 1 + rng.below(3);
            st.inc("wide_programs");
            c
        } else {
            GenCfg::random(rng, tier.pick(300, 400))
        };
        let p = prog::generate(rng, &cfg);
        let b = p.build();
        let roots = p.roots(&b);
        let n_inputs = 8;
        let inputs: Vec<Vec<f32>> = (0..n_inputs)
            .map(|i| {
                prog::gen_inputs(
                    rng,
                    p.n_vars,
                    if p.nodes.len() < 12 && i % 2 == 1 {
                        Inputs::Special
                    } else {
                        Inputs::Hostile
                    },
                )
            })
            .collect();
        let order = graph::topo(&b.ctx, &roots);
        let skip: Vec<Vec<bool>> = inputs
            .iter()
            .map(|vals| {
                let info = evalutil::analyse_with(&b, &order, vals, false);
                roots.iter().map(|r| info.taint[r] != Taint::Clean).collect()
            })
            .collect();
        st.distinct(p.hash());
        st.sample(|| json!({"program": p.to_json(), "input0": inputs[0].iter().map(|v| format!("{v:?}")).collect::<Vec<_>>()}));
        let trace_input = rng.below(n_inputs);
        let cx = Ctx {
            case,
            p: &p,
            b: &b,
            inputs: &inputs,
        };
        macro_rules! budgets {
            ($($n:literal),*) => {
                $( check_budget::<$n>(&cx, &roots, &skip, trace_input, st); )*
            };
        }
        budgets!(3, 4, 8, 16, 255);
    }
    fn finish(&self, st: &mut Stats, _tier: Tier) {
        let table = op_table();
        for pr in &table.problems {
            st.violation(
                0,
                "optable:ambiguous",
                format!("iter_ops() cannot be used as an opcode table: {pr}"),
                json!({"table": fidget_bytecode::iter_ops().map(|(n, c)| format!("{n}={c}")).collect::<Vec<_>>()}),
            );
        }
        for n in &table.unknown_names {
            st.inconclusive.push(format!(
                "opcode name {n} exported by iter_ops() is unknown to the harness interpreter"
            ));
        }
        // every opcode of the table must have been executed from real streams
        for (name, _) in fidget_bytecode::iter_ops() {
            let n = st.get(&format!("bc_{name}"));
            if n < 20 {
                st.inconclusive
                    .push(format!("opcode {name} emitted only {n} times (floor 20)"));
            }
        }
        let mut forms_seen = 0;
        for f in expected_forms() {
            let n = st.get(&format!("form_{f}"));
            if n >= 20 {
                forms_seen += 1;
            } else {
                st.inconclusive
                    .push(format!("operand form {f} emitted only {n} times (floor 20)"));
            }
        }
        st.add("operand_forms_covered", forms_seen);
        for (k, floor) in [
            ("bytecodes_with_memory_traffic", 500),
            ("bytecodes_with_renumbered_registers", 500),
            ("bytecodes_multi_output", 500),
            ("bytecodes_simplified", 200),
            ("output_comparisons", 100_000),
        ] {
            if st.get(k) < floor {
                st.inconclusive
                    .push(format!("{k} = {} (floor {floor})", st.get(k)));
            }
        }
        for n in [3, 4, 8, 16, 255] {
            if st.get(&format!("budget_{n}")) == 0 {
                st.inconclusive.push(format!("budget {n} never serialized"));
            }
        }
        for n in [3, 4, 8] {
            if st.get(&format!("bytecodes_with_memory_traffic_N{n}")) == 0 {
                st.inconclusive
                    .push(format!("budget {n} never produced memory traffic"));
            }
        }
        for k in ["tape_construction_failed", "vm_eval_failed", "varmap_unusable"] {
            if st.get(k) > 0 {
                st.inconclusive.push(format!(
                    "{k} = {} (not judged here; see C01)",
                    st.get(k)
                ));
            }
        }
    }
    fn rule(&self) -> String {
        "each case = one generated expression DAG (random profile/topology/size<=400, 3..40 variables, 1..8 outputs incl. constant/duplicate outputs) compiled with VmData::<N>::new for N in {3,4,8,16,255}, plus the same tape simplified with the trace of one evaluation; each VmData is serialized with Bytecode::new, the words are decoded and executed by an interpreter written from the format documentation (opcodes by name via iter_ops()) at 8 hostile inputs and compared bit-for-bit with VmPointEval<N> on the same VmData; distinct = structural hash of the program".into()
    }
    fn assumptions(&self) -> Vec<String> {
        vec![
            "the second word of Input/Output operations is the input/output slot (shown by the crate's examples; the module text only says 'second word is not always used')".into(),
            "opcode meanings are those documented for Context constructors / RegOp (refmodel::op), applied to the operands in the documented order: byte 2 = first (left) input, byte 3 = second (right) input".into(),
            "outputs reached by a NaN that was hashed by rand/mix are not values and are not compared".into(),
        ]
    }
}
