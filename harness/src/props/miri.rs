//! Miri stages (thorough tier): the tiny VM-only workloads of /verif/miri are
//! interpreted by Miri, which reports undefined behaviour (out-of-bounds
//! unchecked indexing, data races, aliasing violations) in the executions it
//! sees.  With `-Zmiri-many-seeds` every seed is a different preemption
//! schedule and the printed checksums must be identical for all of them.
//!
//! Verdicts: an "Undefined Behavior" report or a schedule-dependent checksum
//! is a violation; anything else that stops Miri (unsupported operation,
//! build failure, watchdog) is inconclusive.
use crate::util::Stats;
use crate::verif_dir;
use std::collections::{BTreeMap, BTreeSet};
use std::process::{Command, Stdio};

const FLAGS: &str = "-Zmiri-disable-isolation -Zmiri-tree-borrows -Zmiri-permissive-provenance -Zmiri-ignore-leaks -Zmiri-deterministic-floats";

pub fn run_miri_stage(st: &mut Stats, mode: &str, arg: u64, seeds: Option<(u64, u64)>, watchdog_s: u64) {
    if std::env::var("FV_NO_MIRI").is_ok() {
        st.inc("miri_stage_skipped_by_env");
        return;
    }
    let root = verif_dir();
    let manifest = format!("{root}/miri/Cargo.toml");
    if !std::path::Path::new(&manifest).exists() {
        st.inconclusive.push(format!("Miri stage: {manifest} not found"));
        return;
    }
    let mut flags = FLAGS.to_string();
    if let Some((a, b)) = seeds {
        flags.push_str(&format!(" -Zmiri-many-seeds={a}..{b}"));
    }
    let out = format!("{root}/miri/target/stage-{mode}-{}.out", std::process::id());
    let err = format!("{root}/miri/target/stage-{mode}-{}.err", std::process::id());
    let _ = std::fs::create_dir_all(format!("{root}/miri/target"));
    let t0 = std::time::Instant::now();
    let child = Command::new("cargo")
        .args(["+nightly", "miri", "run", "--offline", "--manifest-path", &manifest, "--", mode, &format!("{arg}")])
        .env("MIRIFLAGS", &flags)
        .env("CARGO_NET_OFFLINE", "true")
        .env("CARGO_TARGET_DIR", format!("{root}/miri/target"))
        .stdout(Stdio::from(std::fs::File::create(&out).unwrap()))
        .stderr(Stdio::from(std::fs::File::create(&err).unwrap()))
        .spawn();
    let Ok(mut child) = child else {
        st.inconclusive.push("Miri stage: could not start cargo miri".into());
        return;
    };
    let status = loop {
        match child.try_wait() {
            Ok(Some(s)) => break Some(s),
            Ok(None) => {
                if t0.elapsed().as_secs() > watchdog_s {
                    let _ = child.kill();
                    let _ = child.wait();
                    break None;
                }
                std::thread::sleep(std::time::Duration::from_millis(500));
            }
            Err(_) => break None,
        }
    };
    st.add(&format!("miri_{mode}_seconds"), t0.elapsed().as_secs());
    let stdout = std::fs::read_to_string(&out).unwrap_or_default();
    let stderr = std::fs::read_to_string(&err).unwrap_or_default();
    let _ = std::fs::remove_file(&out);
    let _ = std::fs::remove_file(&err);

    // checksums: name -> distinct values over all seeds
    let mut sums: BTreeMap<String, BTreeSet<String>> = BTreeMap::new();
    let mut lines = 0u64;
    for l in stdout.lines() {
        let w: Vec<&str> = l.split_whitespace().collect();
        if w.len() >= 3 && w[0] == "CHECKSUM" {
            sums.entry(w[1..w.len() - 1].join("_")).or_default().insert(w[w.len() - 1].to_string());
            lines += 1;
        }
        if w.first() == Some(&"MISMATCH") {
            st.violation(0, format!("miri:{mode}:{}:{}", if mode == "script" { "script_tree_differs" } else { "pooled_result_differs" }, w.get(1).unwrap_or(&"")), format!("under Miri: {l}"), serde_json::json!(null));
        }
    }
    st.add(&format!("miri_{mode}_checksum_lines"), lines);
    st.add(&format!("miri_{mode}_workloads"), sums.len() as u64);
    if let Some((a, b)) = seeds {
        st.add(&format!("miri_{mode}_schedules_requested"), b - a);
    }
    for (name, vals) in &sums {
        if vals.len() > 1 {
            st.violation(
                0,
                format!("miri:{mode}:schedule_dependent_result:{name}"),
                format!("under Miri the result of workload {name} depends on the schedule: {vals:?}"),
                serde_json::json!({"values": vals}),
            );
        }
    }
    // undefined behaviour reports
    let mut ub = BTreeSet::new();
    let mut other_err = vec![];
    let ls: Vec<&str> = stderr.lines().collect();
    for (i, l) in ls.iter().enumerate() {
        if let Some(rest) = l.strip_prefix("error: Undefined Behavior:") {
            // first source location in fidget following the report
            let site = ls[i + 1..]
                .iter()
                .take(40)
                .filter_map(|x| x.trim().strip_prefix("--> "))
                .chain(ls[i + 1..].iter().take(60).filter_map(|x| x.split(" at ").nth(1)))
                .find(|x| x.contains("/fidget-"))
                .map(|x| {
                    let x = x.split("/fidget-").last().unwrap_or(x);
                    x.split(':').take(2).collect::<Vec<_>>().join(":")
                })
                .unwrap_or_default();
            let class: String = rest
                .trim()
                .chars()
                .map(|c| if c.is_ascii_digit() { '#' } else { c })
                .take(70)
                .collect();
            if ub.insert((class.clone(), site.clone())) {
                st.violation(
                    0,
                    format!("miri:{mode}:ub:{class}:fidget-{site}"),
                    format!("Miri reported undefined behaviour in the {mode} workload: {} (first fidget frame: fidget-{site})", rest.trim()),
                    serde_json::json!({"report": ls[i..(i + 30).min(ls.len())].join("\n")}),
                );
            }
        } else if l.contains("panicked at ") {
            // a panic inside the interpreted program; with the standard
            // library's own checks compiled in, an out-of-range unchecked
            // index surfaces as "unsafe precondition(s) violated"
            let site = l.split("panicked at ").nth(1).unwrap_or("");
            let site = site.split("/fidget-").last().unwrap_or(site);
            let site = site.split(':').take(2).collect::<Vec<_>>().join(":");
            let msg = ls.get(i + 1).copied().unwrap_or("").trim().to_string();
            let class = if msg.contains("unsafe precondition") { "ub:unsafe_precondition" } else { "panic" };
            let key = (class.to_string(), site.clone());
            if ub.insert(key) {
                st.violation(
                    0,
                    format!("miri:{mode}:{class}:fidget-{site}"),
                    format!("under Miri the {mode} workload panicked at fidget-{site}: {msg}"),
                    serde_json::json!({"report": ls[i..(i + 12).min(ls.len())].join("\n")}),
                );
            }
        } else if l.starts_with("error") {
            other_err.push(l.to_string());
        }
    }
    st.add(&format!("miri_{mode}_ub_reports"), ub.len() as u64);
    match status {
        None => st.inconclusive.push(format!("Miri {mode} stage stopped by the {watchdog_s} s watchdog")),
        Some(s) if !s.success() && ub.is_empty() && !stdout.contains("MISMATCH") => {
            st.inconclusive.push(format!("Miri {mode} stage exited with {:?}: {}", s.code(), other_err.iter().take(2).cloned().collect::<Vec<_>>().join(" | ")));
        }
        Some(s) if s.success() && lines == 0 => st.inconclusive.push(format!("Miri {mode} stage observed nothing")),
        _ => {}
    }
}
